---- MODULE MC_MuSig ----
EXTENDS MuSigToy
ASSUME PrintT(<<"AllOK", AllOK>>)
ASSUME PrintT(<<"Coverage", Coverage>>)
====
