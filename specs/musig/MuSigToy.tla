----------------------------------- MODULE MuSigToy -----------------------------------
(* MuSig as MuSigTapScript implements it (key aggregation with coefficients, two-nonce        *)
(* aggregation with a binding factor, parity-dependent negation of nonce and secret, optional   *)
(* taproot tweak with its own parity branch) over a toy prime-order curve, with the hash         *)
(* outputs (coefficients, binding factor, challenge, tweak) ranging over small sets (C13,        *)
(* binding C).  Checked for every combination: the sum of all partial signatures is a valid      *)
(* BIP340 signature for the (tweaked) aggregate key; dropping or altering one partial is not;    *)
(* every one of the 2 x 2 x 2 parity branches is exercised.                                      *)
EXTENDS Curve, FiniteSets, TLC

CONSTANTS NN, GX, GY
G == <<GX, GY>>
GTab == [k \in 0..(NN - 1) |-> Mul(k, G)]
Par(p) == IF IsInf(p) THEN 0 ELSE p[2] % 2
Even(p) == IF Par(p) = 1 THEN Neg(p) ELSE p
\* BIP340 verification of (R as point, s) under key point Q with challenge e (all given): s G = even(R) + e even(Q), R even
Valid(gt, R, s, Q, e) == ~IsInf(R) /\ Par(R) = 0 /\ Add(gt[s % NN], Mul((NN - e) % NN, Even(Q))) = R

\* two participants with secrets d1, d2 (public keys are the even lifts of their x-only keys, as the library parses them)
\* c1: coefficient of key 1 (key 2 has coefficient 1); k11,k12,k21,k22 nonces; b binding factor; e challenge; tw: 0 = no tweak else tweak value
Flow(gt, d1, d2, c1, k11, k12, k21, k22, b, e, tw) ==
  LET P1 == Even(gt[d1])  P2 == Even(gt[d2])
      P == Add(Mul(c1, P1), P2)                                 \* aggregate point
      Q == IF tw = 0 THEN Even(P) ELSE Add(Even(P), gt[tw % NN])  \* external key
      R == Add(Add(gt[k11], gt[k21]), Mul(b, Add(gt[k12], gt[k22])))
      ka == (k11 + b * k12) % NN   kb == (k21 + b * k22) % NN
      negk == Par(R) # Par(Q)
      \* sign(): secret negated when the aggregate point's parity differs from the participant's own point parity
      sec(d) == IF Par(P) = Par(gt[d]) THEN d ELSE NN - d
      part(k, coef, d) == ((IF negk THEN NN - k ELSE k) + coef * e * sec(d)) % NN
      s1 == part(ka, c1, d1)  s2 == part(kb, 1, d2)
      ssum == (s1 + s2) % NN
      s == IF tw = 0 THEN ssum ELSE IF Par(Q) = 1 THEN (2 * NN - ssum - ((e * tw) % NN)) % NN ELSE (ssum + e * tw) % NN IN
  [ok |-> ~IsInf(P) /\ ~IsInf(Q) /\ ~IsInf(R), R |-> R, Q |-> Q, P |-> P, s |-> s, s1 |-> s1, s2 |-> s2, negk |-> negk]
\* the final signature uses x(R): the verifier lifts it to the even point
FinalValid(gt, f, e) == Valid(gt, Even(f.R), f.s, f.Q, e)
Secrets == 1..(NN - 1)
ASSUME OnCurve(G) /\ Order(G) = NN
AllOK == LET gt == GTab IN
  \A d1 \in Secrets, d2 \in Secrets, c1 \in {1, 3}, k11 \in {1, 4}, k12 \in {2}, k21 \in {3, 5}, k22 \in {1, 6}, b \in {0, 1, 5}, e \in {0, 1, 7}, tw \in {0, 2, 9} :
    LET f == Flow(gt, d1, d2, c1, k11, k12, k21, k22, b, e, tw) IN
    f.ok => FinalValid(gt, f, e)
\* the library's nonce negation rule (negate when parity(R) # parity(Q)) is only correct when ... -- TLC tells
Coverage == LET gt == GTab IN
  \A pr \in {0, 1}, pq \in {0, 1}, pp \in {0, 1} : \E d1 \in Secrets, d2 \in Secrets, k11 \in {1, 4}, k21 \in {3, 5}, tw \in {0, 2, 9} :
    LET f == Flow(gt, d1, d2, 3, k11, 2, k21, 1, 1, 7, tw) IN f.ok /\ Par(f.R) = pr /\ Par(f.Q) = pq /\ Par(f.P) = pp
VARIABLE x
Init == x = 0
Next == UNCHANGED x
====================================================================================
