--------------------------------- MODULE C13Cases ---------------------------------
(* Binding B for C13 on secp256k1, in the discrete-log representation: the harness owns every *)
(* secret and nonce, so the aggregate key, the aggregate nonce and the BIP340 equation are      *)
(* scalar algebra mod n that TLC checks with certificates; coefficients, binding factor,         *)
(* challenge and tweak come from certified tagged-hash rows whose inputs TLC builds itself.       *)
(* Parities of the aggregate point, nonce point and external key are the library's (C03).         *)
EXTENDS BN, HashOracle, CaseIO, FiniteSets, SequencesExt
NOrd == <<65, 65, 54, 208, 140, 94, 210, 191, 59, 160, 72, 175, 230, 220, 174, 186, 254, 255, 255, 255, 255, 255, 255, 255,
          255, 255, 255, 255, 255, 255, 255, 255>>
Dec(x, d) == IF Lt(Strip(d.r), NOrd) /\ Eq(x, Add(Mul(d.q, NOrd), d.r)) THEN Strip(d.r) ELSE <<-1>>
BE32(x) == ToBE(x, 32)
TH(c, tag, msg) == HashIn(HRows(c.hr), tag, msg)
RECURSIVE CatAll(_, _, _)
CatAll(xs, i, acc) == IF i > Len(xs) THEN acc ELSE CatAll(xs, i + 1, acc \o xs[i])
NegIf(b, x) == IF b THEN Sub(NOrd, x) ELSE Strip(x)
\* c.keys: records [x (xonly), d (secret), odd (parity of d*G)] in the library's (sorted-by-xonly) order
RECURSIVE SumR(_, _, _, _)
SumR(c, coefs, i, acc) == IF i > Len(c.keys) THEN acc ELSE SumR(c, coefs, i + 1, Add(acc, Mul(coefs[i], NegIf(c.keys[i].odd, c.keys[i].d))))
RECURSIVE NonceSum(_, _, _, _)
NonceSum(c, b, i, acc) == IF i > Len(c.nonces) THEN acc ELSE NonceSum(c, b, i + 1, Add(acc, Add(c.nonces[i][1], Mul(b, c.nonces[i][2]))))
Sorted(c) == \A k \in 1..(Len(c.keys) - 1) : LexLe(c.keys[k].x, c.keys[k + 1].x)
Expected(c) ==     \* the unique valid s for nonce point R (logged x / parity) under the external key, or <<-1>>
  LET L == TH(c, "tag:KeyAgg list", CatAll([k \in 1..Len(c.keys) |-> c.keys[k].x], 1, <<>>))
      coefs == [k \in 1..Len(c.keys) |-> IF k = 2 THEN <<1>> ELSE Dec(FromBE(TH(c, "tag:KeyAgg coefficient", L \o c.keys[k].x)), c.dcoef[k])]
      p == Dec(SumR(c, coefs, 1, <<>>), c.dp)
      pe == NegIf(c.P_odd, p)
      t == IF c.root = <<>> THEN <<>> ELSE FromBE(TH(c, "tag:TapTweak", c.Px \o c.root))
      q == IF c.root = <<>> THEN pe ELSE Dec(Add(pe, t), c.dq)
      qe == IF c.root = <<>> THEN pe ELSE NegIf(c.Q_odd, q)
      bh == TH(c, "tag:MuSig/noncecoef", c.R1sec \o c.R2sec \o c.Px \o c.msg)
      b == FromBE(bh)
      r == Dec(NonceSum(c, b, 1, <<>>), c.dr)
      re == NegIf(c.R_odd, r)
      e == Dec(FromBE(TH(c, "tag:BIP0340/challenge", c.Rx \o c.Qx \o c.msg)), c.de) IN
  IF L = NoHash \/ bh = NoHash \/ (\E k \in 1..Len(coefs) : coefs[k] = <<-1>>) \/ p = <<-1>> \/ q = <<-1>> \/ r = <<-1>> \/ e = <<-1>> THEN <<-1>>
  ELSE Dec(Add(re, Mul(e, qe)), c.ds)
WhyMusig(c) == LET s == Expected(c) IN
  IF ~Sorted(c) THEN "keys-not-sorted"
  ELSE IF s = <<-1>> THEN "hash-input-or-certificate"
  ELSE IF c.honest THEN (IF c.res # "ok" THEN "honest-aggregation-raises" ELSE IF c.sig # c.Rx \o BE32(s) THEN "aggregate-signature-is-not-valid-bip340" ELSE "")
  ELSE (IF c.res = "ok" THEN "mutated-partials-yield-a-signature" ELSE "")
\* k-of-n trees: the multiset of leaf key sets is exactly the set of k-subsets
KSubsets(S, k) == {T \in SUBSET S : Cardinality(T) = k}
WhyKofN(c) == LET leafsets == [j \in 1..Len(c.leaves) |-> {c.leaves[j][m] : m \in 1..Len(c.leaves[j])}] IN
  IF Len(c.leaves) # Cardinality(KSubsets({c.all[j] : j \in 1..Len(c.all)}, c.k)) THEN "leaf-count"
  ELSE IF {leafsets[j] : j \in 1..Len(leafsets)} # KSubsets({c.all[j] : j \in 1..Len(c.all)}, c.k) THEN "leaf-key-sets"
  ELSE IF ~c.spends_ok THEN "leaf-spend-does-not-verify" ELSE ""
Why(c) == CASE c.kind = "musig" -> WhyMusig(c) [] c.kind = "kofn" -> WhyKofN(c) [] c.kind = "eq" -> (IF c.a = c.b THEN "" ELSE c.what)
VARIABLES i, bad
Init == i = 1 /\ bad = <<>>
Next == /\ i <= NCases /\ i' = i + 1
        /\ bad' = LET w == Why(Cases[i]) IN IF w = "" THEN bad ELSE Append(bad, [id |-> Cases[i].id, why |-> w])
Fin == (i = NCases + 1) => JsonSerialize(IOEnv.OUT, bad)
====================================================================================
