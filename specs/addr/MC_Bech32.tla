---------------------------------- MODULE MC_Bech32 ----------------------------------
(* C09, binding C: the Bech32/Bech32m checksum detects every substitution of one or two       *)
(* characters.  polymod is affine over GF(2): polymod(w xor e) = polymod(w) xor L(e), with      *)
(* L(e) the xor of the per-symbol contributions Synd(value, distance from the end).  A          *)
(* corrupted word is accepted iff L(e) = 0 -- or, when the corruption changes the witness       *)
(* version between 0 and non-zero (so the expected constant changes), iff L(e) = 1 xor M.       *)
(* Both are excluded here for every error pattern of weight one and two within MaxLen symbols.  *)
(* The table is built row by row as a state machine (one action per distance).                  *)
EXTENDS Addr, IOUtils, TLC

MaxLen == atoi(IOEnv.MAXLEN)
Flip == Bech32Const ^^ Bech32mConst
Vals == 1..31
VARIABLES d, row, seen          \* row[v] = Synd(v, d); seen = syndromes of all single errors at smaller distances
vars == <<d, row, seen>>
Init == d = 0 /\ row = [v \in Vals |-> v] /\ seen = {}
\* no single error at this distance, and no pair (this distance, smaller distance), is undetected
RowOK == /\ \A v \in Vals : row[v] \notin {0, Flip}
         /\ \A v \in Vals : \A s \in seen : (row[v] ^^ s) \notin {0, Flip}
Step == /\ d < MaxLen - 1 /\ RowOK
        /\ seen' = seen \cup {row[v] : v \in Vals}
        /\ row' = [v \in Vals |-> PolyStep(row[v], 0)]
        /\ d' = d + 1
Spec == Init /\ [][Step]_vars
Detects == RowOK
\* the linear model agrees with the real polymod on sample words (ties Synd to Polymod)
ASSUME \A v \in {1, 17, 31}, k \in {0, 1, 5, 38} :
         LET w == [i \in 1..50 |-> (7 * i) % 32]  e == [w EXCEPT ![50 - k] = w[50 - k] ^^ v] IN Polymod(e) = Polymod(w) ^^ Synd(v, k)
====================================================================================
