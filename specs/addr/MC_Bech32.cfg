SPECIFICATION Spec
INVARIANT Detects
