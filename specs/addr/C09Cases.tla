--------------------------------- MODULE C09Cases ---------------------------------
(* Binding B for C09: recorded encode/decode calls decided by TLC with Addr.tla.            *)
EXTENDS Addr, CaseIO
HO(c) == HRows(c.hr)
WhyB58(c) == IF c.text # Base58Encode(c.payload) THEN "encode_base58-differs"
             ELSE IF Base58Decode(c.text) # c.payload THEN "spec-roundtrip" ELSE ""
WhyB58Check(c) == IF c.text # Base58Check(HO(c), c.payload) THEN "base58check-encode-differs"
                  ELSE IF ~c.back_ok \/ c.back # c.payload THEN "base58check-decode-does-not-invert" ELSE ""
\* acceptance of an arbitrary candidate string
WhyB58Cand(c) == LET d == Base58CheckDecode(HO(c), c.text) IN
                 IF d = <<-1>> THEN (IF c.accepted THEN "accepts-bad-base58check" ELSE "")
                 ELSE (IF ~c.accepted THEN "rejects-valid-base58check" ELSE IF c.back # d THEN "base58check-decode-differs" ELSE "")
WhySegwit(c) == LET t == SegwitEncode(c.net, c.ver, c.prog)  d == SegwitDecode(c.text) IN
                IF c.text # t THEN "segwit-encode-differs"
                ELSE IF ~d.ok \/ d.ver # c.ver \/ d.prog # c.prog THEN "spec-roundtrip"
                ELSE IF ~c.back_ok THEN "decode_bech32-rejects-valid-address"
                ELSE IF c.back_ver # c.ver \/ c.back_prog # c.prog \/ Hrp(c.back_net) # Hrp(c.net) THEN "decode_bech32-does-not-invert" ELSE ""
WhySegwitSub(c) == IF SegwitDecode(c.text).ok THEN "spec-accepts-substituted-address"      \* excluded by MC_Bech32
                   ELSE IF c.accepted THEN "accepts-substituted-address" ELSE ""
Tmpl(kind, h) == CASE kind = "p2pkh" -> <<118, 169, -1, 136, 172>> [] kind = "p2sh" -> <<169, -1, 135>>
                   [] kind \in {"p2wpkh", "p2wsh"} -> <<0, -1>> [] kind = "p2tr" -> <<81, -1>>
WhyTemplate(c) == IF c.addr # AddressOf(HO(c), c.net, c.tkind, c.h) THEN "address-differs"
                  ELSE IF ~c.back_ok THEN "address_to_script_pubkey-fails"
                  ELSE IF c.back_ops # Tmpl(c.tkind, c.h) \/ c.back_h # c.h THEN "address_to_script_pubkey-not-inverse"
                  ELSE IF ~c.txout_ok THEN "TxOut.to_address-fails"
                  ELSE IF c.txout_ops # Tmpl(c.tkind, c.h) \/ c.txout_h # c.h THEN "TxOut.to_address-not-inverse" ELSE ""
WhyWif(c) == IF c.wif # WifOf(HO(c), c.net, c.secret32, c.compressed) THEN "wif-differs"
             ELSE IF ~c.back_ok THEN "wif-parse-fails"
             ELSE IF c.back_secret # c.secret32 \/ c.back_compressed # c.compressed \/ (c.back_mainnet # (c.net = "mainnet")) THEN "wif-parse-not-inverse" ELSE ""
Why(c) == CASE c.kind = "b58" -> WhyB58(c) [] c.kind = "b58check" -> WhyB58Check(c) [] c.kind = "b58cand" -> WhyB58Cand(c)
            [] c.kind = "segwit" -> WhySegwit(c) [] c.kind = "segwit-sub" -> WhySegwitSub(c)
            [] c.kind = "segwit-const" -> (IF SegwitDecode(c.text).ok THEN "spec-accepts-address-with-the-other-constant"     \* BIP350: v0 <-> Bech32, v1+ <-> Bech32m
                                           ELSE IF c.accepted THEN "accepts-address-with-the-other-checksum-constant" ELSE "") [] c.kind = "template" -> WhyTemplate(c) [] c.kind = "wif" -> WhyWif(c)
VARIABLES i, bad
Init == i = 1 /\ bad = <<>>
Next == /\ i <= NCases /\ i' = i + 1
        /\ bad' = LET w == Why(Cases[i]) IN IF w = "" THEN bad ELSE Append(bad, [id |-> Cases[i].id, why |-> w])
Fin == (i = NCases + 1) => JsonSerialize(IOEnv.OUT, bad)
====================================================================================
