------------------------------------ MODULE Addr ------------------------------------
(* Text encodings of keys and addresses (C09): Base58 / Base58Check, Bech32 / Bech32m      *)
(* segwit addresses, the five standard scriptPubKey templates and WIF.  Text is a sequence   *)
(* of ASCII codes; numbers of any size are BN byte strings.                                   *)
EXTENDS Bech32, BN, HashOracle

B58 == <<49, 50, 51, 52, 53, 54, 55, 56, 57, 65, 66, 67, 68, 69, 70, 71, 72, 74, 75, 76, 77, 78, 80, 81, 82, 83, 84, 85, 86, 87, 88, 89, 90,
         97, 98, 99, 100, 101, 102, 103, 104, 105, 106, 107, 109, 110, 111, 112, 113, 114, 115, 116, 117, 118, 119, 120, 121, 122>>
B58Val(c) == IF \E k \in 1..58 : B58[k] = c THEN (CHOOSE k \in 1..58 : B58[k] = c) - 1 ELSE -1
RECURSIVE LeadZeros(_, _)
LeadZeros(s, i) == IF i <= Len(s) /\ s[i] = 0 THEN LeadZeros(s, i + 1) ELSE i - 1
RECURSIVE B58Digits(_, _)
B58Digits(n, acc) == IF IsZero(n) THEN acc ELSE LET qr == DivModSmall(n, 58) IN B58Digits(qr[1], <<B58[qr[2] + 1]>> \o acc)
Base58Encode(bytes) == Rep(49, LeadZeros(bytes, 1)) \o B58Digits(FromBE(bytes), <<>>)
RECURSIVE B58Horner(_, _, _)
B58Horner(text, i, acc) == IF i > Len(text) THEN acc ELSE B58Horner(text, i + 1, Add(MulSmall(acc, 58), FromInt(B58Val(text[i]))))
RECURSIVE LeadOnes(_, _)
LeadOnes(t, i) == IF i <= Len(t) /\ t[i] = 49 THEN LeadOnes(t, i + 1) ELSE i - 1
Base58Decode(text) == IF \E k \in 1..Len(text) : B58Val(text[k]) = -1 THEN <<-1>>
                      ELSE Zeros(LeadOnes(text, 1)) \o Rev(B58Horner(text, 1, <<>>))
Check4(ho, payload) == LET h == HashIn(ho, "hash256", payload) IN IF h = NoHash THEN NoHash ELSE Take(h, 4)
Base58Check(ho, payload) == Base58Encode(payload \o Check4(ho, payload))
\* acceptance: decodes, at least 4 bytes, and the last four equal the checksum of the rest
Base58CheckDecode(ho, text) == LET raw == Base58Decode(text) IN
   IF raw = <<-1>> \/ Len(raw) < 4 THEN <<-1>>
   ELSE IF Check4(ho, Take(raw, Len(raw) - 4)) # Drop(raw, Len(raw) - 4) THEN <<-1>> ELSE Take(raw, Len(raw) - 4)

\* ---- segwit addresses ----------------------------------------------------------------------
Hrp(net) == CASE net = "mainnet" -> <<98, 99>> [] net \in {"testnet", "signet"} -> <<116, 98>> [] net = "regtest" -> <<98, 99, 114, 116>>
ConstFor(ver) == IF ver = 0 THEN Bech32Const ELSE Bech32mConst
SegwitEncode(net, ver, prog) ==
  LET data == <<ver>> \o To5(prog)  chk == CreateChecksum(HrpExpand(Hrp(net)), data, ConstFor(ver)) IN
  Hrp(net) \o <<49>> \o [k \in 1..(Len(data) + 6) |-> CharOf((data \o chk)[k])]
\* decode: [ok, hrp, ver, prog]
RECURSIVE LastOne(_, _)
LastOne(t, i) == IF i = 0 THEN 0 ELSE IF t[i] = 49 THEN i ELSE LastOne(t, i - 1)
SegwitDecode(text) ==
  LET p == LastOne(text, Len(text)) IN
  IF p < 2 \/ Len(text) - p < 7 THEN [ok |-> FALSE]
  ELSE LET hrp == SubSeq(text, 1, p - 1)  vals == [k \in 1..(Len(text) - p) |-> ValOf(text[p + k])] IN
       IF \E k \in 1..Len(vals) : vals[k] = -1 THEN [ok |-> FALSE]
       ELSE IF hrp \notin {<<98, 99>>, <<116, 98>>, <<98, 99, 114, 116>>} THEN [ok |-> FALSE]
       ELSE IF vals[1] > 16 THEN [ok |-> FALSE]
       ELSE IF Polymod(HrpExpand(hrp) \o vals) # ConstFor(vals[1]) THEN [ok |-> FALSE]
       ELSE LET prog == To8(SubSeq(vals, 2, Len(vals) - 6)) IN
            IF prog = <<-1>> \/ Len(prog) < 2 \/ Len(prog) > 40 THEN [ok |-> FALSE]
            ELSE [ok |-> TRUE, hrp |-> hrp, ver |-> vals[1], prog |-> prog]

\* ---- scriptPubKey templates <-> address --------------------------------------------------------
P2pkhVer(net) == IF net = "mainnet" THEN 0 ELSE 111
P2shVer(net) == IF net = "mainnet" THEN 5 ELSE 196
AddressOf(ho, net, kind, h) ==
  CASE kind = "p2pkh" -> Base58Check(ho, <<P2pkhVer(net)>> \o h)
    [] kind = "p2sh" -> Base58Check(ho, <<P2shVer(net)>> \o h)
    [] kind \in {"p2wpkh", "p2wsh"} -> SegwitEncode(net, 0, h)
    [] kind = "p2tr" -> SegwitEncode(net, 1, h)
WifOf(ho, net, secret32, compressed) == Base58Check(ho, <<IF net = "mainnet" THEN 128 ELSE 239>> \o secret32 \o (IF compressed THEN <<1>> ELSE <<>>))

\* ---- error detection of the BCH code, by linearity (see MC_Bech32) ---------------------------------
\* contribution of a single symbol error of value v at distance d from the end of the word
RECURSIVE Synd(_, _)
Synd(v, d) == IF d = 0 THEN v ELSE PolyStep(Synd(v, d - 1), 0)
====================================================================================
