--------------------------------- MODULE C11Cases ---------------------------------
(* Binding A/B for C11: every tampering of the Review model's catalogue is applied to real    *)
(* multisig PSBTs; the harness records, next to the library's outcome, the abstract output       *)
(* records of the tampered PSBT (which key of which cosigner at which path sits where -- known    *)
(* by construction).  TLC evaluates the reference predicate RealChange on them and decides:       *)
(*   an output labelled change is real change; inconsistent PSBTs are rejected; the honest PSBT    *)
(*   is summarised; fee = inputs - outputs and spend + change + fee = inputs (big-number sums).    *)
EXTENDS BN, CaseIO, FiniteSets
\* o: [spk: [m, keys (seq of <<c, tag>>), shape ("plain" = exactly OP_m keys OP_n OP_CHECKMULTISIG)], named: seq of [key, xfp, path]]
KeySet(s) == {s.keys[k] : k \in 1..Len(s.keys)}
RealChange(o, n, m) ==
  /\ o.spk.shape = "plain" /\ o.spk.m = m /\ Cardinality(KeySet(o.spk)) = n /\ Len(o.spk.keys) = n
  /\ \A c \in 1..n : Cardinality({k \in KeySet(o.spk) : k[1] = c}) = 1
  /\ \A j \in 1..Len(o.named) : o.named[j].key = <<o.named[j].xfp, o.named[j].path>> /\ o.named[j].key \in KeySet(o.spk)
RECURSIVE SumBN(_, _, _)
SumBN(xs, i, acc) == IF i > Len(xs) THEN acc ELSE SumBN(xs, i + 1, Add(acc, xs[i]))
Why(c) ==
  IF c.res = "reject" THEN (IF c.tamper \in {"none", "two-spends-one-address"} THEN "honest-psbt-not-summarised" ELSE "")
  ELSE \* a summary was produced
    IF ~c.inputs_consistent THEN "inconsistent-input-summarised:" \o c.tamper
    ELSE IF \E k \in 1..Len(c.outs) : c.is_change[k] /\ ~RealChange(c.outs[k], c.n, c.m) THEN "output-labelled-change-is-not-real-change:" \o c.tamper
    ELSE IF c.tamper = "none" /\ (~c.is_change[2] \/ c.is_change[1]) THEN "honest-change-not-recognised"
    ELSE IF ~Eq(Add(c.fee, SumBN(c.out_amounts, 1, <<>>)), SumBN(c.in_amounts, 1, <<>>)) THEN "fee-is-not-inputs-minus-outputs"
    ELSE IF ~Eq(Add(Add(c.spend, c.change), c.fee), SumBN(c.in_amounts, 1, <<>>)) THEN "spend-plus-change-plus-fee-is-not-inputs"
    ELSE IF ~Eq(c.total_in, SumBN(c.in_amounts, 1, <<>>)) THEN "total-input-differs" ELSE ""
VARIABLES i, bad
Init == i = 1 /\ bad = <<>>
Next == /\ i <= NCases /\ i' = i + 1
        /\ bad' = LET w == Why(Cases[i]) IN IF w = "" THEN bad ELSE Append(bad, [id |-> Cases[i].id, why |-> w])
Fin == (i = NCases + 1) => JsonSerialize(IOEnv.OUT, bad)
====================================================================================
