------------------------------------ MODULE Review ------------------------------------
(* PSBT review summary for a multisig wallet (C11).  A wallet is N cosigners with quorum M.    *)
(* Keys are abstract: <<c, tag>> is cosigner c's key at the path the PSBT states ("chg") or at   *)
(* another path ("alt"); <<0, "atk">> is a key the wallet cannot spend.  A script is            *)
(* [m, keys, shape]: shape "plain" is exactly OP_m <keys> OP_n OP_CHECKMULTISIG; "backdoor" is a   *)
(* script that begins with OP_m and ends with <keys> OP_n OP_CHECKMULTISIG but says something     *)
(* else in between (e.g. OP_m OP_DROP <atk> OP_CHECKSIGVERIFY OP_0 OP_0 <keys> OP_n               *)
(* OP_CHECKMULTISIG, which one foreign key spends); "nslot" keeps OP_m and the keys but carries    *)
(* another number in the OP_n position.  Committing to a script by hash is modelled by carrying    *)
(* the script itself.                                                                             *)
(* An output record carries what a PSBT output carries: the scriptPubKey commitment, the         *)
(* attached redeem / witness script and the BIP32 derivation records (key, claimed cosigner,     *)
(* claimed path tag).                                                                             *)
(*  IsChangeImpl : what _describe_basic_multisig_outputs + PSBTOut.validate conclude, check by    *)
(*                 check, parameterised by the two checks the unrepaired code lacks              *)
(*  RealChange   : the reference predicate of the property                                        *)
(* TLC explores every PSBT an adversary gets by applying up to two tamperings of the catalogue    *)
(* to the honest PSBT.                                                                            *)
EXTENDS Naturals, FiniteSets, Sequences, TLC
CONSTANTS N, M, Kind,              \* Kind: "p2sh" or "p2wsh"
          CheckRedeemHash,         \* PSBTOut.validate ties a bare redeem script to the scriptPubKey
          CheckTemplate,           \* get_quorum accepts nothing but the plain multisig template (FALSE: the unrepaired code, which reads m
                                   \* from the first op code and n from the op code before OP_CHECKMULTISIG [P2WSH] or from the command count [P2SH])
          CheckDistinctCosigners   \* "all": change detection requires one key per declared cosigner; "quorum": only >= M distinct
                                   \* cosigners (a plausible weakening, must be refuted); "none": the unrepaired code
Cos == 1..N
NoScript == [m |-> 0, keys |-> {}, shape |-> "plain"]
HonestKeys == {<<c, "chg">> : c \in Cos}
HonestScript == [m |-> M, keys |-> HonestKeys, shape |-> "plain"]
Derives(np) == np.key = <<np.xfp, np.path>>            \* the key really is the claimed cosigner's key at the claimed path
HonestNamed == {[key |-> <<c, "chg">>, xfp |-> c, path |-> "chg"] : c \in Cos}
HonestChange == [amount |-> 3, spk |-> HonestScript, attached |-> HonestScript, named |-> HonestNamed]
Spend == [amount |-> 5, spk |-> [m |-> 1, keys |-> {<<0, "atk">>}, shape |-> "plain"], attached |-> NoScript, named |-> {}]
VARIABLES outs, tampers, inputsOK
vars == <<outs, tampers, inputsOK>>
Init == outs = <<Spend, HonestChange>> /\ tampers = 0 /\ inputsOK = TRUE

AtkScript == [m |-> M, keys |-> {<<0, "atk">>} \cup {<<c, "chg">> : c \in 2..N}, shape |-> "plain"]
OneCosScript == [m |-> M, keys |-> {<<1, "chg">>, <<1, "alt">>} \cup (IF N > 2 THEN {<<1, "alt2">>} ELSE {}), shape |-> "plain"]
OneCosNamed == {[key |-> k, xfp |-> 1, path |-> k[2]] : k \in OneCosScript.keys}
TwoFromOneScript == [m |-> M, keys |-> {<<1, "chg">>, <<1, "alt">>} \cup {<<c, "chg">> : c \in 2..(N - 1)}, shape |-> "plain"]     \* cosigner 1 twice, cosigner N not at all
TwoFromOneNamed == {[key |-> k, xfp |-> k[1], path |-> k[2]] : k \in TwoFromOneScript.keys}
Set(k, o) == outs' = [outs EXCEPT ![k] = o] /\ tampers' = tampers + 1 /\ UNCHANGED inputsOK
\* the catalogue (applied to output 2, the change output, unless stated)
SwapSpk == Set(2, [outs[2] EXCEPT !.spk = AtkScript])                                              \* scriptPubKey swapped, metadata kept
ForeignScript == Set(2, [outs[2] EXCEPT !.attached = AtkScript, !.spk = AtkScript])                   \* foreign script, honest derivations
ForeignScriptNamed == Set(2, [outs[2] EXCEPT !.attached = AtkScript, !.spk = AtkScript,
                                            !.named = (HonestNamed \ {[key |-> <<1, "chg">>, xfp |-> 1, path |-> "chg"]}) \cup {[key |-> <<0, "atk">>, xfp |-> 1, path |-> "chg"]}])
OneCosigner == Set(2, [outs[2] EXCEPT !.attached = OneCosScript, !.spk = OneCosScript, !.named = OneCosNamed]) \* every change key from cosigner 1
TwoFromOne == N > 2 /\ Set(2, [outs[2] EXCEPT !.attached = TwoFromOneScript, !.spk = TwoFromOneScript, !.named = TwoFromOneNamed])
WrongPath == Set(2, [outs[2] EXCEPT !.named = (HonestNamed \ {[key |-> <<1, "chg">>, xfp |-> 1, path |-> "chg"]}) \cup {[key |-> <<1, "chg">>, xfp |-> 1, path |-> "alt"]}])
ForeignXfp == Set(2, [outs[2] EXCEPT !.named = (HonestNamed \ {[key |-> <<1, "chg">>, xfp |-> 1, path |-> "chg"]}) \cup {[key |-> <<1, "chg">>, xfp |-> 0, path |-> "chg"]}])
ChangeQuorum == M > 1 /\ Set(2, [outs[2] EXCEPT !.attached = [HonestScript EXCEPT !.m = M - 1], !.spk = [HonestScript EXCEPT !.m = M - 1]])
\* the wallet's own change keys, honest derivations, the scriptPubKey commits to the attached script - but the script is not the template
BackdoorScript == Set(2, [outs[2] EXCEPT !.attached = [HonestScript EXCEPT !.shape = "backdoor"], !.spk = [HonestScript EXCEPT !.shape = "backdoor"]])
NSlotScript == Set(2, [outs[2] EXCEPT !.attached = [HonestScript EXCEPT !.shape = "nslot"], !.spk = [HonestScript EXCEPT !.shape = "nslot"]])
SecondChange == outs' = Append(outs, HonestChange) /\ tampers' = tampers + 1 /\ UNCHANGED inputsOK
MarkSpendAsChange == Set(1, [outs[1] EXCEPT !.attached = HonestScript, !.named = HonestNamed])            \* spend output dressed up with change metadata
TamperInput == inputsOK' = FALSE /\ tampers' = tampers + 1 /\ UNCHANGED outs                            \* UTXO / script / derivation of an input no longer matches
Next == tampers < 2 /\ (SwapSpk \/ ForeignScript \/ ForeignScriptNamed \/ OneCosigner \/ TwoFromOne \/ WrongPath \/ ForeignXfp \/ ChangeQuorum \/ BackdoorScript \/ NSlotScript \/ SecondChange \/ MarkSpendAsChange \/ TamperInput)
Spec == Init /\ [][Next]_vars

\* ---- PSBTOut.validate + change detection, as the code proceeds -----------------------------------
ValidateOut(o) == \/ o.attached = NoScript
                  \/ /\ (Kind = "p2wsh" \/ CheckRedeemHash) => o.spk = o.attached         \* script hash ties the attached script to the scriptPubKey
                     /\ \A np \in o.named : np.key \in o.attached.keys
OutcomeOut(o) ==        \* "spend" / "change" / "reject"
  IF ~ValidateOut(o) THEN "reject"
  ELSE IF o.named = {} THEN "spend"
  ELSE IF o.attached = NoScript THEN "reject"
  ELSE IF CheckTemplate /\ o.attached.shape # "plain" THEN "reject"
  \* the unrepaired get_quorum: P2WSH reads n from the op code before OP_CHECKMULTISIG (the "nslot" script shows another number
  \* there, the "backdoor" script the right one); P2SH counts the commands (the backdoor has more of them, "nslot" the same)
  ELSE IF ~CheckTemplate /\ o.attached.shape = (IF Kind = "p2wsh" THEN "nslot" ELSE "backdoor") THEN "reject"
  ELSE IF o.attached.m # M \/ Cardinality(o.attached.keys) # N \/ Cardinality(o.named) # N THEN "reject"
  ELSE IF \E np \in o.named : np.xfp \notin Cos \/ ~Derives(np) THEN "reject"
  ELSE IF CheckDistinctCosigners = "all" /\ Cardinality({np.xfp : np \in o.named}) # N THEN "reject"
  ELSE IF CheckDistinctCosigners = "quorum" /\ Cardinality({np.xfp : np \in o.named}) < M THEN "reject"
  ELSE "change"
Describe == IF ~inputsOK \/ \E k \in 1..Len(outs) : OutcomeOut(outs[k]) = "reject" THEN "reject"
            ELSE IF Cardinality({k \in 1..Len(outs) : OutcomeOut(outs[k]) = "change"}) > 1 THEN "reject"
            ELSE "summary"
\* ---- the property -----------------------------------------------------------------------------------
RealChange(o) == /\ o.spk.shape = "plain" /\ o.spk.m = M /\ Cardinality(o.spk.keys) = N
                 /\ \A c \in Cos : Cardinality({k \in o.spk.keys : k[1] = c}) = 1
                 /\ \A np \in o.named : Derives(np) /\ np.key \in o.spk.keys
ChangeIsReal == Describe = "summary" => \A k \in 1..Len(outs) : OutcomeOut(outs[k]) = "change" => RealChange(outs[k])
InconsistentRejected == ~inputsOK => Describe = "reject"
HonestSummarised == tampers = 0 => (Describe = "summary" /\ OutcomeOut(outs[2]) = "change" /\ OutcomeOut(outs[1]) = "spend")
====================================================================================
