SPECIFICATION Spec
CONSTANTS
  N = 3
  M = 2
  Copies = {1, 2, 3}
INVARIANT Confluence
INVARIANT FinalIsFunctionOfSet
INVARIANT ExactlyWhenEnough
INVARIANT SameSetSameResult
PROPERTY Monotone
