SPECIFICATION Spec
CONSTANTS
  N = 3
  M = 2
  CheckOutputs = FALSE
INVARIANT BuiltOnlyIfConsistent
INVARIANT ConsistentIsBuilt
INVARIANT ChangeIsReal
INVARIANT HonestSummarised
PROPERTY Terminates
