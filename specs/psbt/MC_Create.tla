---------------------------------- MODULE MC_Create ----------------------------------
(* Bounded universe of requests for Create.tla: the honest request and every combination *)
(* of false or unusual claims of a catalogue, per record set, input and output.           *)
EXTENDS Create
OwnKeys(tag) == {<<c, tag>> : c \in Cos}
HonestIn == [hash_ok |-> TRUE, sats_ok |-> TRUE, m_claim |-> M, paths |-> [c \in Cos |-> "rcv"], utxo |-> Script(M, OwnKeys("rcv"))]
InVariants == {HonestIn, [HonestIn EXCEPT !.hash_ok = FALSE], [HonestIn EXCEPT !.sats_ok = FALSE],
               [HonestIn EXCEPT !.m_claim = M - 1],
               [HonestIn EXCEPT !.paths = [c \in Cos |-> IF c = 1 THEN "alt" ELSE "rcv"]],
               [HonestIn EXCEPT !.paths = [c \in Cos \ {N} |-> "rcv"]],
               [HonestIn EXCEPT !.utxo = Script(M, (OwnKeys("rcv") \ {<<1, "rcv">>}) \cup {<<0, "rcv">>})]}      \* a coin locked to a foreign key in place of cosigner 1
External == [claims_change |-> FALSE, m_claim |-> 0, paths |-> <<>>, addr |-> Script(1, {<<0, "ext">>})]
HonestChg == [claims_change |-> TRUE, m_claim |-> M, paths |-> [c \in Cos |-> "chg"], addr |-> Script(M, OwnKeys("chg"))]
AltPaths == [c \in Cos |-> IF c = 1 THEN "alt" ELSE "chg"]
OutVariants == {HonestChg,
                [HonestChg EXCEPT !.m_claim = M - 1],                                              \* false quorum claim
                [HonestChg EXCEPT !.m_claim = M - 1, !.addr = Script(M - 1, OwnKeys("chg"))],      \* true claim, another quorum: not this wallet's change
                [HonestChg EXCEPT !.paths = AltPaths],                                             \* false path claim
                [HonestChg EXCEPT !.paths = AltPaths, !.addr = Script(M, {<<c, AltPaths[c]>> : c \in Cos})],   \* true claim at another path: still change
                [HonestChg EXCEPT !.addr = Script(M, (OwnKeys("chg") \ {<<1, "chg">>}) \cup {<<0, "chg">>})],  \* address holds a foreign key
                [HonestChg EXCEPT !.paths = [c \in Cos \ {N} |-> "chg"], !.addr = Script(M, OwnKeys("chg") \ {<<N, "chg">>})],  \* true claim over fewer cosigners
                [HonestChg EXCEPT !.claims_change = FALSE, !.paths = <<>>],                        \* real change that is not claimed
                External}
Requests == {[records |-> r, wrongrec |-> w, ins |-> i, outs |-> o, fee_ok |-> f] :
               r \in {Cos, Cos \ {N}}, w \in {0, 1},
               i \in {<<a>> : a \in InVariants} \cup {<<a, b>> : a \in InVariants, b \in InVariants},
               o \in {<<External, v>> : v \in OutVariants} \cup {<<v, External>> : v \in OutVariants} \cup {<<HonestChg, v>> : v \in OutVariants},
               f \in BOOLEAN}
Init == req \in Requests /\ pc = "records" /\ idx = 0 /\ result = "pending" /\ summary = <<>>
Spec == Init /\ [][Next]_vars /\ WF_vars(Next)
\* the honest request is built and its change is recognised (non-vacuity of the whole pipeline)
HonestReq == [records |-> Cos, wrongrec |-> 0, ins |-> <<HonestIn, HonestIn>>, outs |-> <<External, HonestChg>>, fee_ok |-> TRUE]
HonestSummarised == (req = HonestReq /\ pc = "done" /\ summary # <<"refused">>) => (result = "psbt" /\ summary = <<FALSE, TRUE>>)
=======================================================================================
