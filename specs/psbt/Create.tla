----------------------------------- MODULE Create -----------------------------------
(* psbt_helper.create_multisig_psbt as a guarded constructor, composed with the review   *)
(* procedure of Review.tla / C11 (describe_basic_multisig).                              *)
(*                                                                                        *)
(* A caller hands over key records, inputs (previous transaction, claimed hash and        *)
(* amount, quorum, one derivation path per cosigner), outputs (address, amount, and for   *)
(* outputs that claim to be change a quorum and derivation paths) and a fee.  The helper   *)
(* works through them in order and raises at the first claim that is not borne out; only   *)
(* if every claim holds does it build the PSBT.  Keys are abstract: <<c, tag>> is the key   *)
(* of cosigner c at the path named tag; cosigner 0 is an outsider.                          *)
(*                                                                                        *)
(* One action per stage of the code: Records, Input(i), Output(k), Fee, Build, Describe.  *)
EXTENDS CreateCore
CONSTANT CheckOutputs    \* FALSE: a helper that trusts change claims (must be refuted: the vacuity guard of this model)

---------------------------------------------------------------------------------------
VARIABLES req, pc, idx, result, summary
vars == <<req, pc, idx, result, summary>>

Reject == /\ result' = "rejected" /\ pc' = "done" /\ UNCHANGED <<req, idx, summary>>
Records ==      \* parse the key records (nothing can fail here in the abstract model: coverage is checked per path)
  /\ pc = "records" /\ pc' = "inputs" /\ idx' = 1 /\ UNCHANGED <<req, result, summary>>
Input ==
  /\ pc = "inputs"
  /\ IF idx > Len(req.ins) THEN pc' = "outputs" /\ idx' = 1 /\ UNCHANGED <<req, result, summary>>
     ELSE IF InputOK(req, idx) THEN idx' = idx + 1 /\ UNCHANGED <<req, pc, result, summary>>
     ELSE Reject
Output ==
  /\ pc = "outputs"
  /\ IF idx > Len(req.outs) THEN pc' = "fee" /\ UNCHANGED <<req, idx, result, summary>>
     ELSE IF OutputOK(req, idx) \/ ~CheckOutputs THEN idx' = idx + 1 /\ UNCHANGED <<req, pc, result, summary>>
     ELSE Reject
Fee == /\ pc = "fee" /\ IF req.fee_ok THEN pc' = "build" /\ UNCHANGED <<req, idx, result, summary>> ELSE Reject
Build == /\ pc = "build" /\ result' = "psbt" /\ pc' = "describe" /\ UNCHANGED <<req, idx, summary>>
\* the review procedure on the PSBT just built: an output is labelled change only if it carries validated change metadata
\* (it claimed to be change) and its script is real change of this wallet; a claim that is true but is not real change
\* (another quorum) may be refused or summarised as a plain spend
Describe ==
  /\ pc = "describe" /\ pc' = "done"
  /\ \/ summary' = [k \in 1..Len(req.outs) |-> req.outs[k].claims_change /\ RealChange(req.outs[k].addr)]
     \/ (\E k \in 1..Len(req.outs) : req.outs[k].claims_change /\ ~RealChange(req.outs[k].addr)) /\ summary' = <<"refused">>
     \/ ~(\A i \in 1..Len(req.ins) : OwnInput(req.ins[i])) /\ summary' = <<"refused">>
  /\ UNCHANGED <<req, idx, result>>
Next == Records \/ Input \/ Output \/ Fee \/ Build \/ Describe

\* ---- what the user relies on
BuiltOnlyIfConsistent == result = "psbt" => Consistent(req)
ConsistentIsBuilt == (pc = "done" /\ Consistent(req)) => result = "psbt"
ChangeIsReal == (pc = "done" /\ result = "psbt" /\ summary # <<"refused">> /\ summary # <<>>) =>
                    \A k \in 1..Len(req.outs) : summary[k] => RealChange(req.outs[k].addr)
Terminates == <>(pc = "done")
=======================================================================================
