--------------------------------- MODULE CreateCore ----------------------------------
(* The predicates of Create.tla that do not mention the machine's variables: shared by the  *)
(* model (Create.tla) and by the validation of recorded runs (CreateCases.tla).             *)
EXTENDS Naturals, Sequences, FiniteSets, TLC

CONSTANTS N, M            \* the wallet is M-of-N
Cos == 1..N

Script(m, keys) == [m |-> m, keys |-> keys]                   \* a sorted multisig script: quorum and key set
\* what a path entry (c at tag) derives to under the supplied records: the cosigner whose record carries a foreign xpub
\* under his fingerprint derives foreign keys
Derived(req, c, tag) == IF c = req.wrongrec THEN <<0, tag>> ELSE <<c, tag>>
DerivedKeys(req, paths) == {Derived(req, c, paths[c]) : c \in DOMAIN paths}
Covered(req, paths) == DOMAIN paths \subseteq req.records

InputOK(req, i) ==
  LET x == req.ins[i] IN
  /\ Covered(req, x.paths) /\ x.hash_ok /\ x.sats_ok
  /\ Script(x.m_claim, DerivedKeys(req, x.paths)) = x.utxo
OutputOK(req, k) ==
  LET o == req.outs[k] IN
  o.claims_change => (Covered(req, o.paths) /\ Script(o.m_claim, DerivedKeys(req, o.paths)) = o.addr)

\* the caller's claims are all true (stated without reference to the order of the checks)
Consistent(req) == /\ \A i \in 1..Len(req.ins) : InputOK(req, i)
                   /\ \A k \in 1..Len(req.outs) : OutputOK(req, k)
                   /\ req.fee_ok

\* the reference notion of change (C11): the quorum of the inputs over exactly one key of every cosigner
RealChange(s) == s.m = M /\ Cardinality(s.keys) = N /\ \A c \in Cos : Cardinality({k \in s.keys : k[1] = c}) = 1
\* the honest wallet spends its own coins
OwnInput(x) == RealChange(x.utxo)

=======================================================================================
