--------------------------------- MODULE C10Cases ---------------------------------
(* Binding B for C10: every PSBT reached in the replayed workflows (and the BIP174 vectors,    *)
(* and PSBTs with injected unknown key-values / xpubs) is logged with its bytes; TLC parses     *)
(* the container with PSBTWire and decides the structural clauses; equalities between the        *)
(* results of different signing / combining orders and the extract outcomes are decided here     *)
(* against the Workflow model's statement (function of the signer set; valid iff >= m).           *)
EXTENDS PSBTWire, CaseIO
WhyPsbt(c) == LET p == ParsePSBT(c.bytes) IN
  IF ~p.ok THEN "serialised-psbt-malformed:" \o p.why
  ELSE IF ~UnsignedOK(p) THEN "unsigned-tx-not-legacy-or-not-bare"
  ELSE IF c.reser # c.bytes THEN "parse-serialise-not-identity"
  ELSE IF \E k \in 1..Len(c.nsigs) : NumSigs(p, k) # c.nsigs[k] THEN "partial-signature-count"
  ELSE ""
WhyLoad(c) == LET p == ParsePSBT(c.bytes) IN
  IF c.expect = "structural" THEN (IF p.ok THEN "harness:structurally-valid" ELSE IF c.accepted THEN "accepts-malformed-psbt:" \o p.why ELSE "")
  ELSE IF c.expect = "bad-partial-sig" THEN (IF c.accepted THEN "accepts-invalid-partial-signature" ELSE "")
  ELSE (IF ~c.accepted THEN "rejects-valid-psbt" ELSE "")
WhyFlow(c) ==     \* c.signed: number of distinct signers that contributed; c.m: quorum
  IF c.signed >= c.m THEN (IF c.res # "ok" THEN "enough-signers-but-no-valid-transaction" ELSE IF ~c.verifies THEN "extracted-transaction-does-not-verify" ELSE "")
  ELSE (IF c.res = "ok" THEN "transaction-extracted-with-fewer-than-m-signers" ELSE "")
\* The finalised input of an m-of-n spend: dummy, exactly m of the contributed signatures in the order of their keys in the
\* script, then the script (what OP_CHECKMULTISIG with NULLDUMMY and the clean-stack rule accepts); single-key: <<sig, key>>.
KeyIndex(c, sig) == LET hit == {k \in 1..Len(c.keys) : \E j \in 1..Len(c.sigs) : c.sigs[j][1] = c.keys[k] /\ c.sigs[j][2] = sig} IN
                    IF hit = {} THEN 0 ELSE CHOOSE k \in hit : TRUE
WhyFinal(c) ==
  IF c.single THEN (IF Len(c.items) = 2 /\ c.items[2] = c.keys[1] /\ KeyIndex(c, c.items[1]) = 1 THEN "" ELSE "final-single-key-input-shape")
  ELSE IF Len(c.items) # c.m + 2 THEN "final-multisig-input-has-" \o (IF Len(c.items) > c.m + 2 THEN "more" ELSE "fewer") \o "-than-m-signatures"
  ELSE IF c.items[1] # <<>> THEN "final-multisig-dummy-not-empty"
  ELSE IF c.items[c.m + 2] # c.script THEN "final-multisig-script-differs"
  ELSE IF \E j \in 1..c.m : KeyIndex(c, c.items[j + 1]) = 0 THEN "final-multisig-signature-not-among-the-partial-signatures"
  ELSE IF \E j \in 1..(c.m - 1) : KeyIndex(c, c.items[j + 1]) >= KeyIndex(c, c.items[j + 2]) THEN "final-multisig-signatures-not-in-key-order"
  ELSE ""
Why(c) == CASE c.kind = "psbt" -> WhyPsbt(c) [] c.kind = "load" -> WhyLoad(c) [] c.kind = "flow" -> WhyFlow(c) [] c.kind = "final" -> WhyFinal(c)
            [] c.kind = "eq" -> (IF c.a = c.b THEN "" ELSE c.what)
VARIABLES i, bad
Init == i = 1 /\ bad = <<>>
Next == /\ i <= NCases /\ i' = i + 1
        /\ bad' = LET w == Why(Cases[i]) IN IF w = "" THEN bad ELSE Append(bad, [id |-> Cases[i].id, why |-> w])
Fin == (i = NCases + 1) => JsonSerialize(IOEnv.OUT, bad)
====================================================================================
