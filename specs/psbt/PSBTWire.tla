----------------------------------- MODULE PSBTWire -----------------------------------
(* BIP174 container format (C10): magic, global map, one map per input and output of the      *)
(* embedded unsigned transaction; a map is a sequence of <key, value> var-strings ended by a     *)
(* 0x00 byte; keys are unique within a map; the global map carries the unsigned transaction      *)
(* under key 0x00, serialised in the non-witness format with empty scriptSigs.                   *)
EXTENDS TxWire, FiniteSets
Magic == <<112, 115, 98, 116, 255>>
\* read one map at p: [ok, kv (sequence of [k, v]), pos]
RECURSIVE ReadMap(_, _, _)
ReadMap(s, p, acc) ==
  LET kl == ReadVarint(s, p) IN
  IF ~kl.ok THEN [ok |-> FALSE, kv |-> acc, pos |-> 0]
  ELSE IF kl.val = 0 THEN [ok |-> TRUE, kv |-> acc, pos |-> kl.pos]
  ELSE IF kl.pos + kl.val - 1 > Len(s) THEN [ok |-> FALSE, kv |-> acc, pos |-> 0]
  ELSE LET key == Slice(s, kl.pos, kl.pos + kl.val - 1)  vl == ReadVarint(s, kl.pos + kl.val) IN
       IF ~vl.ok \/ vl.pos + vl.val - 1 > Len(s) THEN [ok |-> FALSE, kv |-> acc, pos |-> 0]
       ELSE ReadMap(s, vl.pos + vl.val, Append(acc, [k |-> key, v |-> Slice(s, vl.pos, vl.pos + vl.val - 1)]))
UniqueKeys(kv) == \A a, b \in 1..Len(kv) : a # b => kv[a].k # kv[b].k
RECURSIVE ReadMaps(_, _, _, _)
ReadMaps(s, p, n, acc) == IF n = 0 THEN [ok |-> TRUE, maps |-> acc, pos |-> p]
  ELSE LET m == ReadMap(s, p, <<>>) IN IF ~m.ok \/ ~UniqueKeys(m.kv) THEN [ok |-> FALSE, maps |-> acc, pos |-> 0] ELSE ReadMaps(s, m.pos, n - 1, Append(acc, m.kv))
Lookup(kv, key) == IF \E a \in 1..Len(kv) : kv[a].k = key THEN kv[CHOOSE a \in 1..Len(kv) : kv[a].k = key].v ELSE <<-1>>
ParsePSBT(s) ==
  IF Len(s) < 5 \/ Take(s, 5) # Magic THEN [ok |-> FALSE, why |-> "magic"]
  ELSE LET g == ReadMap(s, 6, <<>>) IN
    IF ~g.ok \/ ~UniqueKeys(g.kv) THEN [ok |-> FALSE, why |-> "global-map"]
    ELSE LET raw == Lookup(g.kv, <<0>>) IN
      IF raw = <<-1>> THEN [ok |-> FALSE, why |-> "no-unsigned-tx"]
      ELSE LET t == ParseTx(raw) IN
        IF ~t.ok \/ t.rest # 0 THEN [ok |-> FALSE, why |-> "unsigned-tx-unparseable"]
        ELSE LET ins == ReadMaps(s, g.pos, Len(t.tx.ins), <<>>) IN
          IF ~ins.ok THEN [ok |-> FALSE, why |-> "input-maps"]
          ELSE LET outs == ReadMaps(s, ins.pos, Len(t.tx.outs), <<>>) IN
            IF ~outs.ok THEN [ok |-> FALSE, why |-> "output-maps"]
            ELSE IF outs.pos # Len(s) + 1 THEN [ok |-> FALSE, why |-> "trailing-bytes"]
            ELSE [ok |-> TRUE, why |-> "", global |-> g.kv, tx |-> t.tx, ins |-> ins.maps, outs |-> outs.maps]
\* the embedded transaction is in non-witness format with empty scriptSigs
UnsignedOK(p) == ~p.tx.segwit /\ \A k \in 1..Len(p.tx.ins) : p.tx.ins[k].script = <<>>
\* number of partial signatures in input k
NumSigs(p, k) == Cardinality({a \in 1..Len(p.ins[k]) : p.ins[k][a].k[1] = 2})
====================================================================================
