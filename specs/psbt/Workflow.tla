----------------------------------- MODULE Workflow -----------------------------------
(* The PSBT signing workflow for one m-of-n input as a state machine over several PSBT       *)
(* copies in flight (C10): a copy carries the set of signers whose partial signature it        *)
(* holds.  Sign(c, s) adds signer s's signature to copy c; Combine(a, b) merges b into a;        *)
(* Finalize(c) is enabled once at least M signatures are present and fixes the M signatures       *)
(* that go into the final script, chosen in script-key order as PSBTIn.finalize does.             *)
(* Checked: what a copy holds, and the finalised result, are functions of the *set* of signers     *)
(* that contributed -- never of the order of signing or combining; a copy can be finalised iff      *)
(* at least M signers contributed; signatures never disappear.                                      *)
EXTENDS Naturals, FiniteSets, Sequences, TLC
CONSTANTS N, M, Copies
Signers == 1..N
VARIABLES held, contrib, final
\* held[c]: signatures in copy c; contrib[c]: signers whose Sign action fed (directly or via combine) into c; final[c]: {} or the chosen set
vars == <<held, contrib, final>>
Init == held = [c \in Copies |-> {}] /\ contrib = [c \in Copies |-> {}] /\ final = [c \in Copies |-> {}]
Sign(c, s) == /\ final[c] = {} /\ held' = [held EXCEPT ![c] = @ \cup {s}] /\ contrib' = [contrib EXCEPT ![c] = @ \cup {s}] /\ UNCHANGED final
Combine(a, b) == /\ a # b /\ final[a] = {} /\ final[b] = {}
                 /\ held' = [held EXCEPT ![a] = @ \cup held[b]] /\ contrib' = [contrib EXCEPT ![a] = @ \cup contrib[b]] /\ UNCHANGED final
FirstM(S) == {s \in S : Cardinality({t \in S : t < s}) < M}          \* the M smallest (script-key order)
Finalize(c) == /\ final[c] = {} /\ Cardinality(held[c]) >= M /\ final' = [final EXCEPT ![c] = FirstM(held[c])] /\ UNCHANGED <<held, contrib>>
Next == \E c \in Copies : (\E s \in Signers : Sign(c, s)) \/ (\E b \in Copies : Combine(c, b)) \/ Finalize(c)
Spec == Init /\ [][Next]_vars
Confluence == \A c \in Copies : held[c] = contrib[c]
FinalIsFunctionOfSet == \A c \in Copies : final[c] # {} => (final[c] = FirstM(contrib[c]) /\ Cardinality(final[c]) = M)
ExactlyWhenEnough == \A c \in Copies : (ENABLED Finalize(c)) <=> (final[c] = {} /\ Cardinality(contrib[c]) >= M)
Monotone == [][\A c \in Copies : held[c] \subseteq held'[c]]_vars
SameSetSameResult == \A a, b \in Copies : (contrib[a] = contrib[b] /\ final[a] # {} /\ final[b] # {}) => final[a] = final[b]
====================================================================================
