---------------------------------- MODULE CreateCases ---------------------------------
(* Binding for Create.tla: requests concretised to real wallets (HD keys, previous        *)
(* transactions, P2SH scripts and addresses) are run through create_multisig_psbt and,     *)
(* when a PSBT comes back, through describe_basic_multisig; the harness logs the abstract   *)
(* request (which key of which cosigner sits where is known by construction) next to what   *)
(* the library did, and TLC decides every case with the model's own predicates.             *)
EXTENDS CreateCore, CaseIO
KeySet(l) == {<<l[k][1], l[k][2]>> : k \in 1..Len(l)}
PathFn(l) == [c \in {l[k][1] : k \in 1..Len(l)} |-> (CHOOSE k \in 1..Len(l) : l[k][1] = c) ]
Paths(l) == LET ix == PathFn(l) IN [c \in DOMAIN ix |-> l[ix[c]][2]]
ToIn(j) == [hash_ok |-> j.hash_ok, sats_ok |-> j.sats_ok, m_claim |-> j.m_claim, paths |-> Paths(j.paths), utxo |-> Script(j.utxo.m, KeySet(j.utxo.keys))]
ToOut(j) == [claims_change |-> j.claims_change, m_claim |-> j.m_claim, paths |-> Paths(j.paths), addr |-> Script(j.addr.m, KeySet(j.addr.keys))]
ToReq(c) == [records |-> {c.records[k] : k \in 1..Len(c.records)}, wrongrec |-> c.wrongrec,
             ins |-> [k \in 1..Len(c.ins) |-> ToIn(c.ins[k])], outs |-> [k \in 1..Len(c.outs) |-> ToOut(c.outs[k])], fee_ok |-> c.fee_ok]
FirstFalse(r) ==
  IF \E i \in 1..Len(r.ins) : ~Covered(r, r.ins[i].paths) THEN "input-path-without-record"
  ELSE IF \E i \in 1..Len(r.ins) : ~r.ins[i].hash_ok THEN "input-hash"
  ELSE IF \E i \in 1..Len(r.ins) : ~r.ins[i].sats_ok THEN "input-amount"
  ELSE IF \E i \in 1..Len(r.ins) : ~InputOK(r, i) THEN "input-script"
  ELSE IF \E k \in 1..Len(r.outs) : ~OutputOK(r, k) THEN "change-claim"
  ELSE "fee"
Sum(xs) == LET RECURSIVE S(_) S(i) == IF i = 0 THEN 0 ELSE xs[i] + S(i - 1) IN S(Len(xs))
Why(c) ==
  LET r == ToReq(c)
      want == [k \in 1..Len(r.outs) |-> r.outs[k].claims_change /\ RealChange(r.outs[k].addr)] IN
  IF c.result = "psbt" /\ ~Consistent(r) THEN "builds-psbt-from-false-claim:" \o FirstFalse(r)
  ELSE IF c.result # "psbt" /\ Consistent(r) THEN "rejects-consistent-request"
  ELSE IF c.result # "psbt" THEN ""
  ELSE IF c.summarised /\ (\E k \in 1..Len(r.outs) : c.is_change[k] /\ ~want[k]) THEN "labels-change-that-is-not-real-change"
  ELSE IF c.honest /\ ~c.summarised THEN "honest-psbt-not-summarised"
  ELSE IF c.honest /\ c.is_change # want THEN "honest-change-not-recognised"
  ELSE IF c.summarised /\ c.total_in # Sum(c.in_sats) THEN "total-input-differs"
  ELSE IF c.summarised /\ c.fee + Sum(c.out_sats) # Sum(c.in_sats) THEN "fee-is-not-inputs-minus-outputs"
  ELSE IF c.summarised /\ c.spend + c.change + c.fee # Sum(c.in_sats) THEN "spend-plus-change-plus-fee-is-not-inputs"
  ELSE ""
VARIABLES i, bad
Init == i = 1 /\ bad = <<>>
Next == /\ i <= NCases /\ i' = i + 1
        /\ bad' = LET w == Why(Cases[i]) IN IF w = "" THEN bad ELSE Append(bad, [id |-> Cases[i].id, why |-> w])
Fin == (i = NCases + 1) => JsonSerialize(IOEnv.OUT, bad)
=======================================================================================
