---------------------------------- MODULE BIP32Toy ----------------------------------
(* BIP32 derivation over a toy prime-order curve with a toy HMAC-SHA512 (C08, bindings C/A). *)
(* The wallet tree is explored as a state machine that derives, in lockstep, the private      *)
(* chain (k, c) and -- as long as no hardened step was taken -- the public chain (K, c) from   *)
(* the neutered root; TLC checks in every state that neutering the private node gives the      *)
(* public node (public/private consistency) and that metadata (depth, child number) follows    *)
(* the path.  The complete child tables are exported and replayed through HDPrivateKey /       *)
(* HDPublicKey running on the toy group (module constants and hmac_sha512 rebound).            *)
EXTENDS Curve, Json, IOUtils, SequencesExt

CONSTANTS NN, GX, GY
G == <<GX, GY>>
GTab == [k \in 0..(NN - 1) |-> Mul(k, G)]
\* an index is [h |-> hardened?, v |-> value below 2^31]
Ser32(i) == <<(IF i.h THEN 128 ELSE 0) + (i.v \div 16777216), (i.v \div 65536) % 256, (i.v \div 256) % 256, i.v % 256>>
BE32(v) == [j \in 1..32 |-> IF j = 31 THEN (v \div 256) % 256 ELSE IF j = 32 THEN v % 256 ELSE 0]
BE33(v) == <<0>> \o BE32(v)
Sec(p) == <<2 + (p[2] % 2)>> \o BE32(p[1])
RECURSIVE WSum(_, _, _)
WSum(b, i, acc) == IF i > Len(b) THEN acc ELSE WSum(b, i + 1, (acc + i * b[i]) % 65521)
\* toy HMAC-SHA512: 64 bytes, I_L and I_R both toy-size integers
ToyHmacL(key, data) == (41 * WSum(key \o data, 1, 0) + 3) % 65521
ToyHmacR(key, data) == (43 * WSum(data \o key, 1, 0) + 5) % 65521
\* private child: [ok, k, c]; ok = FALSE when the derived secret is 0 (the library raises)
CKDpriv(gt, k, c, i) ==
  LET data == IF i.h THEN BE33(k) \o Ser32(i) ELSE Sec(gt[k]) \o Ser32(i)
      kk == (ToyHmacL(BE32(c), data) + k) % NN IN
  [ok |-> kk # 0, k |-> kk, c |-> ToyHmacR(BE32(c), data)]
\* public child (non-hardened only): [ok, K, c]
CKDpub(gt, K, c, i) ==
  LET data == Sec(K) \o Ser32(i)
      KK == Add(gt[ToyHmacL(BE32(c), data) % NN], K) IN
  [ok |-> ~IsInf(KK), K |-> KK, c |-> ToyHmacR(BE32(c), data)]
Indexes == {[h |-> FALSE, v |-> 0], [h |-> FALSE, v |-> 1], [h |-> FALSE, v |-> 2147483647], [h |-> TRUE, v |-> 0], [h |-> TRUE, v |-> 1], [h |-> TRUE, v |-> 2147483647]}

\* ---- the derivation machine -------------------------------------------------------------------
VARIABLES k, c, pubK, pubC, pubLive, depth, path
vars == <<k, c, pubK, pubC, pubLive, depth, path>>
MaxDepth == atoi(IOEnv.MAXDEPTH)
Init == k \in 1..(NN - 1) /\ c \in {7, 300} /\ pubK = GTab[k] /\ pubC = c /\ pubLive = TRUE /\ depth = 0 /\ path = <<>>
Child(i) == /\ depth < MaxDepth
            /\ LET r == CKDpriv(GTab, k, c, i) IN
               /\ r.ok
               /\ k' = r.k /\ c' = r.c
               /\ IF pubLive /\ ~i.h
                  THEN LET p == CKDpub(GTab, pubK, pubC, i) IN p.ok /\ pubK' = p.K /\ pubC' = p.c /\ pubLive' = TRUE
                  ELSE pubLive' = FALSE /\ UNCHANGED <<pubK, pubC>>
            /\ depth' = depth + 1 /\ path' = Append(path, i)
Next == \E i \in Indexes : Child(i)
Spec == Init /\ [][Next]_vars
\* neutering the privately derived node gives the publicly derived node
PubPrivConsistent == pubLive => (pubK = GTab[k] /\ pubC = c)
DepthIsPathLength == depth = Len(path)

\* ---- tables -------------------------------------------------------------------------------------
PrivRows == {[k |-> kk, c |-> cc, i |-> i, r |-> CKDpriv(GTab, kk, cc, i)] : kk \in 1..(NN - 1), cc \in {7, 300, 65000}, i \in Indexes}
PubRows == {[K |-> GTab[kk], c |-> cc, i |-> i, r |-> CKDpub(GTab, GTab[kk], cc, i)] : kk \in 1..(NN - 1), cc \in {7, 300, 65000}, i \in {j \in Indexes : ~j.h}}
ASSUME OnCurve(G) /\ Order(G) = NN
ASSUME IOEnv.EXPORT = "1" => JsonSerialize(IOEnv.OUT, [n |-> NN, g |-> G, priv |-> SetToSeq(PrivRows), pub |-> SetToSeq(PubRows)])
====================================================================================
