--------------------------------- MODULE BIP32Cases ---------------------------------
(* Binding B for C08 on secp256k1: recorded derivation steps, serialisations and path       *)
(* traversals decided by TLC: HMAC-SHA512 input layout (00||k||i vs SEC||i, big-endian        *)
(* index, hardened threshold) through certified rows, k' = (I_L + k) mod n with a             *)
(* certificate, chain code = I_R, fingerprint = hash160(SEC)[:4], depth / child number,        *)
(* the 78-byte layout and Base58Check, path text -> index list, and the consistency of the     *)
(* privately and publicly derived child keys.                                                  *)
EXTENDS Addr, CaseIO

NOrd == <<65, 65, 54, 208, 140, 94, 210, 191, 59, 160, 72, 175, 230, 220, 174, 186, 254, 255, 255, 255, 255, 255, 255, 255,
          255, 255, 255, 255, 255, 255, 255, 255>>
Dec(x, d) == IF Lt(Strip(d.r), NOrd) /\ Eq(x, Add(Mul(d.q, NOrd), d.r)) THEN Strip(d.r) ELSE <<-1>>
BE32(x) == ToBE(x, 32)
Hm(c, key, msg) == HashIn(HRows(c.hr), "hmac512", key \o <<-3>> \o msg)
Hardened(idx4) == idx4[1] >= 128                    \* idx4: the index as 4 big-endian bytes
WhyChild(c) ==        \* one private derivation step (and the public one when not hardened)
  LET data == IF Hardened(c.idx4) THEN <<0>> \o BE32(c.k) \o c.idx4 ELSE c.sec \o c.idx4
      I == Hm(c, c.chain, data) IN
  IF I = NoHash THEN "hmac-input-layout"
  ELSE LET kk == Dec(Add(FromBE(Take(I, 32)), c.k), c.dk) IN
    IF kk = <<-1>> THEN "bad-certificate"
    ELSE IF c.res # "ok" THEN "child-raises"
    ELSE IF ~Eq(c.child_k, kk) THEN "child-secret"
    ELSE IF c.child_chain # Drop(I, 32) THEN "child-chain-code"
    ELSE IF c.child_depth # c.depth + 1 THEN "child-depth"
    ELSE IF c.child_number4 # c.idx4 THEN "child-number"
    ELSE IF c.child_fp # Take(HashIn(HRows(c.hr), "hash160", c.sec), 4) THEN "parent-fingerprint"
    ELSE IF Hardened(c.idx4) THEN (IF c.pub_res = "ok" THEN "public-derivation-of-hardened-child-not-refused" ELSE "")
    ELSE IF c.pub_res # "ok" THEN "public-child-raises"
    ELSE IF c.pub_child_sec # c.child_sec THEN "public-and-private-child-differ"
    ELSE IF c.pub_child_chain # Drop(I, 32) \/ c.pub_child_depth # c.depth + 1 \/ c.pub_child_number4 # c.idx4 \/ c.pub_child_fp # c.child_fp THEN "public-child-metadata"
    ELSE ""
WhyMaster(c) == LET I == HashIn(HRows(c.hr), "hmac512", <<66, 105, 116, 99, 111, 105, 110, 32, 115, 101, 101, 100>> \o <<-3>> \o c.seed) IN
  IF I = NoHash THEN "master-hmac-layout" ELSE IF ~Eq(c.k, FromBE(Take(I, 32))) \/ c.chain # Drop(I, 32) THEN "master-key"
  ELSE IF c.depth # 0 \/ c.fp # Zeros(4) \/ c.number4 # Zeros(4) THEN "master-metadata" ELSE ""
\* 78-byte serialisation + Base58Check, and parse back
Raw78(c) == c.version \o <<c.depth>> \o c.fp \o c.number4 \o c.chain \o (IF c.private THEN <<0>> \o BE32(c.k) ELSE c.sec)
WhyXkey(c) == IF c.text # Base58Check(HRows(c.hr), Raw78(c)) THEN "xkey-serialisation"
              ELSE IF ~c.back_ok THEN "xkey-parse-fails"
              ELSE IF c.back_text # c.text THEN "xkey-parse-serialise-not-identity"
              ELSE IF c.back_mainnet # c.mainnet THEN "xkey-network" ELSE ""
\* path text -> indexes (4 big-endian bytes each); <<-1>> for a malformed path
IsDigit(ch) == ch >= 48 /\ ch <= 57
RECURSIVE SplitSlash(_, _, _, _)
SplitSlash(t, i, cur, acc) == IF i > Len(t) THEN Append(acc, cur) ELSE IF t[i] = 47 THEN SplitSlash(t, i + 1, <<>>, Append(acc, cur)) ELSE SplitSlash(t, i + 1, Append(cur, t[i]), acc)
RECURSIVE DigitsBN(_, _, _)
DigitsBN(d, i, acc) == IF i > Len(d) THEN acc ELSE DigitsBN(d, i + 1, Add(MulSmall(acc, 10), FromInt(d[i] - 48)))
CompIndex(comp) ==
  LET hard == comp # <<>> /\ comp[Len(comp)] \in {39, 104, 72}
      digs == IF hard THEN SubSeq(comp, 1, Len(comp) - 1) ELSE comp IN
  IF digs = <<>> \/ \E j \in 1..Len(digs) : ~IsDigit(digs[j]) THEN <<-1>>
  ELSE LET v == DigitsBN(digs, 1, <<>>) IN
       IF ~Lt(v, <<0, 0, 0, 128>>) THEN <<-1>> ELSE LET b == ToBE(v, 4) IN IF hard THEN <<b[1] + 128, b[2], b[3], b[4]>> ELSE b
PathIndexes(text) == LET parts == SplitSlash(text, 1, <<>>, <<>>) IN
  IF parts[1] \notin {<<109>>, <<77>>} THEN <<<<-1>>>> ELSE [j \in 1..(Len(parts) - 1) |-> CompIndex(parts[j + 1])]
WhyPath(c) == LET idx == PathIndexes(c.path) IN
  IF \E j \in 1..Len(idx) : idx[j] = <<-1>> THEN ""      \* not a path of the property's quantifier (lenient parsing of e.g. "m/ 1" or "m/2147483648" is not excluded by it): no verdict
  ELSE IF c.res # "ok" THEN "rejects-valid-path"
  ELSE IF c.stepwise_text # c.text THEN "traverse-differs-from-stepwise-derivation"
  ELSE IF c.indexes # idx THEN "path-indexes" ELSE ""
Why(c) == CASE c.kind = "child" -> WhyChild(c) [] c.kind = "master" -> WhyMaster(c) [] c.kind = "xkey" -> WhyXkey(c) [] c.kind = "path" -> WhyPath(c)
            [] c.kind = "eq" -> (IF c.a = c.b THEN "" ELSE c.what)
VARIABLES i, bad
Init == i = 1 /\ bad = <<>>
Next == /\ i <= NCases /\ i' = i + 1
        /\ bad' = LET w == Why(Cases[i]) IN IF w = "" THEN bad ELSE Append(bad, [id |-> Cases[i].id, why |-> w])
Fin == (i = NCases + 1) => JsonSerialize(IOEnv.OUT, bad)
====================================================================================
