---------------------------------- MODULE CaseIO ----------------------------------
(* Batch validation of recorded implementation calls (binding B, DESIGN.md 2.7).        *)
(* The module that INSTANCEs/EXTENDS this defines Why(c): "" when the specification      *)
(* explains the recorded case c, otherwise the name of the failing clause.               *)
(* One TLC state per case; all verdicts are total; rejected ids are written to $OUT.     *)
EXTENDS Naturals, Sequences, TLC, Json, IOUtils
Input == JsonDeserialize(IOEnv.CASES)
Cases == Input.cases
NCases == Len(Cases)
====================================================================================
