--------------------------------- MODULE ByteSeq ---------------------------------
(* Byte strings as Seq(0..255) and the fixed-width integer codecs used all over the     *)
(* Bitcoin wire formats.  Pure definitions, no state.                                   *)
EXTENDS Naturals, Integers, Sequences, SequencesExt, FiniteSets, TLC

Byte == 0..255
IsBytes(s) == \A i \in 1..Len(s) : s[i] \in Byte

\* concatenation of a sequence of byte strings
RECURSIVE FlatR(_, _, _)
FlatR(ss, i, acc) == IF i > Len(ss) THEN acc ELSE FlatR(ss, i + 1, acc \o ss[i])
Flat(ss) == FlatR(ss, 1, <<>>)

Rev(s) == [i \in 1..Len(s) |-> s[Len(s) + 1 - i]]
Slice(s, a, b) == IF b < a THEN <<>> ELSE [i \in 1..(b - a + 1) |-> s[a + i - 1]]   \* 1-based inclusive
Take(s, n) == Slice(s, 1, n)
Drop(s, n) == Slice(s, n + 1, Len(s))
Zeros(n) == [i \in 1..n |-> 0]
Rep(b, n) == [i \in 1..n |-> b]

\* little-endian / big-endian encoding of a *small* natural (fits TLC's 32-bit ints) in w bytes
RECURSIVE LEr(_, _)
LEr(n, w) == IF w = 0 THEN <<>> ELSE <<n % 256>> \o LEr(n \div 256, w - 1)
LE(n, w) == LEr(n, w)
BE(n, w) == Rev(LEr(n, w))
\* decode (only for values < 2^31)
RECURSIVE LEvalR(_, _)
LEvalR(s, i) == IF i > Len(s) THEN 0 ELSE s[i] + 256 * LEvalR(s, i + 1)
LEval(s) == LEvalR(s, 1)
BEval(s) == LEval(Rev(s))

\* a natural number of any size = little-endian byte string without trailing zeros ("BN")
RECURSIVE StripR(_, _)
StripR(s, n) == IF n = 0 THEN <<>> ELSE IF s[n] # 0 THEN Take(s, n) ELSE StripR(s, n - 1)
Strip(s) == StripR(s, Len(s))                       \* normalise: drop high zero bytes
Pad(s, w) == s \o Zeros(w - Len(s))                  \* BN -> w-byte little endian (Len(s) <= w)
FitsW(s, w) == Len(Strip(s)) <= w

\* lexicographic order on byte strings (as python compares bytes)
RECURSIVE LexLtR(_, _, _)
LexLtR(a, b, i) == IF i > Len(a) THEN i <= Len(b)
                   ELSE IF i > Len(b) THEN FALSE
                   ELSE IF a[i] < b[i] THEN TRUE
                   ELSE IF a[i] > b[i] THEN FALSE
                   ELSE LexLtR(a, b, i + 1)
LexLt(a, b) == LexLtR(a, b, 1)
LexLe(a, b) == a = b \/ LexLt(a, b)

\* insertion sort of a sequence of byte strings in lexicographic order
RECURSIVE InsertLex(_, _)
InsertLex(x, s) == IF s = <<>> THEN <<x>>
                   ELSE IF LexLe(x, Head(s)) THEN <<x>> \o s ELSE <<Head(s)>> \o InsertLex(x, Tail(s))
RECURSIVE SortLexR(_, _, _)
SortLexR(s, i, acc) == IF i > Len(s) THEN acc ELSE SortLexR(s, i + 1, InsertLex(s[i], acc))
SortLex(s) == SortLexR(s, 1, <<>>)

IsPrefixOf(p, s) == Len(p) <= Len(s) /\ Take(s, Len(p)) = p
==================================================================================
