----------------------------------- MODULE Bech32 -----------------------------------
(* The BCH checksum shared by Bech32 (BIP173), Bech32m (BIP350) and bc32, and the 8<->5 bit  *)
(* regrouping.  polymod is a 30-bit LFSR step; values are 5-bit symbols.                      *)
EXTENDS Naturals, Sequences, Bitwise, ByteSeq

GEN == <<996825010, 642813549, 513874426, 1027748829, 705979059>>     \* 0x3b6a57b2 0x26508e6d 0x1ea119fa 0x3d4233dd 0x2a1462b3
Bech32Const == 1
Bech32mConst == 734539939                                              \* 0x2bc830a3
Bc32Const == 1073741823                                                \* 0x3fffffff
Alphabet == <<113, 112, 122, 114, 121, 57, 120, 56, 103, 102, 50, 116, 118, 100, 119, 48, 115, 51, 106, 110, 53, 52, 107, 104, 99, 101, 54, 109, 117, 97, 55, 108>>   \* "qpzry9x8gf2tvdw0s3jn54khce6mua7l"
CharOf(v) == Alphabet[v + 1]
ValOf(c) == IF \E k \in 1..32 : Alphabet[k] = c THEN (CHOOSE k \in 1..32 : Alphabet[k] = c) - 1 ELSE -1

PolyStep(chk, v) ==
  LET b == chk \div 33554432                         \* chk >> 25
      base == ((chk % 33554432) * 32) ^^ v
      x1 == IF b % 2 = 1 THEN base ^^ GEN[1] ELSE base
      x2 == IF (b \div 2) % 2 = 1 THEN x1 ^^ GEN[2] ELSE x1
      x3 == IF (b \div 4) % 2 = 1 THEN x2 ^^ GEN[3] ELSE x2
      x4 == IF (b \div 8) % 2 = 1 THEN x3 ^^ GEN[4] ELSE x3 IN
  IF (b \div 16) % 2 = 1 THEN x4 ^^ GEN[5] ELSE x4
RECURSIVE PolyR(_, _, _)
PolyR(vs, i, chk) == IF i > Len(vs) THEN chk ELSE PolyR(vs, i + 1, PolyStep(chk, vs[i]))
Polymod(vs) == PolyR(vs, 1, 1)
Checksum6(pm) == [i \in 1..6 |-> (pm \div (2 ^ (5 * (6 - i)))) % 32]
CreateChecksum(prefix, data, const) == Checksum6(Polymod(prefix \o data \o <<0, 0, 0, 0, 0, 0>>) ^^ const)
HrpExpand(h) == [i \in 1..Len(h) |-> h[i] \div 32] \o <<0>> \o [i \in 1..Len(h) |-> h[i] % 32]

\* bits, most significant first
ByteBits(b) == [k \in 1..8 |-> (b \div (2 ^ (8 - k))) % 2]
RECURSIVE BitsOfR(_, _, _)
BitsOfR(s, i, acc) == IF i > Len(s) THEN acc ELSE BitsOfR(s, i + 1, acc \o ByteBits(s[i]))
BitsOf(s) == BitsOfR(s, 1, <<>>)
FiveBits(v) == [k \in 1..5 |-> (v \div (2 ^ (5 - k))) % 2]
RECURSIVE Bits5R(_, _, _)
Bits5R(s, i, acc) == IF i > Len(s) THEN acc ELSE Bits5R(s, i + 1, acc \o FiveBits(s[i]))
RECURSIVE ValR(_, _, _, _)
ValR(bits, from, n, acc) == IF n = 0 THEN acc ELSE ValR(bits, from + 1, n - 1, acc * 2 + (IF from <= Len(bits) THEN bits[from] ELSE 0))
\* 8 -> 5 with zero padding of the last group
To5(bytes) == LET bits == BitsOf(bytes)  n == (Len(bits) + 4) \div 5 IN [k \in 1..n |-> ValR(bits, 5 * (k - 1) + 1, 5, 0)]
\* 5 -> 8 strict: leftover bits must be fewer than 5 and zero; <<-1>> otherwise
To8(vals) == LET bits == Bits5R(vals, 1, <<>>)  n == Len(bits) \div 8  rest == Len(bits) % 8 IN
             IF rest >= 5 \/ \E k \in (8 * n + 1)..Len(bits) : bits[k] = 1 THEN <<-1>>
             ELSE [k \in 1..n |-> ValR(bits, 8 * (k - 1) + 1, 8, 0)]
====================================================================================
