-------------------------------- MODULE HashOracle --------------------------------
(* Cryptographic hash functions are uninterpreted (DESIGN.md 2.3).  An oracle is either  *)
(*   HFree        : free constructors -- the digest of x under fn is the term            *)
(*                  <<-2, FnId(fn), Len(x)>> \o x  (injective, never equal to a byte      *)
(*                  string; the length makes nested terms parseable, so the harness can    *)
(*                  evaluate an exported term bottom-up with hashlib), or                  *)
(*   HRows(rows)  : the finite graph recorded from the implementation's own hash calls,  *)
(*                  every row certified against hashlib/hmac by the harness before TLC   *)
(*                  sees it: rows[i] = [fn |-> name, in |-> bytes, out |-> bytes].        *)
(* A digest the specification needs but the implementation never computed has no row:    *)
(* the result is <<-1>>, which equals no byte string, so the case is rejected.           *)
EXTENDS Integers, Sequences

FnId(fn) == CASE fn = "sha256" -> 1 [] fn = "hash256" -> 2 [] fn = "hash160" -> 3 [] fn = "ripemd160" -> 4
              [] fn = "sha1" -> 5 [] fn = "hmac512" -> 6 [] fn = "hmac256" -> 7 [] fn = "sha512" -> 8
              [] fn = "tag:TapSighash" -> 20 [] fn = "tag:TapLeaf" -> 21 [] fn = "tag:TapBranch" -> 22 [] fn = "tag:TapTweak" -> 23
              [] fn = "tag:BIP0340/aux" -> 24 [] fn = "tag:BIP0340/nonce" -> 25 [] fn = "tag:BIP0340/challenge" -> 26
              [] fn = "tag:KeyAgg list" -> 27 [] fn = "tag:KeyAgg coefficient" -> 28 [] fn = "tag:MuSig/noncecoef" -> 29
              [] OTHER -> 99
HFree == [mode |-> "free", rows |-> <<>>]
HRows(rows) == [mode |-> "rows", rows |-> rows]
NoHash == <<-1>>
RECURSIVE HLookR(_, _, _, _)
HLookR(rows, fn, x, i) == IF i > Len(rows) THEN NoHash
                          ELSE IF rows[i].fn = fn /\ rows[i].in = x THEN rows[i].out
                          ELSE HLookR(rows, fn, x, i + 1)
HashIn(o, fn, x) == IF o.mode = "free" THEN <<-2, FnId(fn), Len(x)>> \o x ELSE HLookR(o.rows, fn, x, 1)
\* tagged hashes (BIP340): fn = "tag:<name>"; keyed hashes: input is key \o msg with fn carrying the key length
====================================================================================
