----------------------------------- MODULE BN -----------------------------------
(* Natural numbers of any size as little-endian byte strings (base 256, see ByteSeq).  *)
(* TLC integers are 32 bit; everything here keeps intermediate values below 2^31.       *)
(* Division is never performed on big numbers: modular facts are checked through        *)
(* certificates  a*b + c = q*m + r  /\  r < m  supplied by the recorder.                *)
EXTENDS ByteSeq

BNZero == <<>>
RECURSIVE FromIntR(_)
FromIntR(n) == IF n = 0 THEN <<>> ELSE <<n % 256>> \o FromIntR(n \div 256)
FromInt(n) == FromIntR(n)
ToInt(a) == LEval(a)                                   \* only if < 2^31
Dig(a, i) == IF i <= Len(a) THEN a[i] ELSE 0

\* carry-propagate a sequence of column sums (each < 2^23 or so) into a normalised BN
RECURSIVE CarryR(_, _, _, _)
CarryR(cols, i, c, acc) ==
  IF i > Len(cols)
  THEN IF c = 0 THEN acc ELSE CarryR(cols, i, c \div 256, Append(acc, c % 256))
  ELSE LET t == cols[i] + c IN CarryR(cols, i + 1, t \div 256, Append(acc, t % 256))
Carry(cols) == Strip(CarryR(cols, 1, 0, <<>>))

Max2(x, y) == IF x > y THEN x ELSE y
Add(a, b) == Carry([i \in 1..Max2(Len(a), Len(b)) |-> Dig(a, i) + Dig(b, i)])

RECURSIVE CmpR(_, _, _)
CmpR(a, b, i) == IF i = 0 THEN 0 ELSE IF Dig(a, i) < Dig(b, i) THEN -1 ELSE IF Dig(a, i) > Dig(b, i) THEN 1
                 ELSE CmpR(a, b, i - 1)
Cmp(a, b) == CmpR(a, b, Max2(Len(a), Len(b)))          \* works on non-normalised input too
Lt(a, b) == Cmp(a, b) = -1
Le(a, b) == Cmp(a, b) <= 0
Eq(a, b) == Cmp(a, b) = 0
IsZero(a) == \A i \in 1..Len(a) : a[i] = 0

\* a - b for a >= b
RECURSIVE SubR(_, _, _, _, _)
SubR(a, b, i, br, acc) ==
  IF i > Len(a) THEN acc
  ELSE LET t == Dig(a, i) - Dig(b, i) - br IN
       IF t < 0 THEN SubR(a, b, i + 1, 1, Append(acc, t + 256)) ELSE SubR(a, b, i + 1, 0, Append(acc, t))
Sub(a, b) == Strip(SubR(a, b, 1, 0, <<>>))

\* schoolbook product through column sums: column k = sum_{i+j=k+1} a[i]*b[j]  (< 2^16 * len)
RECURSIVE ColSumR(_, _, _, _, _)
ColSumR(a, b, k, i, acc) ==
  IF i > Len(a) \/ i > k THEN acc
  ELSE LET j == k + 1 - i IN
       ColSumR(a, b, k, i + 1, IF j <= Len(b) THEN acc + a[i] * b[j] ELSE acc)
Mul(a, b) == IF Len(a) = 0 \/ Len(b) = 0 THEN <<>>
             ELSE Carry([k \in 1..(Len(a) + Len(b) - 1) |-> ColSumR(a, b, k, 1, 0)])
MulSmall(a, m) == Carry([i \in 1..Len(a) |-> a[i] * m])      \* m < 2^22

\* (a \div d, a % d) for small d (< 2^22), most significant digit first
RECURSIVE DivSmallR(_, _, _, _, _)
DivSmallR(a, d, i, rem, acc) ==
  IF i = 0 THEN <<Strip(acc), rem>>
  ELSE LET t == rem * 256 + a[i] IN DivSmallR(a, d, i - 1, t % d, <<t \div d>> \o acc)
DivModSmall(a, d) == DivSmallR(a, d, Len(a), 0, <<>>)
ModSmall(a, d) == DivModSmall(a, d)[2]
IsOdd(a) == Dig(a, 1) % 2 = 1

\* certificate checks over the naturals
MulModIs(a, b, m, q, r) == Lt(r, m) /\ Eq(Mul(a, b), Add(Mul(q, m), r))          \* a*b mod m = r
LinModIs(a, b, c, m, q, r) == Lt(r, m) /\ Eq(Add(Mul(a, b), c), Add(Mul(q, m), r)) \* (a*b+c) mod m = r
AddModIs(a, b, m, r) == Lt(r, m) /\ (Eq(Add(a, b), r) \/ Eq(Add(a, b), Add(r, m)))   \* a,b < m
Congruent(a, b, m, q) == \/ Eq(a, Add(b, Mul(q, m)))                              \* a = b + q m
                         \/ Eq(b, Add(a, Mul(q, m)))

\* big-endian fixed width <-> BN
FromBE(s) == Strip(Rev(s))
ToBE(a, w) == Rev(Pad(Strip(a), w))
==================================================================================
