---------------------------------- MODULE TxWire ----------------------------------
(* Bitcoin wire format of scripts, witnesses and transactions as functions on byte      *)
(* strings (reference: Bitcoin protocol / BIP141 / BIP144).                              *)
(*                                                                                      *)
(* Abstract values:                                                                     *)
(*   command = [op |-> opcode, d |-> <<>>]  or  [op |-> -1, d |-> pushed bytes]          *)
(*             (a zero-length push IS opcode 0 on the wire: it is represented as op 0)   *)
(*   txin    = [txid |-> 32 bytes (display order), idx |-> 4 bytes LE, script |-> cmds,  *)
(*              seq |-> 4 bytes LE, wit |-> sequence of byte strings]                    *)
(*   txout   = [amount |-> 8 bytes LE, script |-> cmds]                                  *)
(*   tx      = [version |-> 4 bytes LE, ins, outs, locktime |-> 4 bytes LE, segwit]      *)
(* Fixed-width integers are carried as their little-endian byte strings (TLC integers   *)
(* are 32 bit); counts and lengths are small integers.                                   *)
EXTENDS ByteSeq

\* ---- compact size ------------------------------------------------------------------
Varint(n) == IF n < 253 THEN <<n>>
             ELSE IF n < 65536 THEN <<253>> \o LE(n, 2)
             ELSE <<254>> \o LE(n % 65536, 2) \o LE(n \div 65536, 2)      \* n < 2^31 here
\* compact size of a natural given as BN (any size up to 2^64-1)
VarintBN(b) == LET s == Strip(b) IN
               IF Len(s) = 0 THEN <<0>>
               ELSE IF Len(s) = 1 /\ s[1] < 253 THEN <<s[1]>>
               ELSE IF Len(s) <= 2 THEN <<253>> \o Pad(s, 2)
               ELSE IF Len(s) <= 4 THEN <<254>> \o Pad(s, 4)
               ELSE <<255>> \o Pad(s, 8)
VarStr(b) == Varint(Len(b)) \o b

\* reading: returns [ok, val (small int), pos (next position)]; canonical-form is not enforced (as in the protocol)
RdFail == [ok |-> FALSE, val |-> 0, pos |-> 0]
ReadVarint(s, p) ==
  IF p > Len(s) THEN RdFail
  ELSE LET b == s[p] IN
    IF b < 253 THEN [ok |-> TRUE, val |-> b, pos |-> p + 1]
    ELSE IF b = 253 THEN (IF p + 2 > Len(s) THEN RdFail ELSE [ok |-> TRUE, val |-> LEval(Slice(s, p + 1, p + 2)), pos |-> p + 3])
    ELSE IF b = 254 THEN (IF p + 4 > Len(s) \/ s[p + 4] >= 128 THEN RdFail
                          ELSE [ok |-> TRUE, val |-> LEval(Slice(s, p + 1, p + 4)), pos |-> p + 5])
    ELSE RdFail       \* 8-byte counts cannot be followed by that much data in any case we handle

\* ---- scripts --------------------------------------------------------------------------
PushCmd(d) == IF d = <<>> THEN [op |-> 0, d |-> <<>>] ELSE [op |-> -1, d |-> d]
SerCmd(c) == IF c.op # -1 THEN <<c.op>>
             ELSE LET n == Len(c.d) IN
                  IF n <= 75 THEN <<n>> \o c.d
                  ELSE IF n <= 255 THEN <<76, n>> \o c.d
                  ELSE <<77>> \o LE(n, 2) \o c.d            \* n <= 520 in scope; PUSHDATA2 up to 65535
RECURSIVE SerCmdsR(_, _, _)
SerCmdsR(cs, i, acc) == IF i > Len(cs) THEN acc ELSE SerCmdsR(cs, i + 1, acc \o SerCmd(cs[i]))
SerScriptRaw(cs) == SerCmdsR(cs, 1, <<>>)
SerScript(cs) == VarStr(SerScriptRaw(cs))

\* parse raw script bytes into commands (as the protocol reads pushes); truncated pushes => not canonical => ok = FALSE
RECURSIVE ParseCmdsR(_, _, _)
ParseCmdsR(r, p, acc) ==
  IF p > Len(r) THEN [ok |-> TRUE, cmds |-> acc]
  ELSE LET b == r[p] IN
    IF b >= 1 /\ b <= 75 THEN
       (IF p + b > Len(r) THEN [ok |-> FALSE, cmds |-> acc]
        ELSE ParseCmdsR(r, p + 1 + b, Append(acc, [op |-> -1, d |-> Slice(r, p + 1, p + b)])))
    ELSE IF b = 76 THEN
       (IF p + 1 > Len(r) \/ p + 1 + r[p + 1] > Len(r) THEN [ok |-> FALSE, cmds |-> acc]
        ELSE ParseCmdsR(r, p + 2 + r[p + 1], Append(acc, [op |-> -1, d |-> Slice(r, p + 2, p + 1 + r[p + 1])])))
    ELSE IF b = 77 THEN
       (IF p + 2 > Len(r) THEN [ok |-> FALSE, cmds |-> acc]
        ELSE LET n == r[p + 1] + 256 * r[p + 2] IN
             IF p + 2 + n > Len(r) THEN [ok |-> FALSE, cmds |-> acc]
             ELSE ParseCmdsR(r, p + 3 + n, Append(acc, [op |-> -1, d |-> Slice(r, p + 3, p + 2 + n)])))
    ELSE IF b = 78 THEN [ok |-> FALSE, cmds |-> acc]       \* PUSHDATA4 is never minimal below 2^16: out of the canonical domain
    ELSE ParseCmdsR(r, p + 1, Append(acc, [op |-> b, d |-> <<>>]))
ParseScriptRaw(r) == ParseCmdsR(r, 1, <<>>)
\* minimal push encoding (what the property calls canonical)
CanonicalCmd(c) == c.op # -1 \/ (Len(c.d) >= 1 /\ Len(c.d) <= 520)

\* ---- witness ---------------------------------------------------------------------------
RECURSIVE SerItemsR(_, _, _)
SerItemsR(w, i, acc) == IF i > Len(w) THEN acc ELSE SerItemsR(w, i + 1, acc \o VarStr(w[i]))
SerWitness(w) == Varint(Len(w)) \o SerItemsR(w, 1, <<>>)

\* ---- transaction -----------------------------------------------------------------------
SerOutpoint(i) == Rev(i.txid) \o i.idx
SerTxIn(i) == SerOutpoint(i) \o SerScript(i.script) \o i.seq
SerTxOut(o) == o.amount \o SerScript(o.script)
RECURSIVE SerInsR(_, _, _)
SerInsR(ins, i, acc) == IF i > Len(ins) THEN acc ELSE SerInsR(ins, i + 1, acc \o SerTxIn(ins[i]))
RECURSIVE SerOutsR(_, _, _)
SerOutsR(outs, i, acc) == IF i > Len(outs) THEN acc ELSE SerOutsR(outs, i + 1, acc \o SerTxOut(outs[i]))
RECURSIVE SerWitsR(_, _, _)
SerWitsR(ins, i, acc) == IF i > Len(ins) THEN acc ELSE SerWitsR(ins, i + 1, acc \o SerWitness(ins[i].wit))
SerIns(ins) == SerInsR(ins, 1, <<>>)
SerOuts(outs) == SerOutsR(outs, 1, <<>>)
SerLegacy(tx) == tx.version \o Varint(Len(tx.ins)) \o SerIns(tx.ins) \o Varint(Len(tx.outs)) \o SerOuts(tx.outs) \o tx.locktime
SerSegwit(tx) == tx.version \o <<0, 1>> \o Varint(Len(tx.ins)) \o SerIns(tx.ins) \o Varint(Len(tx.outs)) \o SerOuts(tx.outs)
                 \o SerWitsR(tx.ins, 1, <<>>) \o tx.locktime
SerTx(tx) == IF tx.segwit THEN SerSegwit(tx) ELSE SerLegacy(tx)

\* ---- parsing (cursor based).  Result: [ok, tx, pos] -------------------------------------
PFail == [ok |-> FALSE]
ParseScriptAt(s, p) ==       \* varstr + script parse
  LET l == ReadVarint(s, p) IN
  IF ~l.ok \/ l.pos + l.val - 1 > Len(s) THEN [ok |-> FALSE, cmds |-> <<>>, pos |-> 0]
  ELSE LET r == ParseScriptRaw(Slice(s, l.pos, l.pos + l.val - 1)) IN
       [ok |-> r.ok, cmds |-> r.cmds, pos |-> l.pos + l.val]
ParseTxInAt(s, p) ==
  IF p + 35 > Len(s) THEN [ok |-> FALSE, v |-> <<>>, pos |-> 0]
  ELSE LET sc == ParseScriptAt(s, p + 36) IN
       IF ~sc.ok \/ sc.pos + 3 > Len(s) THEN [ok |-> FALSE, v |-> <<>>, pos |-> 0]
       ELSE [ok |-> TRUE, pos |-> sc.pos + 4,
             v |-> [txid |-> Rev(Slice(s, p, p + 31)), idx |-> Slice(s, p + 32, p + 35), script |-> sc.cmds,
                    seq |-> Slice(s, sc.pos, sc.pos + 3), wit |-> <<>>]]
ParseTxOutAt(s, p) ==
  IF p + 7 > Len(s) THEN [ok |-> FALSE, v |-> <<>>, pos |-> 0]
  ELSE LET sc == ParseScriptAt(s, p + 8) IN
       IF ~sc.ok THEN [ok |-> FALSE, v |-> <<>>, pos |-> 0]
       ELSE [ok |-> TRUE, pos |-> sc.pos, v |-> [amount |-> Slice(s, p, p + 7), script |-> sc.cmds]]
RECURSIVE ParseManyIns(_, _, _, _)
ParseManyIns(s, p, n, acc) == IF n = 0 THEN [ok |-> TRUE, v |-> acc, pos |-> p]
   ELSE LET r == ParseTxInAt(s, p) IN IF ~r.ok THEN [ok |-> FALSE, v |-> acc, pos |-> 0] ELSE ParseManyIns(s, r.pos, n - 1, Append(acc, r.v))
RECURSIVE ParseManyOuts(_, _, _, _)
ParseManyOuts(s, p, n, acc) == IF n = 0 THEN [ok |-> TRUE, v |-> acc, pos |-> p]
   ELSE LET r == ParseTxOutAt(s, p) IN IF ~r.ok THEN [ok |-> FALSE, v |-> acc, pos |-> 0] ELSE ParseManyOuts(s, r.pos, n - 1, Append(acc, r.v))
RECURSIVE ParseItems(_, _, _, _)
ParseItems(s, p, n, acc) == IF n = 0 THEN [ok |-> TRUE, v |-> acc, pos |-> p]
   ELSE LET l == ReadVarint(s, p) IN
        IF ~l.ok \/ l.pos + l.val - 1 > Len(s) THEN [ok |-> FALSE, v |-> acc, pos |-> 0]
        ELSE ParseItems(s, l.pos + l.val, n - 1, Append(acc, Slice(s, l.pos, l.pos + l.val - 1)))
RECURSIVE ParseWits(_, _, _, _)
ParseWits(s, p, ins, k) == IF k > Len(ins) THEN [ok |-> TRUE, v |-> ins, pos |-> p]
   ELSE LET c == ReadVarint(s, p) IN
        IF ~c.ok THEN [ok |-> FALSE, v |-> ins, pos |-> 0]
        ELSE LET it == ParseItems(s, c.pos, c.val, <<>>) IN
             IF ~it.ok THEN [ok |-> FALSE, v |-> ins, pos |-> 0]
             ELSE ParseWits(s, it.pos, [ins EXCEPT ![k].wit = it.v], k + 1)
\* format detection as BIP144: byte 5 = 0x00 (marker) means segwit serialisation
ParseTx(s) ==
  IF Len(s) < 10 THEN PFail
  ELSE LET seg == s[5] = 0   start == IF seg THEN 7 ELSE 5 IN
    IF seg /\ s[6] # 1 THEN PFail
    ELSE LET nin == ReadVarint(s, start) IN
      IF ~nin.ok THEN PFail
      ELSE LET ins == ParseManyIns(s, nin.pos, nin.val, <<>>) IN
        IF ~ins.ok THEN PFail
        ELSE LET nout == ReadVarint(s, ins.pos) IN
          IF ~nout.ok THEN PFail
          ELSE LET outs == ParseManyOuts(s, nout.pos, nout.val, <<>>) IN
            IF ~outs.ok THEN PFail
            ELSE LET w == IF seg THEN ParseWits(s, outs.pos, ins.v, 1) ELSE [ok |-> TRUE, v |-> ins.v, pos |-> outs.pos] IN
              IF ~w.ok \/ w.pos + 3 > Len(s) THEN PFail
              ELSE [ok |-> TRUE, rest |-> Len(s) - (w.pos + 3),
                    tx |-> [version |-> Slice(s, 1, 4), ins |-> w.v, outs |-> outs.v,
                            locktime |-> Slice(s, w.pos, w.pos + 3), segwit |-> seg]]
====================================================================================
