SPECIFICATION Spec
CONSTANTS
  Policy = "recompute"
  MaxV = 2
PROPERTY Fresh
CONSTRAINT Depth
