--------------------------------- MODULE C05Cases ---------------------------------
(* Binding for C05: for every digest query recorded from a real Tx object (after any      *)
(* history of earlier queries and edits) TLC evaluates the specified digest of the         *)
(* *current* transaction snapshot as a term over free-constructor hashes and exports it;   *)
(* the harness evaluates the term bottom-up with hashlib and compares it with the digest   *)
(* the library returned.  A stale midstate, a missing zero hash, a wrong count or a wrong   *)
(* field order all give a different term.                                                   *)
EXTENDS SigHash, CaseIO

LeafHash(c) == HashIn(HFree, "tag:TapLeaf", <<c.leafver>> \o VarStr(c.leafscript))
Expected(c) ==
  LET idx == c.idx + 1 IN
  CASE c.alg = "legacy" -> [ok |-> TRUE, term |-> LegacyDigest(HFree, c.tx, idx, c.sc, c.ht)]
    [] c.alg = "bip143" -> IF idx > Len(c.tx.ins) THEN [ok |-> FALSE, term |-> <<>>]
                           ELSE [ok |-> TRUE, term |-> Bip143Digest(HFree, c.tx, idx,
                                         ScriptCode143(c.kind, c.spent[idx].script, c.redeem, c.wscript),
                                         c.spent[idx].amount, c.ht)]
    [] c.alg = "bip341" -> IF idx > Len(c.tx.ins) \/ ~Bip341Valid(c.tx, idx, c.ht) THEN [ok |-> FALSE, term |-> <<>>]
                           ELSE [ok |-> TRUE, term |-> Bip341Digest(HFree, c.tx, idx, c.spent, c.ht, c.ext,
                                                                    IF c.ext = 1 THEN LeafHash(c) ELSE <<>>)]
VARIABLES i, out
Init == i = 1 /\ out = <<>>
Next == /\ i <= NCases /\ i' = i + 1
        /\ out' = LET e == Expected(Cases[i]) IN Append(out, [id |-> Cases[i].id, why |-> [ok |-> e.ok, term |-> e.term]])
Fin == (i = NCases + 1) => JsonSerialize(IOEnv.OUT, out)
====================================================================================
