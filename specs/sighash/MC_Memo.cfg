SPECIFICATION Spec
CONSTANTS
  Policy = "memo"
  MaxV = 2
PROPERTY Fresh
CONSTRAINT Depth
