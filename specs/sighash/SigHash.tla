---------------------------------- MODULE SigHash ----------------------------------
(* Signature-hash algorithms as functions from (transaction, input, spent outputs, hash   *)
(* type, ...) to a digest *term* over uninterpreted hashes (DESIGN.md A.2):                *)
(*   Legacy  - the original Satoshi algorithm (incl. the SIGHASH_SINGLE "one" digest)      *)
(*   Bip143  - segwit v0                                                                   *)
(*   Bip341  - taproot key path / script path (BIP341 + the BIP342 extension)              *)
(* idx is 1-based here.  ht is the hash-type byte as a small integer.                      *)
EXTENDS TxWire, HashOracle

Base(ht) == ht % 32                  \* ht & 0x1f
ACP(ht) == ht >= 128                 \* ht & 0x80
SNone == 2
SSingle == 3
One == <<1>> \o Zeros(31)            \* uint256 "1" as the 32 digest bytes the verifier sees (integer 1 << 248)
BlankOut == Rep(255, 8) \o <<0>>

\* ---- legacy -------------------------------------------------------------------------------
LegacyIn(tx, j, idx, sc, ht) ==
  LET i == tx.ins[j] IN
  SerOutpoint(i) \o (IF j = idx THEN SerScript(sc) ELSE <<0>>)
                 \o (IF j # idx /\ Base(ht) \in {SNone, SSingle} THEN Zeros(4) ELSE i.seq)
RECURSIVE LegacyInsR(_, _, _, _, _, _)
LegacyInsR(tx, j, idx, sc, ht, acc) == IF j > Len(tx.ins) THEN acc
   ELSE LegacyInsR(tx, j + 1, idx, sc, ht, acc \o LegacyIn(tx, j, idx, sc, ht))
RECURSIVE BlanksR(_, _)
BlanksR(n, acc) == IF n = 0 THEN acc ELSE BlanksR(n - 1, acc \o BlankOut)
LegacyPreimage(tx, idx, sc, ht) ==
  tx.version
  \o (IF ACP(ht) THEN <<1>> \o LegacyIn(tx, idx, idx, sc, ht)
      ELSE Varint(Len(tx.ins)) \o LegacyInsR(tx, 1, idx, sc, ht, <<>>))
  \o (IF Base(ht) = SNone THEN <<0>>
      ELSE IF Base(ht) = SSingle THEN Varint(idx) \o BlanksR(idx - 1, <<>>) \o SerTxOut(tx.outs[idx])
      ELSE Varint(Len(tx.outs)) \o SerOuts(tx.outs))
  \o tx.locktime \o LE(ht, 4)
LegacyDigest(ho, tx, idx, sc, ht) ==
  IF idx > Len(tx.ins) \/ (Base(ht) = SSingle /\ idx > Len(tx.outs)) THEN One
  ELSE HashIn(ho, "hash256", LegacyPreimage(tx, idx, sc, ht))

\* ---- BIP143 -------------------------------------------------------------------------------
RECURSIVE CatOutpoints(_, _, _)
CatOutpoints(ins, j, acc) == IF j > Len(ins) THEN acc ELSE CatOutpoints(ins, j + 1, acc \o SerOutpoint(ins[j]))
RECURSIVE CatSeqs(_, _, _)
CatSeqs(ins, j, acc) == IF j > Len(ins) THEN acc ELSE CatSeqs(ins, j + 1, acc \o ins[j].seq)
Zero32 == Zeros(32)
HashPrevouts(ho, tx, ht) == IF ACP(ht) THEN Zero32 ELSE HashIn(ho, "hash256", CatOutpoints(tx.ins, 1, <<>>))
HashSequence(ho, tx, ht) == IF ACP(ht) \/ Base(ht) \in {SNone, SSingle} THEN Zero32
                            ELSE HashIn(ho, "hash256", CatSeqs(tx.ins, 1, <<>>))
HashOutputs(ho, tx, idx, ht) ==
  IF Base(ht) \notin {SNone, SSingle} THEN HashIn(ho, "hash256", SerOuts(tx.outs))
  ELSE IF Base(ht) = SSingle /\ idx <= Len(tx.outs) THEN HashIn(ho, "hash256", SerTxOut(tx.outs[idx]))
  ELSE Zero32
Bip143Preimage(ho, tx, idx, sc, amount, ht) ==
  tx.version \o HashPrevouts(ho, tx, ht) \o HashSequence(ho, tx, ht) \o SerOutpoint(tx.ins[idx]) \o SerScript(sc)
  \o amount \o tx.ins[idx].seq \o HashOutputs(ho, tx, idx, ht) \o tx.locktime \o LE(ht, 4)
Bip143Digest(ho, tx, idx, sc, amount, ht) == HashIn(ho, "hash256", Bip143Preimage(ho, tx, idx, sc, amount, ht))
\* script code per BIP143 for the standard kinds
P2pkhScript(h160) == << [op |-> 118, d |-> <<>>], [op |-> 169, d |-> <<>>], [op |-> -1, d |-> h160],
                        [op |-> 136, d |-> <<>>], [op |-> 172, d |-> <<>>] >>
ScriptCode143(kind, spk, redeem, wscript) ==
  CASE kind = "p2wpkh" -> P2pkhScript(spk[2].d)
    [] kind = "p2sh-p2wpkh" -> P2pkhScript(redeem[2].d)
    [] kind \in {"p2wsh", "p2sh-p2wsh"} -> wscript

\* ---- BIP341 / BIP342 ------------------------------------------------------------------------
\* spent: sequence of [amount, script] for every input
RECURSIVE CatAmounts(_, _, _)
CatAmounts(sp, j, acc) == IF j > Len(sp) THEN acc ELSE CatAmounts(sp, j + 1, acc \o sp[j].amount)
RECURSIVE CatSpks(_, _, _)
CatSpks(sp, j, acc) == IF j > Len(sp) THEN acc ELSE CatSpks(sp, j + 1, acc \o SerScript(sp[j].script))
AnnexOf(wit) == IF Len(wit) >= 2 /\ Len(wit[Len(wit)]) >= 1 /\ wit[Len(wit)][1] = 80 THEN <<wit[Len(wit)]>> ELSE <<>>
\* ext = 0 key path, 1 script path with leaf hash lh (32 bytes)
Bip341Valid(tx, idx, ht) == ht \in {0, 1, 2, 3, 129, 130, 131} /\ ~(Base(ht) = SSingle /\ idx > Len(tx.outs))
Bip341Message(ho, tx, idx, spent, ht, ext, lh) ==
  LET annex == AnnexOf(tx.ins[idx].wit) IN
  <<0, ht>> \o tx.version \o tx.locktime
  \o (IF ACP(ht) THEN <<>>
      ELSE HashIn(ho, "sha256", CatOutpoints(tx.ins, 1, <<>>)) \o HashIn(ho, "sha256", CatAmounts(spent, 1, <<>>))
           \o HashIn(ho, "sha256", CatSpks(spent, 1, <<>>)) \o HashIn(ho, "sha256", CatSeqs(tx.ins, 1, <<>>)))
  \o (IF Base(ht) \in {SNone, SSingle} THEN <<>> ELSE HashIn(ho, "sha256", SerOuts(tx.outs)))
  \o <<2 * ext + (IF annex = <<>> THEN 0 ELSE 1)>>
  \o (IF ACP(ht) THEN SerOutpoint(tx.ins[idx]) \o spent[idx].amount \o SerScript(spent[idx].script) \o tx.ins[idx].seq
      ELSE LE(idx - 1, 4))
  \o (IF annex = <<>> THEN <<>> ELSE HashIn(ho, "sha256", VarStr(annex[1])))
  \o (IF Base(ht) = SSingle THEN HashIn(ho, "sha256", SerTxOut(tx.outs[idx])) ELSE <<>>)
  \o (IF ext = 1 THEN lh \o <<0, 255, 255, 255, 255>> ELSE <<>>)
Bip341Digest(ho, tx, idx, spent, ht, ext, lh) == HashIn(ho, "tag:TapSighash", Bip341Message(ho, tx, idx, spent, ht, ext, lh))
====================================================================================
