-------------------------------- MODULE SigHashCache --------------------------------
(* The Tx object's signature-hash midstates as a state machine (C05, history clause).     *)
(* The transaction is abstracted to version counters of the four groups of fields the      *)
(* midstates summarise (outpoints, sequences, spent outputs, outputs); a digest is the      *)
(* tuple of group versions it was computed from.  Actions are API edits and digest          *)
(* queries; Query is written like the code: a midstate is filled on first use and, under    *)
(* Policy = "memo", never refreshed (buidl before the repair); "recompute" is the           *)
(* repaired behaviour.  Property: every digest returned equals the digest of the current    *)
(* transaction (Fresh), whatever queries and edits preceded it.                             *)
EXTENDS Naturals, Sequences, TLC

CONSTANTS Policy, MaxV
None == 99
VARIABLES prevV, seqV, spentV, outV,        \* current versions of the field groups
          mHP, mHS, mHO,                     \* BIP143 memo: hash_prevouts, hash_sequence, hash_outputs
          mSP, mSA, mSQ, mSO,                \* BIP341 memo: sha_prevouts, sha_amounts(+spks), sha_sequences, sha_outputs
          last                               \* last digest returned: [alg, acp, base, d] with d the versions used
fields == <<prevV, seqV, spentV, outV>>
memo == <<mHP, mHS, mHO, mSP, mSA, mSQ, mSO>>
vars == <<fields, memo, last>>

Init == /\ prevV = 0 /\ seqV = 0 /\ spentV = 0 /\ outV = 0
        /\ mHP = None /\ mHS = None /\ mHO = None /\ mSP = None /\ mSA = None /\ mSQ = None /\ mSO = None
        /\ last = [alg |-> "none", acp |-> FALSE, base |-> 1, d |-> <<>>]

EditOutpoint == prevV < MaxV /\ prevV' = prevV + 1 /\ UNCHANGED <<seqV, spentV, outV, memo, last>>
EditSequence == seqV < MaxV /\ seqV' = seqV + 1 /\ UNCHANGED <<prevV, spentV, outV, memo, last>>
EditSpent == spentV < MaxV /\ spentV' = spentV + 1 /\ UNCHANGED <<prevV, seqV, outV, memo, last>>
EditOutput == outV < MaxV /\ outV' = outV + 1 /\ UNCHANGED <<prevV, seqV, spentV, memo, last>>

Use(m, cur) == IF Policy = "memo" /\ m # None THEN m ELSE cur      \* value a memoised getter returns
\* BIP143: hash_prevouts() fills prevouts+sequence together; hash_outputs() fills outputs
Query143(acp, base) ==
  LET needP == ~acp  needS == ~acp /\ base = 1  needO == base = 1
      hp == Use(mHP, prevV)  hs == Use(mHS, seqV)  ho == Use(mHO, outV) IN
  /\ mHP' = IF needP \/ needS THEN hp ELSE mHP
  /\ mHS' = IF needP \/ needS THEN hs ELSE mHS
  /\ mHO' = IF needO THEN ho ELSE mHO
  /\ last' = [alg |-> "bip143", acp |-> acp, base |-> base,
              d |-> <<IF needP THEN hp ELSE None, IF needS THEN hs ELSE None, IF needO THEN ho ELSE None>>]
  /\ UNCHANGED <<fields, mSP, mSA, mSQ, mSO>>
Query341(acp, base) ==
  LET needI == ~acp  needO == base = 1
      sp == Use(mSP, prevV)  sa == Use(mSA, spentV)  sq == Use(mSQ, seqV)  so == Use(mSO, outV) IN
  /\ mSP' = (IF needI THEN sp ELSE mSP)
  /\ mSA' = (IF needI THEN sa ELSE mSA)
  /\ mSQ' = (IF needI THEN sq ELSE mSQ)
  /\ mSO' = IF needO THEN so ELSE mSO
  /\ last' = [alg |-> "bip341", acp |-> acp, base |-> base,
              d |-> <<IF needI THEN sp ELSE None, IF needI THEN sa ELSE None, IF needI THEN sq ELSE None, IF needO THEN so ELSE None>>]
  /\ UNCHANGED <<fields, mHP, mHS, mHO>>
QueryLegacy == last' = [alg |-> "legacy", acp |-> FALSE, base |-> 1, d |-> <<prevV, seqV, outV>>] /\ UNCHANGED <<fields, memo>>
Next == \/ EditOutpoint \/ EditSequence \/ EditSpent \/ EditOutput \/ QueryLegacy
        \/ \E acp \in BOOLEAN, base \in {1, 2, 3} : Query143(acp, base) \/ Query341(acp, base)
Spec == Init /\ [][Next]_vars

FreshD(l) == CASE l.alg = "bip143" -> <<IF ~l.acp THEN prevV ELSE None, IF ~l.acp /\ l.base = 1 THEN seqV ELSE None,
                                        IF l.base = 1 THEN outV ELSE None>>
               [] l.alg = "bip341" -> <<IF ~l.acp THEN prevV ELSE None, IF ~l.acp THEN spentV ELSE None,
                                        IF ~l.acp THEN seqV ELSE None, IF l.base = 1 THEN outV ELSE None>>
               [] l.alg = "legacy" -> <<prevV, seqV, outV>>
               [] OTHER -> <<>>
\* checked as an action property on the query step itself (the digest must be fresh when it is returned)
FreshNow == FreshD(last)
Fresh == [][(last' # last) => last'.d = FreshNow']_vars
Depth == TLCGet("level") <= 7
====================================================================================
