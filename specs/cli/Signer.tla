----------------------------------- MODULE Signer -----------------------------------
(* multiwallet.py `sign_transaction`: the dialogue through which a user reviews and      *)
(* (co)signs a multisig PSBT, as a machine driven by the user's answers.  One prompt of    *)
(* the program is one control state; an answer is classified by what the prompt makes of   *)
(* it (empty / yes / no / neither, well-formed or not, a cosigner's seed or a stranger's). *)
(* The steps the program takes between prompts (parse + validate the PSBT, build the        *)
(* review summary, sign) are folded into the transition that follows the answer.            *)
(*                                                                                        *)
(* Wallet of the scenarios: 2-of-3; cosigner 1's seed needs no passphrase, cosigner 2's     *)
(* key was made with the passphrase "pp"; a third valid seed belongs to nobody.             *)
(* A scenario fixes the pasted PSBT: with or without the global xpub section (without it     *)
(* the program asks for the output descriptors), honest or carrying an input of another      *)
(* quorum (which the review must refuse: C11).                                               *)
EXTENDS Naturals, Sequences, FiniteSets
CONSTANT AskConsent      \* TRUE: the program as it is; FALSE: a program that signs without the confirmation prompt (must be refuted)

Prompts == {"psbt", "net", "descr", "depth", "confirm", "seed", "pwq", "pw1", "pw2", "done"}
YN == {"", "y", "n", "x"}
Alphabet(pc) == CASE pc = "psbt" -> {"empty", "garbage", "good"}
                  [] pc = "net" -> YN [] pc = "depth" -> YN [] pc = "confirm" -> YN [] pc = "pwq" -> YN
                  [] pc = "descr" -> {"garbage", "good"}
                  [] pc = "seed" -> {"short", "badword", "badsum", "cos1", "cos2", "stranger"}
                  [] pc = "pw1" -> {"pp", "other", "spacey"}
                  [] pc = "pw2" -> {"pp", "other"}
                  [] pc = "done" -> {}
\* answers a prompt does not accept: the prompt is repeated and nothing else changes
Invalid(pc) == CASE pc = "psbt" -> {"empty", "garbage"} [] pc \in {"net", "depth", "confirm", "pwq"} -> {"x"}
                 [] pc = "descr" -> {"garbage"} [] pc = "seed" -> {"short", "badword", "badsum"}
                 [] pc = "pw1" -> {"spacey"} [] OTHER -> {}
Yes(a, default) == a = "y" \/ (a = "" /\ default)

Scenarios == [xpubs : BOOLEAN, tampered : BOOLEAN]
InitState(sc) == [pc |-> "psbt", xpubs |-> sc.xpubs, tampered |-> sc.tampered, flipped |-> FALSE, shown |-> FALSE,
                  detailed |-> FALSE, confirmed |-> FALSE, mn |-> "none", pw |-> "none", out |-> "none"]

\* the review: refuses a tampered PSBT (the exception ends the command), otherwise shows the summary
Describe(s) == IF s.tampered THEN [s EXCEPT !.pc = "done", !.out = "refused"]
               ELSE [s EXCEPT !.pc = IF AskConsent THEN "depth" ELSE "seed", !.shown = TRUE]
\* signing with the seed and passphrase entered: only a cosigner's key signs
Sign(s, pw) == LET who == IF s.mn = "cos1" /\ pw = "none" THEN "signed1" ELSE IF s.mn = "cos2" /\ pw = "pp" THEN "signed2" ELSE "error"
               IN [s EXCEPT !.pc = "done", !.pw = pw, !.out = who]

Step(s, a) ==
  IF a \in Invalid(s.pc) THEN s
  ELSE CASE s.pc = "psbt" -> [s EXCEPT !.pc = "net"]
         [] s.pc = "net" -> LET t == [s EXCEPT !.flipped = ~Yes(a, TRUE)] IN IF s.xpubs THEN Describe(t) ELSE [t EXCEPT !.pc = "descr"]
         [] s.pc = "descr" -> Describe(s)
         [] s.pc = "depth" -> [s EXCEPT !.pc = "confirm", !.detailed = Yes(a, FALSE)]
         [] s.pc = "confirm" -> IF Yes(a, TRUE) THEN [s EXCEPT !.pc = "seed", !.confirmed = TRUE] ELSE [s EXCEPT !.pc = "done", !.out = "declined"]
         [] s.pc = "seed" -> [s EXCEPT !.pc = "pwq", !.mn = a]
         [] s.pc = "pwq" -> IF Yes(a, FALSE) THEN [s EXCEPT !.pc = "pw1"] ELSE Sign(s, "none")
         [] s.pc = "pw1" -> [s EXCEPT !.pc = "pw2", !.pw = a]
         [] s.pc = "pw2" -> IF a = s.pw THEN Sign(s, a) ELSE [s EXCEPT !.pc = "pw1", !.pw = "none"]
         [] s.pc = "done" -> s

---------------------------------------------------------------------------------------
VARIABLES st, last
vars == <<st, last>>
Init == /\ \E sc \in Scenarios : st = InitState(sc)
        /\ last = "none"
Next == \E a \in Alphabet(st.pc) : st' = Step(st, a) /\ last' = a
Spec == Init /\ [][Next]_vars

\* ---- what the user relies on
NoSignatureWithoutConsent == st.out \in {"signed1", "signed2"} => (st.shown /\ st.confirmed)
NoSeedBeforeConsent == st.pc \in {"seed", "pwq", "pw1", "pw2"} => (st.shown /\ st.confirmed)
TamperedNeverOffered == st.tampered => (st.pc \notin {"depth", "confirm", "seed", "pwq", "pw1", "pw2"} /\ st.out \in {"none", "refused"})
OnlyACosignerSigns == /\ st.out = "signed1" => (st.mn = "cos1" /\ st.pw = "none")
                      /\ st.out = "signed2" => (st.mn = "cos2" /\ st.pw = "pp")
DeclineIsFinal == st.out = "declined" => (st.mn = "none" /\ st.pc = "done")
InvalidAnswersRepeat == [][(last' \in Invalid(st.pc)) => (st' = st)]_vars
Monotone == [][/\ (st.shown => st'.shown) /\ (st.confirmed => st'.confirmed) /\ (st.out # "none" => st' = st)]_vars
TypeOK == st.pc \in Prompts /\ st.out \in {"none", "declined", "refused", "signed1", "signed2", "error"}
\* vacuity guards (each must be REFUTED: the state is reachable)
NeverSigned1 == st.out # "signed1"
NeverSigned2 == st.out # "signed2"
NeverRefused == st.out # "refused"
NeverError == st.out # "error"
=======================================================================================
