SPECIFICATION Spec
CONSTANT GuardAdvanced = TRUE
INVARIANT NeverOther
