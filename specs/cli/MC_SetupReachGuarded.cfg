SPECIFICATION Spec
CONSTANT GuardAdvanced = TRUE
INVARIANT NeverGuarded
