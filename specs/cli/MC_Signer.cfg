SPECIFICATION Spec
CONSTANT AskConsent = TRUE
INVARIANT TypeOK
INVARIANT NoSignatureWithoutConsent
INVARIANT NoSeedBeforeConsent
INVARIANT TamperedNeverOffered
INVARIANT OnlyACosignerSigns
INVARIANT DeclineIsFinal
PROPERTY InvalidAnswersRepeat
PROPERTY Monotone
