SPECIFICATION Spec
CONSTANT GuardAdvanced = FALSE
INVARIANT ShamirOnlyInAdvancedMode
