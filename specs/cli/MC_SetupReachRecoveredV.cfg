SPECIFICATION Spec
CONSTANT GuardAdvanced = TRUE
INVARIANT NeverRecoveredV
