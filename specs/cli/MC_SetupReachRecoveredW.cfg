SPECIFICATION Spec
CONSTANT GuardAdvanced = TRUE
INVARIANT NeverRecoveredW
