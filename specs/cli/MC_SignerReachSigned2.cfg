SPECIFICATION Spec
CONSTANT AskConsent = TRUE
INVARIANT NeverSigned2
