SPECIFICATION Spec
CONSTANT GuardAdvanced = TRUE
INVARIANT TypeOK
INVARIANT ShamirOnlyInAdvancedMode
INVARIANT DescriptorWellFormed
INVARIANT KeysStayDistinct
INVARIANT AddressesWellFormed
INVARIANT SharesWellFormed
INVARIANT RecoverSound
INVARIANT AtMenuBetweenCommands
PROPERTY RecoverNeedsQuorum
PROPERTY InvalidAnswersRepeat
PROPERTY ModeChangesOnlyByToggle
PROPERTY AnswersKept
