----------------------------------- MODULE Setup -----------------------------------
(* multiwallet.py as a session: one MultiWallet object, a sequence of commands typed at the  *)
(* menu, each command a dialogue.  Signer.tla treats `sign_transaction`; this module treats   *)
(* the commands with which a wallet is set up and backed up:                                  *)
(*   toggle_advanced_mode, create_output_descriptors, validate_address,                       *)
(*   shamir_split_seed, shamir_recover_seed.                                                   *)
(* One prompt of the program is one control state (pc); an answer is classified by what the   *)
(* prompt makes of it.  What the program computes between prompts is folded into the          *)
(* transition after the answer; what a finished command printed is the record `res`, which     *)
(* stays visible at the menu until the next command starts.  The only state that survives a   *)
(* command is the mode flag `adv`.                                                              *)
(*                                                                                            *)
(* World of the scenarios: key records A..D of four different seeds; a 2-of-3 descriptor;       *)
(* a share set W = {w1,w2,w3} (2-of-3, no passphrase) and a set V = {v1,v2} taken from a        *)
(* 2-of-3 split made with the passphrase "pp" - of two different BIP39 seeds.                   *)
EXTENDS Integers, Sequences, FiniteSets
CONSTANT GuardAdvanced    \* TRUE: the program as it is; FALSE: Shamir commands without the safe-mode guard (must be refuted)

Cmds == {"toggle", "cod", "va", "split", "recover"}
YN == {"", "y", "n", "x"}
Yes(a, default) == a = "y" \/ (a = "" /\ default)
Keys == {"A", "B", "C", "D"}
W == {"w1", "w2", "w3"}
V == {"v1", "v2"}
MaxShares == 3

\* ---- integer prompts (_get_int): blank = default; refused unless an integer in [min, max]
IntTexts == {"", "-1", "0", "1", "2", "3", "4", "5", "16", "17", "12871", "x"}
Val(a) == CASE a = "-1" -> -1 [] a = "0" -> 0 [] a = "1" -> 1 [] a = "2" -> 2 [] a = "3" -> 3 [] a = "4" -> 4 [] a = "5" -> 5
            [] a = "16" -> 16 [] a = "17" -> 17 [] a = "12871" -> 12871 [] OTHER -> 0
NoMax == 1000000
IntVal(a, default) == IF a = "" THEN default ELSE Val(a)
IntOK(a, default, min, max) == a # "x" /\ min <= IntVal(a, default) /\ IntVal(a, default) <= max
Min(a, b) == IF a < b THEN a ELSE b

NoRes == [kind |-> "none", m |-> 0, n |-> 0, keys |-> <<>>, sorted |-> TRUE, limit |-> 0, offset |-> 0, change |-> FALSE,
          k |-> 0, pw |-> "none", which |-> "none"]
Fresh(adv, res) == [pc |-> "menu", adv |-> adv, m |-> 0, n |-> 0, keys |-> <<>>, k |-> 0, pw |-> "none", limit |-> 0, offset |-> 0,
                    mn |-> "none", shares |-> {}, res |-> res]
InitState == Fresh(FALSE, NoRes)

\* ---- per-prompt parameters of the integer prompts: <<default, min, max>>
IntParams(s) == CASE s.pc = "cod_m" -> <<2, 1, 15>>
                  [] s.pc = "cod_n" -> <<Min(s.m + 1, 15), s.m, 15>>
                  [] s.pc = "va_limit" -> <<5, 1, NoMax>>
                  [] s.pc = "va_offset" -> <<0, 0, NoMax>>
                  [] s.pc = "sp_k" -> <<2, 1, 16>>
                  [] s.pc = "sp_n" -> <<IF 2 * s.k - 1 < 16 THEN 2 * s.k - 1 ELSE 16, s.k, 16>>
                  [] s.pc = "sp_lim" -> <<1000, s.k, 12870>>
                  [] OTHER -> <<0, 0, 0>>
IntPrompts == {"cod_m", "cod_n", "va_limit", "va_offset", "sp_k", "sp_n", "sp_lim"}
BoolPrompts == {"cod_sort", "va_recv", "sp_pwq", "sp_limq", "rc_pwq"}

\* texts the environment types at each prompt (an assumption on the environment, not on the program)
Alphabet(s) ==
  CASE s.pc = "menu" -> Cmds
    [] s.pc = "cod_m" -> {"", "1", "3", "0", "16", "x"}
    [] s.pc = "cod_n" -> {"", "1", "2", "3", "16", "x"}
    [] s.pc = "cod_key" -> Keys \cup {"garbage"}
    [] s.pc = "va_descr" -> {"garbage", "good"}
    [] s.pc = "va_limit" -> {"", "1", "2", "0", "-1", "x"}
    [] s.pc = "va_offset" -> {"", "0", "3", "-1", "x"}
    [] s.pc = "sp_mn" -> {"good", "garbage"}
    [] s.pc = "sp_k" -> {"", "3", "0", "17", "x"}           \* threshold 1 is left out: see DESIGN 0.6
    [] s.pc = "sp_n" -> {"", "2", "3", "4", "17", "x"}
    [] s.pc = "sp_lim" -> {"", "1", "5", "12871", "x"}
    [] s.pc \in BoolPrompts -> YN
    [] s.pc \in {"sp_pw1", "rc_pw1"} -> {"pp", "other", "spacey"}
    [] s.pc \in {"sp_pw2", "rc_pw2"} -> {"pp", "other"}
    [] s.pc = "rc_share" -> {"blank"} \cup (IF Cardinality(s.shares) < MaxShares THEN ({"garbage"} \cup W \cup V) \ s.shares ELSE {})
    [] OTHER -> {}

\* answers a prompt does not accept: it is asked again and nothing else changes
Invalid(s, a) == \/ s.pc \in IntPrompts /\ ~IntOK(a, IntParams(s)[1], IntParams(s)[2], IntParams(s)[3])
                 \/ s.pc \in BoolPrompts /\ a = "x"
                 \/ s.pc \in {"cod_key", "va_descr"} /\ a = "garbage"
                 \/ s.pc \in {"sp_pw1", "rc_pw1"} /\ a = "spacey"

End(s, res) == Fresh(s.adv, res)

\* ---- what the Shamir recovery makes of the shares entered and the passphrase
Recovered(S, pw) ==
  LET ws == S \cap W  vs == S \cap V IN
  IF "garbage" \in S \/ S = {} \/ (ws # {} /\ vs # {}) THEN "failed"
  ELSE IF Cardinality(ws) >= 2 THEN (IF pw = "none" THEN "W" ELSE "other")
  ELSE IF Cardinality(vs) >= 2 THEN (IF pw = "pp" THEN "V" ELSE "other")
  ELSE "failed"

Finish(s, pw) ==
  IF s.pc \in {"sp_pwq", "sp_pw2"} THEN [s EXCEPT !.pc = "sp_limq", !.pw = pw]
  ELSE LET r == Recovered(s.shares, pw) IN
       End(s, [NoRes EXCEPT !.kind = IF r = "failed" THEN "failed" ELSE "mnemonic", !.which = r, !.pw = pw])
Split(s) == End(s, IF s.mn = "good" THEN [NoRes EXCEPT !.kind = "shares", !.k = s.k, !.n = s.n, !.pw = s.pw] ELSE [NoRes EXCEPT !.kind = "failed"])

Step(s, a) ==
  IF Invalid(s, a) THEN s
  ELSE LET v == IntVal(a, IntParams(s)[1]) IN
  CASE s.pc = "menu" ->
         LET t == Fresh(s.adv, NoRes) IN
         (CASE a = "toggle" -> End([t EXCEPT !.adv = ~s.adv], [NoRes EXCEPT !.kind = "toggled"])
           [] a = "cod" -> [t EXCEPT !.pc = "cod_m"]
           [] a = "va" -> [t EXCEPT !.pc = "va_descr"]
           [] a = "split" -> IF s.adv \/ ~GuardAdvanced THEN [t EXCEPT !.pc = "sp_mn"] ELSE End(t, [NoRes EXCEPT !.kind = "guarded"])
           [] a = "recover" -> IF s.adv \/ ~GuardAdvanced THEN [t EXCEPT !.pc = "rc_share"] ELSE End(t, [NoRes EXCEPT !.kind = "guarded"]))
    \* create_output_descriptors
    [] s.pc = "cod_m" -> [s EXCEPT !.pc = "cod_n", !.m = v]
    [] s.pc = "cod_n" -> [s EXCEPT !.pc = "cod_key", !.n = v]
    [] s.pc = "cod_key" ->
         IF \E i \in 1..Len(s.keys) : s.keys[i] = a THEN End(s, [NoRes EXCEPT !.kind = "aborted"])
         ELSE LET ks == Append(s.keys, a) IN
              IF Len(ks) < s.n THEN [s EXCEPT !.keys = ks]
              ELSE IF s.adv THEN [s EXCEPT !.keys = ks, !.pc = "cod_sort"]
              ELSE End(s, [NoRes EXCEPT !.kind = "descr", !.m = s.m, !.n = s.n, !.keys = ks, !.sorted = TRUE])
    [] s.pc = "cod_sort" -> End(s, [NoRes EXCEPT !.kind = "descr", !.m = s.m, !.n = s.n, !.keys = s.keys, !.sorted = Yes(a, TRUE)])
    \* validate_address
    [] s.pc = "va_descr" -> [s EXCEPT !.pc = "va_limit"]
    [] s.pc = "va_limit" -> [s EXCEPT !.pc = "va_offset", !.limit = v]
    [] s.pc = "va_offset" -> IF s.adv THEN [s EXCEPT !.pc = "va_recv", !.offset = v]
                             ELSE End(s, [NoRes EXCEPT !.kind = "addrs", !.limit = s.limit, !.offset = v, !.change = FALSE])
    [] s.pc = "va_recv" -> End(s, [NoRes EXCEPT !.kind = "addrs", !.limit = s.limit, !.offset = s.offset, !.change = ~Yes(a, TRUE)])
    \* shamir_split_seed
    [] s.pc = "sp_mn" -> [s EXCEPT !.pc = "sp_k", !.mn = a]
    [] s.pc = "sp_k" -> [s EXCEPT !.pc = "sp_n", !.k = v]
    [] s.pc = "sp_n" -> [s EXCEPT !.pc = "sp_pwq", !.n = v]
    [] s.pc = "sp_pwq" -> IF Yes(a, FALSE) THEN [s EXCEPT !.pc = "sp_pw1"] ELSE Finish(s, "none")
    [] s.pc = "sp_pw1" -> [s EXCEPT !.pc = "sp_pw2", !.pw = a]
    [] s.pc = "sp_pw2" -> IF a = s.pw THEN Finish(s, a) ELSE [s EXCEPT !.pc = "sp_pw1", !.pw = "none"]
    [] s.pc = "sp_limq" -> IF Yes(a, FALSE) THEN [s EXCEPT !.pc = "sp_lim"] ELSE Split(s)
    [] s.pc = "sp_lim" -> Split(s)
    \* shamir_recover_seed
    [] s.pc = "rc_share" -> IF a = "blank" THEN [s EXCEPT !.pc = "rc_pwq"] ELSE [s EXCEPT !.shares = s.shares \cup {a}]
    [] s.pc = "rc_pwq" -> IF Yes(a, FALSE) THEN [s EXCEPT !.pc = "rc_pw1"] ELSE Finish(s, "none")
    [] s.pc = "rc_pw1" -> [s EXCEPT !.pc = "rc_pw2", !.pw = a]
    [] s.pc = "rc_pw2" -> IF a = s.pw THEN Finish(s, a) ELSE [s EXCEPT !.pc = "rc_pw1", !.pw = "none"]
    [] OTHER -> s

---------------------------------------------------------------------------------------
VARIABLES st, last
vars == <<st, last>>
Init == st = InitState /\ last = "none"
Next == \E a \in Alphabet(st) : st' = Step(st, a) /\ last' = a
Spec == Init /\ [][Next]_vars

\* ---- what the user relies on
ShamirPrompts == {"sp_mn", "sp_k", "sp_n", "sp_pwq", "sp_pw1", "sp_pw2", "sp_limq", "sp_lim", "rc_share", "rc_pwq", "rc_pw1", "rc_pw2"}
Distinct(q) == \A i, j \in 1..Len(q) : i # j => q[i] # q[j]
TypeOK == st.res.kind \in {"none", "toggled", "guarded", "aborted", "descr", "addrs", "shares", "mnemonic", "failed"}
ShamirOnlyInAdvancedMode == /\ st.pc \in ShamirPrompts => st.adv
                            /\ st.res.kind \in {"shares", "mnemonic"} => st.adv
DescriptorWellFormed == st.res.kind = "descr" => /\ 1 <= st.res.m /\ st.res.m <= st.res.n /\ st.res.n <= 15
                                                 /\ Len(st.res.keys) = st.res.n /\ Distinct(st.res.keys)
                                                 /\ (~st.adv => st.res.sorted)
KeysStayDistinct == Distinct(st.keys) /\ Len(st.keys) <= st.n
AddressesWellFormed == st.res.kind = "addrs" => st.res.limit >= 1 /\ st.res.offset >= 0 /\ (~st.adv => ~st.res.change)
SharesWellFormed == st.res.kind = "shares" => 1 <= st.res.k /\ st.res.k <= st.res.n /\ st.res.n <= 16 /\ st.res.pw \in {"none", "pp", "other"}
\* the right seed comes back only from a quorum of its own shares under its own passphrase
RecoverSound == st.res.kind = "mnemonic" /\ st.res.which \in {"W", "V"} =>
                   (st.res.which = "W" => st.res.pw = "none") /\ (st.res.which = "V" => st.res.pw = "pp")
AtMenuBetweenCommands == (st.pc = "menu") => (st.m = 0 /\ st.n = 0 /\ st.keys = <<>> /\ st.shares = {} /\ st.mn = "none" /\ st.k = 0 /\ st.limit = 0)
RecoverNeedsQuorum == [][st'.res.kind = "mnemonic" /\ st'.res.which \in {"W", "V"} /\ st.pc # "menu" =>
                           LET own == IF st'.res.which = "W" THEN W ELSE V IN
                           /\ Cardinality(st.shares \cap own) >= 2 /\ st.shares \subseteq own]_vars
InvalidAnswersRepeat == [][Invalid(st, last') => (st' = st)]_vars
\* only toggle_advanced_mode changes the mode, and it always does
ModeChangesOnlyByToggle == [][(st'.adv # st.adv) <=> (st.pc = "menu" /\ last' = "toggle")]_vars
\* a command that has started keeps its earlier answers
AnswersKept == [][st.pc # "menu" /\ st'.pc # "menu" => /\ (st.m # 0 => st'.m = st.m) /\ (st.k # 0 => st'.k = st.k)
                                                        /\ (st.limit # 0 => st'.limit = st.limit) /\ st.shares \subseteq st'.shares]_vars
\* vacuity guards (each must be REFUTED: the state is reachable)
NeverDescr == st.res.kind # "descr"
NeverUnsorted == ~(st.res.kind = "descr" /\ ~st.res.sorted)
NeverAborted == st.res.kind # "aborted"
NeverChangeAddrs == ~(st.res.kind = "addrs" /\ st.res.change)
NeverShares == st.res.kind # "shares"
NeverRecoveredW == st.res.which # "W"
NeverRecoveredV == st.res.which # "V"
NeverOther == st.res.which # "other"
NeverGuarded == st.res.kind # "guarded"
=======================================================================================
