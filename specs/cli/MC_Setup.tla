--------------------------------- MODULE MC_Setup ---------------------------------
(* Model checking of Setup.tla and export of its transition table (binding A): every      *)
(* reachable state with every answer of its prompt's alphabet and the state that follows.  *)
EXTENDS Setup, TLC, Json, IOUtils, SequencesExt
RECURSIVE Reach(_)
Reach(S) == LET T == S \cup {Step(s, a) : <<s, a>> \in UNION {{<<s, a>> : a \in Alphabet(s)} : s \in S}} IN IF T = S THEN S ELSE Reach(T)
States(x) == Reach({InitState})      \* (a parameter keeps TLC from evaluating the table when it is not exported)
Table(x) == SetToSeq(UNION {{[from |-> s, ans |-> a, to |-> Step(s, a), invalid |-> Invalid(s, a)] : a \in Alphabet(s)} : s \in States(x)})
ASSUME "EXPORT" \notin DOMAIN IOEnv \/ JsonSerialize(IOEnv.OUT, [inits |-> <<InitState>>, table |-> Table(0)])
=======================================================================================
