--------------------------------- MODULE MC_Signer ---------------------------------
(* Model checking of Signer.tla and export of its transition table (binding A): every     *)
(* reachable state with every answer of its prompt's alphabet and the state that follows.  *)
EXTENDS Signer, TLC, Json, IOUtils, SequencesExt
RECURSIVE Reach(_)
Reach(S) == LET T == S \cup {Step(s, a) : <<s, a>> \in UNION {{<<s, a>> : a \in Alphabet(s.pc)} : s \in S}} IN IF T = S THEN S ELSE Reach(T)
States == Reach({InitState(sc) : sc \in Scenarios})
Table == SetToSeq(UNION {{[from |-> s, ans |-> a, to |-> Step(s, a)] : a \in Alphabet(s.pc)} : s \in States})
ASSUME "EXPORT" \notin DOMAIN IOEnv \/ JsonSerialize(IOEnv.OUT, [inits |-> SetToSeq({InitState(sc) : sc \in Scenarios}), table |-> Table])
=======================================================================================
