SPECIFICATION Spec
CONSTANT AskConsent = FALSE
INVARIANT NoSignatureWithoutConsent
