SPECIFICATION Spec
CONSTANT GuardAdvanced = TRUE
INVARIANT NeverAborted
