SPECIFICATION Spec
CONSTANT GuardAdvanced = TRUE
INVARIANT NeverUnsorted
