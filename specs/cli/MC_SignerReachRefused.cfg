SPECIFICATION Spec
CONSTANT AskConsent = TRUE
INVARIANT NeverRefused
