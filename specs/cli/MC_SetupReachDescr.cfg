SPECIFICATION Spec
CONSTANT GuardAdvanced = TRUE
INVARIANT NeverDescr
