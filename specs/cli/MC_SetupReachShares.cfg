SPECIFICATION Spec
CONSTANT GuardAdvanced = TRUE
INVARIANT NeverShares
