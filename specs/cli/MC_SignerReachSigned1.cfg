SPECIFICATION Spec
CONSTANT AskConsent = TRUE
INVARIANT NeverSigned1
