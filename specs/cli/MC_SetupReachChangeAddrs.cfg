SPECIFICATION Spec
CONSTANT GuardAdvanced = TRUE
INVARIANT NeverChangeAddrs
