SPECIFICATION Spec
CONSTANT AskConsent = TRUE
INVARIANT NeverError
