--------------------------------- MODULE MC_Envelope ---------------------------------
(* C19, binding C: the envelope parser machine explored by TLC on every stream that an     *)
(* adversary can derive from an honest envelope of a tiny universe: the exact bytes, every   *)
(* truncation, every single-byte corruption, extra trailing bytes and a payload swap.        *)
(* The checksum is an injective toy function of the payload (ideal hash).                    *)
EXTENDS P2P

Payloads == {<<>>, <<0>>, <<1>>, <<0, 1>>, <<1, 1>>, <<7, 7, 7>>}
Cmds == {<<>>, <<118>>, <<118, 101, 114, 97, 99, 107>>, Rep(120, 12)}
Nets == {"mainnet", "regtest"}
ToyRows == SetToSeq({[fn |-> "hash256", in |-> p, out |-> <<Len(p), IF Len(p) > 0 THEN p[1] + 3 ELSE 2, IF Len(p) > 1 THEN p[2] + 5 ELSE 4, 9>> \o Zeros(28)] : p \in Payloads \cup {<<9>>, <<0, 0>>}})
HO == HRows(ToyRows)

VARIABLES net, cmd, payload, mut, p
vars == <<net, cmd, payload, mut, p>>
Honest == EnvSer(HO, net, cmd, payload)
Muts(n) == {[kind |-> "exact", at |-> 0]} \cup {[kind |-> "trunc", at |-> k] : k \in 0..(n - 1)}
           \cup {[kind |-> "flip", at |-> k] : k \in 1..n} \cup {[kind |-> "extra", at |-> 0], [kind |-> "lenup", at |-> 0]}
Apply(s, m) == CASE m.kind = "exact" -> s
                 [] m.kind = "trunc" -> Take(s, m.at)
                 [] m.kind = "flip" -> [s EXCEPT ![m.at] = IF s[m.at] % 2 = 0 THEN s[m.at] + 1 ELSE s[m.at] - 1]
                 [] m.kind = "extra" -> s \o <<5, 5>>
                 [] m.kind = "lenup" -> [s EXCEPT ![17] = s[17] + 1]          \* length field says one byte more than is there
Init == /\ net \in Nets /\ cmd \in Cmds /\ payload \in Payloads
        /\ mut \in Muts(24 + 3)
        /\ (mut.kind = "flip" => mut.at <= 24 + Len(payload)) /\ (mut.kind = "trunc" => mut.at < 24 + Len(payload))
        /\ p = PInit(Apply(EnvSer(HO, net, cmd, payload), mut))
Step == p.st \notin {"accept", "reject"} /\ p' = PStep(HO, net, p) /\ UNCHANGED <<net, cmd, payload, mut>>
Spec == Init /\ [][Step]_vars

Done == p.st \in {"accept", "reject"}
RoundTrip == (Done /\ mut.kind \in {"exact", "extra"}) => (p.st = "accept" /\ p.cmd = cmd /\ p.payload = payload)
\* wrong magic, wrong checksum, short payload are rejected; whatever is accepted is the honest envelope
\* (or a corruption inside the zero padding of the command, which decodes to another command and is not covered by any checksum)
AcceptedIsHonest == (Done /\ p.st = "accept") => (p.payload = payload /\ (mut.kind = "flip" => (mut.at > 4 /\ mut.at <= 16)))
TruncatedRejected == (Done /\ mut.kind \in {"trunc", "lenup"}) => p.st = "reject"
Progress == [][p'.pos >= p.pos]_vars
====================================================================================
