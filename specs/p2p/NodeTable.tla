---------------------------------- MODULE NodeTable ----------------------------------
(* TLC writes Outcome(op, script) for every API call and every peer script of the bounded *)
(* universe to $OUT; the harness concretises each script to envelope bytes and replays it  *)
(* through the real SimpleNode.                                                            *)
EXTENDS NodeUniv
Row(op, inbox) == [op |-> [kind |-> op.kind, want |-> SetToSeq(op.want), blocks |-> op.blocks], inbox |-> inbox, out |-> Outcome(op, inbox)]
ASSUME JsonSerialize(IOEnv.OUT, SetToSeq({Row(op, inbox) : op \in Ops, inbox \in Scripts}))
VARIABLE x
Init == x = 0
Next == UNCHANGED x
=======================================================================================
