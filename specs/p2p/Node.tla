------------------------------------ MODULE Node ------------------------------------
(* SimpleNode (buidl/network.py) as a protocol state machine against a scripted peer.     *)
(*                                                                                        *)
(* The peer is the environment: it has decided on a finite sequence of messages (inbox)   *)
(* and the node consumes them one envelope at a time.  One action per loop iteration of   *)
(* SimpleNode.wait_for, exactly as the code is structured:                                *)
(*   Start      the API call sends its request (version / getdata / nothing)              *)
(*   ReadEOF    the stream is exhausted: NetworkEnvelope.parse raises "Connection reset!" *)
(*   ReadSkip   an envelope whose command is not waited for is consumed; version and ping *)
(*              are answered (verack / pong with the same nonce) before anything else     *)
(*   ReadDeliver the envelope is one of the awaited classes: the call returns it, or      *)
(*              get_filtered_txs checks it (block hash, proof validity, tx hash) and      *)
(*              moves to its next expectation                                             *)
(* Messages are abstract: [cmd, n, ok, pr]  (n = nonce / block / tx id, ok = proof valid, *)
(* pr = ids the partial merkle tree proves).  The harness concretises every message to    *)
(* real envelope bytes (real headers, BIP37 proofs and transactions) and replays every    *)
(* behaviour through the unmodified SimpleNode on a fake socket.                          *)
EXTENDS Naturals, Sequences, FiniteSets, TLC, SequencesExt

M(cmd, n, ok, pr) == [cmd |-> cmd, n |-> n, ok |-> ok, pr |-> pr]
Plain(cmd) == M(cmd, 0, TRUE, <<>>)
S(cmd, n, pr) == [cmd |-> cmd, n |-> n, pr |-> pr]          \* what the node sends

\* API calls: handshake(), wait_for(*classes), get_filtered_txs(block_hashes)
Op(kind, want, blocks) == [kind |-> kind, want |-> want, blocks |-> blocks]

Idle(op, inbox) ==
  [op |-> op, inbox |-> inbox, pos |-> 1, sent |-> <<>>, status |-> "idle", want |-> {}, bi |-> 0,
   pend |-> <<>>, results |-> <<>>, accepted |-> <<>>, ret |-> Plain("none"), err |-> ""]

---------------------------------------------------------------------------------------
(* Steps as functions on the state record (so that the same definitions drive the model  *)
(* checker, the exported outcome table and the validation of recorded runs).             *)

NextBlock(st) ==       \* get_filtered_txs: the for-loop over block_hashes advances
  IF st.bi = Len(st.op.blocks) THEN [st EXCEPT !.status = "returned", !.want = {}]
  ELSE [st EXCEPT !.bi = st.bi + 1, !.want = {"merkleblock"}]

EnStart(st) == st.status = "idle"
StartFn(st) ==
  CASE st.op.kind = "handshake" -> [st EXCEPT !.status = "running", !.sent = <<S("version", 0, <<>>)>>, !.want = {"verack"}]
    [] st.op.kind = "waitfor"   -> [st EXCEPT !.status = "running", !.want = st.op.want]
    [] st.op.kind = "filtered"  -> NextBlock([st EXCEPT !.status = "running", !.sent = <<S("getdata", 0, st.op.blocks)>>])

Cur(st) == st.inbox[st.pos]
AutoReply(m) == IF m.cmd = "version" THEN <<S("verack", 0, <<>>)>> ELSE IF m.cmd = "ping" THEN <<S("pong", m.n, <<>>)>> ELSE <<>>

EnReadEOF(st) == st.status = "running" /\ st.pos > Len(st.inbox)
ReadEOFFn(st) == [st EXCEPT !.status = "raised", !.err = "eof"]

EnReadSkip(st) == st.status = "running" /\ st.pos <= Len(st.inbox) /\ Cur(st).cmd \notin st.want
ReadSkipFn(st) == [st EXCEPT !.pos = st.pos + 1, !.sent = st.sent \o AutoReply(Cur(st))]

EnReadDeliver(st) == st.status = "running" /\ st.pos <= Len(st.inbox) /\ Cur(st).cmd \in st.want
ReadDeliverFn(st) ==
  LET m == Cur(st)
      s1 == [st EXCEPT !.pos = st.pos + 1, !.sent = st.sent \o AutoReply(m)] IN
  IF st.op.kind # "filtered" THEN [s1 EXCEPT !.status = "returned", !.ret = m]
  ELSE IF m.cmd = "merkleblock" THEN
         IF m.n # st.op.blocks[st.bi] THEN [s1 EXCEPT !.status = "raised", !.err = "wrong-block"]
         ELSE IF ~m.ok THEN [s1 EXCEPT !.status = "raised", !.err = "invalid-proof"]
         ELSE IF m.pr = <<>> THEN NextBlock([s1 EXCEPT !.accepted = Append(st.accepted, m)])
         ELSE [s1 EXCEPT !.accepted = Append(st.accepted, m), !.pend = m.pr, !.want = {"tx"}]
  ELSE \* a tx while proved ids are pending
         IF m.n # Head(st.pend) THEN [s1 EXCEPT !.status = "raised", !.err = "wrong-tx"]
         ELSE LET s2 == [s1 EXCEPT !.results = Append(st.results, m.n), !.pend = Tail(st.pend)] IN
              IF s2.pend = <<>> THEN NextBlock(s2) ELSE s2

Done(st) == st.status \in {"returned", "raised"}
StepFn(st) == IF EnStart(st) THEN StartFn(st) ELSE IF EnReadEOF(st) THEN ReadEOFFn(st)
              ELSE IF EnReadSkip(st) THEN ReadSkipFn(st) ELSE IF EnReadDeliver(st) THEN ReadDeliverFn(st) ELSE st
RECURSIVE Final(_)
Final(st) == IF Done(st) THEN st ELSE Final(StepFn(st))
Outcome(op, inbox) == LET f == Final(Idle(op, inbox)) IN
  [status |-> f.status, err |-> f.err, sent |-> f.sent, consumed |-> f.pos - 1, ret |-> f.ret, results |-> f.results]

---------------------------------------------------------------------------------------
(* What a user of the node relies on (stated independently of the step functions).       *)

Consumed(st) == SubSeq(st.inbox, 1, st.pos - 1)
RECURSIVE Replies(_)
Replies(ms) == IF ms = <<>> THEN <<>> ELSE AutoReply(Head(ms)) \o Replies(Tail(ms))
IsReply(s) == s.cmd \in {"verack", "pong"}
Request(st) == IF st.status = "idle" THEN <<>>
               ELSE IF st.op.kind = "handshake" THEN <<S("version", 0, <<>>)>>
               ELSE IF st.op.kind = "filtered" THEN <<S("getdata", 0, st.op.blocks)>> ELSE <<>>
\* every version gets one verack and every ping one pong carrying the ping's nonce, in the order received,
\* and nothing else is ever sent besides the call's own request
ReplyDiscipline(st) == st.sent = Request(st) \o Replies(Consumed(st))

\* wait_for returns the first awaited message of the stream and consumes nothing beyond it
FirstAwaited(st) ==
  (st.status = "returned" /\ st.op.kind \in {"handshake", "waitfor"}) =>
     /\ st.pos >= 2 /\ st.ret = st.inbox[st.pos - 1] /\ st.ret.cmd \in st.want
     /\ \A k \in 1..(st.pos - 2) : st.inbox[k].cmd \notin st.want
EOFOnlyWhenStarved(st) ==
  (st.err = "eof" /\ st.op.kind \in {"handshake", "waitfor"}) => \A k \in 1..Len(st.inbox) : st.inbox[k].cmd \notin st.want

RECURSIVE Flat(_)
Flat(ms) == IF ms = <<>> THEN <<>> ELSE Head(ms).pr \o Flat(Tail(ms))
\* get_filtered_txs: what it returns is exactly what valid proofs for the requested blocks prove, in order;
\* while running, the transactions collected so far are a prefix of that
FilteredSound(st) ==
  st.op.kind = "filtered" =>
     /\ \A k \in 1..Len(st.accepted) : st.accepted[k].ok /\ st.accepted[k].n = st.op.blocks[k]
     /\ IsPrefix(st.results, Flat(st.accepted))
     /\ st.status = "returned" => (Len(st.accepted) = Len(st.op.blocks) /\ st.results = Flat(st.accepted))
     /\ st.status = "running" /\ st.want = {"tx"} => st.results \o st.pend = Flat(st.accepted)
NoProgressBeyondStream(st) == st.pos <= Len(st.inbox) + 1 /\ (Done(st) \/ st.status \in {"idle", "running"})
=======================================================================================
