--------------------------------- MODULE C19Cases ---------------------------------
(* Binding B for C19: recorded serialize / parse calls of the envelope, the primitive      *)
(* integer codecs and every fixed-layout message are decided by TLC evaluating P2P.tla.     *)
EXTENDS P2P, CaseIO

HO(c) == HRows(c.hr)
WhyEnvParse(c) ==
  LET p == EnvParse(HO(c), c.net, c.stream) IN
  IF p.st = "accept" THEN (IF c.res # "ok" THEN "rejects-valid-envelope"
                           ELSE IF c.cmd # p.cmd \/ c.payload # p.payload THEN "parsed-fields-differ"
                           ELSE IF c.reser # EnvSer(HO(c), c.net, p.cmd, p.payload) THEN "parsed-envelope-does-not-serialise-back-to-its-network-bytes" ELSE "")
  ELSE (IF c.res = "ok" THEN "accepts-invalid-envelope:" \o p.st \o
                             (IF Len(c.stream) < 24 THEN ":short-header" ELSE IF Take(c.stream, 4) # Magic(c.net) THEN ":wrong-magic"
                              ELSE IF c.stream[20] # 0 \/ Len(c.stream) - 24 < LEval(Slice(c.stream, 17, 19)) THEN ":short-payload" ELSE ":wrong-checksum") ELSE "")
WhyVarint(c) ==
  IF c.enc # VarintBN(c.n) THEN "encode_varint-differs"
  ELSE LET r == ReadVarintBN(c.enc) IN IF ~r.ok \/ r.val # Strip(c.dec) THEN "read_varint-does-not-invert" ELSE ""
WhyFixed(c) == IF c.le # LEw(c.n, c.w) THEN "int_to_little_endian" ELSE IF c.be # BEw(c.n, c.w) THEN "int_to_big_endian"
               ELSE IF Strip(c.le_back) # Strip(c.n) \/ Strip(c.be_back) # Strip(c.n) THEN "endian-decode" ELSE ""
EqHeader(a, b) == /\ Strip(a.version) = Strip(b.version) /\ a.prev_block = b.prev_block /\ a.merkle_root = b.merkle_root
                  /\ Strip(a.timestamp) = Strip(b.timestamp) /\ a.bits = b.bits /\ a.nonce = b.nonce
WhyHeaders(c) ==      \* parse of headers message built by the spec layout from logged headers
  IF c.bytes # HeadersMsg(c.headers) THEN "harness-layout"       \* the bytes fed to the parser are the protocol layout of these headers
  ELSE IF c.res # "ok" THEN "headers-parse-raises"
  ELSE IF Len(c.parsed) # Len(c.headers) THEN "headers-count"
  ELSE IF \E k \in 1..Len(c.headers) : ~EqHeader(c.parsed[k], c.headers[k]) THEN "headers-fields"
  ELSE IF \E k \in 1..Len(c.headers) : c.reser[k] # Header(c.headers[k]) THEN "header-serialize" ELSE ""
Why(c) ==
  CASE c.kind = "envser" -> (IF c.bytes = EnvSer(HO(c), c.net, c.cmd, c.payload) THEN "" ELSE "envelope-serialize-differs")
    [] c.kind = "envparse" -> WhyEnvParse(c)
    [] c.kind = "varint" -> WhyVarint(c)
    [] c.kind = "varstr" -> (IF c.enc = VarintBN(FromInt(Len(c.s))) \o c.s /\ c.back = c.s THEN "" ELSE "varstr")
    [] c.kind = "fixed" -> WhyFixed(c)
    [] c.kind = "fixed-overflow" -> (IF Len(Strip(c.n)) <= c.w THEN "harness:value-fits"           \* the value needs more than w bytes
                                     ELSE IF c.le_ok THEN "int_to_little_endian-wraps-a-value-that-does-not-fit"
                                     ELSE IF c.be_ok THEN "int_to_big_endian-wraps-a-value-that-does-not-fit" ELSE "")
    [] c.kind = "version" -> (IF c.bytes = VersionMsg(c.m) THEN "" ELSE "version-layout")
    [] c.kind = "getheaders" -> (IF c.bytes = GetHeadersMsg(c.m) THEN "" ELSE "getheaders-layout")
    [] c.kind = "getdata" -> (IF c.bytes = GetDataMsg(c.m) THEN "" ELSE "getdata-layout")
    [] c.kind \in {"getcfilters", "getcfheaders"} -> (IF c.bytes = GetCFiltersMsg(c.m) THEN "" ELSE c.kind \o "-layout")
    [] c.kind = "getcfcheckpt" -> (IF c.bytes = GetCFCheckptMsg(c.m) THEN "" ELSE "getcfcheckpt-layout")
    [] c.kind = "headers" -> WhyHeaders(c)
    [] c.kind = "pingpong" -> (IF c.res = "ok" /\ c.nonce_back = c.nonce /\ c.ser = c.nonce THEN "" ELSE c.cls \o "-roundtrip")
    [] c.kind = "cfilter" -> (IF c.bytes # CFilterMsg(c.m) THEN "harness-layout" ELSE IF c.res # "ok" THEN "cfilter-parse-raises"
                              ELSE IF c.p.filter_type # c.m.filter_type \/ c.p.block_hash # c.m.block_hash \/ c.p.filter_bytes # c.m.filter_bytes THEN "cfilter-fields" ELSE "")
    [] c.kind = "cfheaders" -> (IF c.bytes # CFHeadersMsg(c.m) THEN "harness-layout" ELSE IF c.res # "ok" THEN "cfheaders-parse-raises"
                                ELSE IF c.p.filter_type # c.m.filter_type \/ c.p.stop_hash # c.m.stop_hash \/ c.p.previous_filter_header # c.m.previous_filter_header
                                        \/ c.p.filter_hashes # c.m.filter_hashes THEN "cfheaders-fields"
                                ELSE IF c.p.last_header # FilterChain(HO(c), c.m.filter_hashes, 1, c.m.previous_filter_header) THEN "filter-header-chain" ELSE "")
    [] c.kind = "cfcheckpt" -> (IF c.bytes # CFCheckptMsg(c.m) THEN "harness-layout" ELSE IF c.res # "ok" THEN "cfcheckpt-parse-raises"
                                ELSE IF c.p.filter_type # c.m.filter_type \/ c.p.stop_hash # c.m.stop_hash \/ c.p.filter_headers # c.m.filter_headers THEN "cfcheckpt-fields" ELSE "")
VARIABLES i, bad
Init == i = 1 /\ bad = <<>>
Next == /\ i <= NCases /\ i' = i + 1
        /\ bad' = LET w == Why(Cases[i]) IN IF w = "" THEN bad ELSE Append(bad, [id |-> Cases[i].id, why |-> w])
Fin == (i = NCases + 1) => JsonSerialize(IOEnv.OUT, bad)
====================================================================================
