------------------------------------ MODULE P2P ------------------------------------
(* Bitcoin P2P framing and fixed-layout messages as functions on byte strings, plus the    *)
(* envelope parser as a state machine over a byte stream that may end early or be           *)
(* corrupted (C19).  Integers that may exceed 2^31 are BN byte strings (little endian).      *)
EXTENDS TxWire, BN, HashOracle

Magic(net) == CASE net = "mainnet" -> <<249, 190, 180, 217>> [] net = "testnet" -> <<11, 17, 9, 7>>
                [] net = "signet" -> <<10, 3, 207, 64>> [] net = "regtest" -> <<250, 191, 181, 218>>
Checksum(ho, payload) == LET h == HashIn(ho, "hash256", payload) IN IF h = NoHash THEN NoHash ELSE Take(h, 4)
PadCmd(c) == c \o Zeros(12 - Len(c))
LenLE4(n) == LE(n % 65536, 2) \o LE(n \div 65536, 2)
EnvSer(ho, net, cmd, payload) == Magic(net) \o PadCmd(cmd) \o LenLE4(Len(payload)) \o Checksum(ho, payload) \o payload

\* strip zero bytes on both ends (the command field is zero padded)
RECURSIVE StripL(_)
StripL(s) == IF s # <<>> /\ s[1] = 0 THEN StripL(Tail(s)) ELSE s
StripZ(s) == Rev(StripL(Rev(StripL(s))))

\* ---- the parser as a state machine ---------------------------------------------------------
\* st: "magic" -> "command" -> "length" -> "checksum" -> "payload" -> "verify" -> "accept" | "reject"
PInit(stream) == [st |-> "magic", pos |-> 1, cmd |-> <<>>, len |-> 0, sum |-> <<>>, payload |-> <<>>, stream |-> stream]
Avail(p, n) == p.pos + n - 1 <= Len(p.stream)
Rd(p, n) == Slice(p.stream, p.pos, p.pos + n - 1)
PStep(ho, net, p) ==
  CASE p.st = "magic" -> IF ~Avail(p, 4) \/ Rd(p, 4) # Magic(net) THEN [p EXCEPT !.st = "reject"] ELSE [p EXCEPT !.st = "command", !.pos = p.pos + 4]
    [] p.st = "command" -> IF ~Avail(p, 12) THEN [p EXCEPT !.st = "reject"] ELSE [p EXCEPT !.st = "length", !.pos = p.pos + 12, !.cmd = StripZ(Rd(p, 12))]
    [] p.st = "length" -> IF ~Avail(p, 4) \/ Rd(p, 4)[4] >= 128 THEN [p EXCEPT !.st = "reject"]
                          ELSE [p EXCEPT !.st = "checksum", !.pos = p.pos + 4, !.len = LEval(Rd(p, 4))]
    [] p.st = "checksum" -> IF ~Avail(p, 4) THEN [p EXCEPT !.st = "reject"] ELSE [p EXCEPT !.st = "payload", !.pos = p.pos + 4, !.sum = Rd(p, 4)]
    [] p.st = "payload" -> IF ~Avail(p, p.len) THEN [p EXCEPT !.st = "reject"]           \* fewer bytes than the length field declares
                           ELSE [p EXCEPT !.st = "verify", !.pos = p.pos + p.len, !.payload = Rd(p, p.len)]
    [] p.st = "verify" -> IF Checksum(ho, p.payload) = p.sum THEN [p EXCEPT !.st = "accept"] ELSE [p EXCEPT !.st = "reject"]
    [] OTHER -> p
RECURSIVE PRun(_, _, _)
PRun(ho, net, p) == IF p.st \in {"accept", "reject"} THEN p ELSE PRun(ho, net, PStep(ho, net, p))
EnvParse(ho, net, stream) == PRun(ho, net, PInit(stream))

\* ---- primitive codecs ------------------------------------------------------------------------
LEw(b, w) == Pad(Strip(b), w)                    \* BN -> fixed width little endian (caller guarantees it fits)
BEw(b, w) == Rev(Pad(Strip(b), w))
\* read a compact size at the start of s: [ok, val (BN), used]
ReadVarintBN(s) == IF s = <<>> THEN [ok |-> FALSE, val |-> <<>>, used |-> 0]
  ELSE IF s[1] < 253 THEN [ok |-> TRUE, val |-> Strip(<<s[1]>>), used |-> 1]
  ELSE LET w == IF s[1] = 253 THEN 2 ELSE IF s[1] = 254 THEN 4 ELSE 8 IN
       IF Len(s) < 1 + w THEN [ok |-> FALSE, val |-> <<>>, used |-> 0] ELSE [ok |-> TRUE, val |-> Strip(Slice(s, 2, 1 + w)), used |-> 1 + w]

\* ---- messages ----------------------------------------------------------------------------------
NetAddr(services, ip, port) == LEw(services, 8) \o Zeros(10) \o <<255, 255>> \o ip \o LEw(port, 2)
VersionMsg(m) == LEw(m.version, 4) \o LEw(m.services, 8) \o LEw(m.timestamp, 8)
                 \o NetAddr(m.receiver_services, m.receiver_ip, m.receiver_port)
                 \o NetAddr(m.sender_services, m.sender_ip, m.sender_port)
                 \o m.nonce \o VarStr(m.user_agent) \o LEw(m.latest_block, 4) \o <<IF m.relay THEN 1 ELSE 0>>
GetHeadersMsg(m) == LEw(m.version, 4) \o VarintBN(m.num_hashes) \o Rev(m.start_block) \o Rev(m.end_block)
RECURSIVE GetDataItems(_, _, _)
GetDataItems(d, i, acc) == IF i > Len(d) THEN acc ELSE GetDataItems(d, i + 1, acc \o LEw(d[i].type, 4) \o Rev(d[i].id))
GetDataMsg(m) == Varint(Len(m.data)) \o GetDataItems(m.data, 1, <<>>)
GetCFiltersMsg(m) == <<m.filter_type>> \o LEw(m.start_height, 4) \o Rev(m.stop_hash)      \* also getcfheaders
GetCFCheckptMsg(m) == <<m.filter_type>> \o Rev(m.stop_hash)
Header(h) == LEw(h.version, 4) \o Rev(h.prev_block) \o Rev(h.merkle_root) \o LEw(h.timestamp, 4) \o h.bits \o h.nonce
ParseHeader(b) == [version |-> Strip(Slice(b, 1, 4)), prev_block |-> Rev(Slice(b, 5, 36)), merkle_root |-> Rev(Slice(b, 37, 68)),
                   timestamp |-> Strip(Slice(b, 69, 72)), bits |-> Slice(b, 73, 76), nonce |-> Slice(b, 77, 80)]
RECURSIVE HeadersBody(_, _, _)
HeadersBody(hs, i, acc) == IF i > Len(hs) THEN acc ELSE HeadersBody(hs, i + 1, acc \o Header(hs[i]) \o <<0>>)
HeadersMsg(hs) == Varint(Len(hs)) \o HeadersBody(hs, 1, <<>>)
CFilterMsg(m) == <<m.filter_type>> \o Rev(m.block_hash) \o VarStr(m.filter_bytes)
RECURSIVE Cat32(_, _, _)
Cat32(xs, i, acc) == IF i > Len(xs) THEN acc ELSE Cat32(xs, i + 1, acc \o xs[i])
CFHeadersMsg(m) == <<m.filter_type>> \o Rev(m.stop_hash) \o m.previous_filter_header \o Varint(Len(m.filter_hashes)) \o Cat32(m.filter_hashes, 1, <<>>)
CFCheckptMsg(m) == <<m.filter_type>> \o Rev(m.stop_hash) \o Varint(Len(m.filter_headers)) \o Cat32(m.filter_headers, 1, <<>>)
\* filter header chain: header_i = hash256(filter_hash_i || header_{i-1})
RECURSIVE FilterChain(_, _, _, _)
FilterChain(ho, hashes, i, cur) == IF i > Len(hashes) THEN cur ELSE FilterChain(ho, hashes, i + 1, HashIn(ho, "hash256", hashes[i] \o cur))
====================================================================================
