INIT Init
NEXT Next
