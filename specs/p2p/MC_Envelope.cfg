SPECIFICATION Spec
INVARIANT RoundTrip
INVARIANT AcceptedIsHonest
INVARIANT TruncatedRejected
PROPERTY Progress
