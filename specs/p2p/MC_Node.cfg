SPECIFICATION Spec
INVARIANT InvReply
INVARIANT InvFirst
INVARIANT InvEOF
INVARIANT InvFiltered
INVARIANT InvBounds
INVARIANT InvFinal
PROPERTY Terminates
PROPERTY Monotone
