---------------------------------- MODULE NodeCases ----------------------------------
(* Binding for the SimpleNode machine.                                                    *)
(*  mode "table":  TLC exports Outcome(op, script) for every script up to $MAXIN over the *)
(*                 model's universe (replayed into the real SimpleNode by the harness);   *)
(*  mode "cases":  runs recorded from the real SimpleNode on longer random scripts are    *)
(*                 decided by TLC: the recorded outcome must be the machine's Outcome.    *)
EXTENDS Node, CaseIO
ToMsg(j) == M(j.cmd, j.n, j.ok, j.pr)
ToOp(j) == Op(j.kind, {j.want[k] : k \in 1..Len(j.want)}, j.blocks)
ToSent(j) == S(j.cmd, j.n, j.pr)
Why(c) ==
  LET o == Outcome(ToOp(c.op), [k \in 1..Len(c.inbox) |-> ToMsg(c.inbox[k])])
      sent == [k \in 1..Len(c.sent) |-> ToSent(c.sent[k])] IN
  IF o.status # c.status THEN "status:" \o o.status \o "-expected"
  ELSE IF o.err # c.err THEN "error-kind:" \o o.err \o "-expected"
  ELSE IF o.sent # sent THEN "messages-sent"
  ELSE IF o.consumed # c.consumed THEN "envelopes-consumed"
  ELSE IF o.status = "returned" /\ c.op.kind # "filtered" /\ o.ret # ToMsg(c.ret) THEN "returned-message"
  ELSE IF o.status = "returned" /\ c.op.kind = "filtered" /\ o.results # c.results THEN "filtered-results"
  ELSE ""
VARIABLES i, bad
Init == i = 1 /\ bad = <<>>
Next == /\ i <= NCases /\ i' = i + 1
        /\ bad' = LET w == Why(Cases[i]) IN IF w = "" THEN bad ELSE Append(bad, [id |-> Cases[i].id, why |-> w])
Fin == (i = NCases + 1) => JsonSerialize(IOEnv.OUT, bad)
=======================================================================================
