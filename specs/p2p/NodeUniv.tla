---------------------------------- MODULE NodeUniv -----------------------------------
(* The bounded universe shared by MC_Node (model checking) and NodeTable (exported outcomes). *)
EXTENDS Node, IOUtils, Json
MaxIn == atoi(IOEnv.MAXIN)
Univ == {Plain("version"), Plain("verack"), Plain("other"),
         M("ping", 1, TRUE, <<>>), M("ping", 2, TRUE, <<>>), M("pong", 1, TRUE, <<>>),
         M("merkleblock", 1, TRUE, <<>>), M("merkleblock", 1, TRUE, <<1>>), M("merkleblock", 1, TRUE, <<1, 2>>),
         M("merkleblock", 1, FALSE, <<1>>), M("merkleblock", 2, TRUE, <<3>>),
         M("tx", 1, TRUE, <<>>), M("tx", 2, TRUE, <<>>), M("tx", 3, TRUE, <<>>)}
Ops == {Op("handshake", {}, <<>>), Op("waitfor", {"verack"}, <<>>), Op("waitfor", {"verack", "pong"}, <<>>),
        Op("waitfor", {"ping", "pong"}, <<>>), Op("waitfor", {"tx", "merkleblock"}, <<>>),
        Op("filtered", {}, <<>>), Op("filtered", {}, <<1>>), Op("filtered", {}, <<1, 2>>), Op("filtered", {}, <<2, 1>>)}
Scripts == UNION {[1..k -> Univ] : k \in 0..MaxIn}

=======================================================================================
