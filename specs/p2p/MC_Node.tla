----------------------------------- MODULE MC_Node -----------------------------------
(* Bounded model of SimpleNode: every API call of a small catalogue against every peer   *)
(* script of at most MaxIn messages over a universe with two nonces, two blocks (valid,  *)
(* invalid and empty proofs) and three transactions.                                     *)
EXTENDS NodeUniv

VARIABLE st
Init == \E op \in Ops, inbox \in Scripts : st = Idle(op, inbox)
Start == EnStart(st) /\ st' = StartFn(st)
ReadEOF == EnReadEOF(st) /\ st' = ReadEOFFn(st)
ReadSkip == EnReadSkip(st) /\ st' = ReadSkipFn(st)
ReadDeliver == EnReadDeliver(st) /\ st' = ReadDeliverFn(st)
Next == Start \/ ReadEOF \/ ReadSkip \/ ReadDeliver
Spec == Init /\ [][Next]_st /\ WF_st(Next)

InvReply == ReplyDiscipline(st)
InvFirst == FirstAwaited(st)
InvEOF == EOFOnlyWhenStarved(st)
InvFiltered == FilteredSound(st)
InvBounds == NoProgressBeyondStream(st)
InvFinal == Done(st) => Outcome(st.op, st.inbox).status = st.status      \* the exported table is the machine's own outcome
Terminates == <>Done(st)                                                  \* every call returns or raises on a finite stream
\* monotone: what has been sent / collected is never retracted
Monotone == [][IsPrefix(st.sent, st'.sent) /\ IsPrefix(st.results, st'.results) /\ st'.pos >= st.pos]_st
=======================================================================================
