SPECIFICATION Spec
CONSTANTS
  Txs <- TxSet
  CheckParsed = FALSE
INVARIANT ReturnedHashesToId
INVARIANT CacheSound
CONSTRAINT Bound
