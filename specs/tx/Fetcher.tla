---------------------------------- MODULE Fetcher ----------------------------------
(* TxFetcher.fetch as a state machine (C04, last clause): a class-level cache and a       *)
(* server that may answer anything.  Written like the code: the answer is parsed (the     *)
(* parser stops at the end of the transaction and ignores what follows), the id is         *)
(* computed from the re-serialisation for segwit answers and from the raw answer for       *)
(* legacy ones, compared with the requested id, and only then cached.                      *)
(* Transactions are terms; Canon(t) says whether re-serialising the parsed object gives    *)
(* the bytes that were parsed (false for non-minimal push encodings).                      *)
EXTENDS Naturals, Sequences, FiniteSets, TLC

CONSTANTS Txs,        \* set of records [name, segwit, canon]
          CheckParsed \* TRUE: the repaired code also compares the parsed object's own id

Id(t) == [k |-> "id", name |-> t.name, extra |-> ""]                      \* id of the object the library returns (hash of its serialisation)
RawId(t, extra) == IF extra = "" /\ t.canon THEN Id(t) ELSE [k |-> "rawid", name |-> t.name, extra |-> extra]   \* hash256 of the raw answer
Responses == {[kind |-> "tx", tx |-> t, extra |-> e] : t \in Txs, e \in {"", "junk"}} \cup {[kind |-> "nonhex", tx |-> CHOOSE t \in Txs : TRUE, extra |-> ""]}
Ids == {Id(t) : t \in Txs} \cup {RawId(t, e) : t \in Txs, e \in {"", "junk"}}

VARIABLES cache, result
vars == <<cache, result>>
NoTx == CHOOSE t \in Txs : TRUE
Res(kind, id, t) == [kind |-> kind, id |-> id, tx |-> t]
Init == cache = <<>> /\ result = Res("none", Id(NoTx), NoTx)       \* cache: function from ids to tx, here a sequence of pairs
Lookup(c, id) == IF \E k \in 1..Len(c) : c[k][1] = id THEN (CHOOSE k \in 1..Len(c) : c[k][1] = id) ELSE 0
Put(c, id, t) == LET k == Lookup(c, id) IN IF k = 0 THEN Append(c, <<id, t>>) ELSE [c EXCEPT ![k] = <<id, t>>]

Fetch(id, fresh, resp) ==
  IF fresh \/ Lookup(cache, id) = 0
  THEN IF resp.kind = "nonhex" THEN result' = Res("error", id, NoTx) /\ UNCHANGED cache
       ELSE LET t == resp.tx
                computed == IF t.segwit THEN Id(t) ELSE RawId(t, resp.extra) IN
            IF computed # id \/ (CheckParsed /\ Id(t) # id)
            THEN result' = Res("error", id, NoTx) /\ UNCHANGED cache
            ELSE cache' = Put(cache, id, t) /\ result' = Res("tx", id, t)
  ELSE result' = Res("tx", id, cache[Lookup(cache, id)][2]) /\ UNCHANGED cache
Next == \E id \in Ids, fresh \in BOOLEAN, resp \in Responses : Fetch(id, fresh, resp)
Spec == Init /\ [][Next]_vars

\* the property: whatever the server answered, a returned / cached transaction hashes to the requested id
ReturnedHashesToId == result.kind = "tx" => Id(result.tx) = result.id
CacheSound == \A k \in 1..Len(cache) : Id(cache[k][2]) = cache[k][1]
Bound == Len(cache) <= 3
====================================================================================
