--------------------------------- MODULE C04Cases ---------------------------------
(* Binding B for C04: TLC decides recorded calls of the transaction codec.               *)
(*  "ser"   : fields of a Tx built through the API  -> bytes returned by serialize()      *)
(*  "parse" : canonical bytes -> fields of the object returned by Tx.parse, and the       *)
(*            bytes it re-serialises to                                                   *)
(*  "id"    : fields -> id()/hash() with the certified hash256 row of the legacy form     *)
(*  "script": commands -> raw_serialize() / Script.parse                                  *)
EXTENDS TxWire, HashOracle, CaseIO

NormCmd(c) == IF c.op = -1 /\ c.d = <<>> THEN [op |-> 0, d |-> <<>>] ELSE c
NormScript(cs) == [k \in 1..Len(cs) |-> NormCmd(cs[k])]
NormTx(t) == [t EXCEPT !.ins = [k \in 1..Len(t.ins) |-> [t.ins[k] EXCEPT !.script = NormScript(t.ins[k].script)]],
                       !.outs = [k \in 1..Len(t.outs) |-> [t.outs[k] EXCEPT !.script = NormScript(t.outs[k].script)]]]
NoWit(t) == [t EXCEPT !.ins = [k \in 1..Len(t.ins) |-> [t.ins[k] EXCEPT !.wit = <<>>]]]
Observable(t) == IF t.segwit THEN t ELSE NoWit(t)

WhySer(c) == IF c.res # "ok" THEN "serialize-raises"
             ELSE IF SerTx(c.tx) # c.bytes THEN "serialize-differs-from-wire-format" ELSE ""
WhyParse(c) ==
  LET p == ParseTx(c.bytes) IN
  IF ~p.ok THEN (IF c.res = "ok" THEN "parse-accepts-malformed" ELSE "")
  ELSE IF c.res # "ok" THEN "parse-raises-on-canonical-bytes"
  ELSE IF NormTx(c.tx) # p.tx THEN "parse-fields-differ"
  ELSE IF c.reser # Take(c.bytes, Len(c.bytes) - p.rest) THEN "reserialize-differs"
  ELSE ""
WhyId(c) == LET want == HashIn(HRows(c.hr), "hash256", SerLegacy(c.tx)) IN
            IF c.res # "ok" THEN "id-raises"
            ELSE IF want = NoHash THEN "id-not-hash256-of-legacy-serialisation"
            ELSE IF Rev(want) # c.txid THEN "id-differs" ELSE ""
WhyScript(c) ==
  LET raw == SerScriptRaw(c.cmds) IN
  IF c.res # "ok" THEN "script-serialize-raises"
  ELSE IF raw # c.raw THEN "script-serialize-differs"
  ELSE LET p == ParseScriptRaw(raw) IN
       IF ~p.ok THEN "spec-error"
       ELSE IF p.cmds # NormScript(c.parsed) THEN "script-parse-differs" ELSE ""

Why(c) == CASE c.kind = "ser" -> WhySer(c) [] c.kind = "parse" -> WhyParse(c) [] c.kind = "id" -> WhyId(c)
            [] c.kind = "script" -> WhyScript(c)

VARIABLES i, bad
Init == i = 1 /\ bad = <<>>
Next == /\ i <= NCases /\ i' = i + 1
        /\ bad' = LET w == Why(Cases[i]) IN IF w = "" THEN bad ELSE Append(bad, [id |-> Cases[i].id, why |-> w])
Fin == (i = NCases + 1) => JsonSerialize(IOEnv.OUT, bad)
====================================================================================
