---------------------------------- MODULE TxLaws ----------------------------------
(* C04, binding C: the transaction object as a state machine of API edits over a small   *)
(* but boundary-rich universe (push lengths 1, 75, 76, 255, 256, 520; empty/non-empty     *)
(* witnesses; 0..2 inputs/outputs), with the wire codec TxWire evaluated in every state.  *)
(*   RoundTrip        parse(serialize(tx)) = tx and consumes every byte                   *)
(*   SerParseSer      serialize(parse(bytes)) = bytes for the serialiser's own output     *)
(*   StripWitness     legacy serialisation = segwit serialisation without marker/witness  *)
(*   TxidWitnessFree  [] an edit of witness data / segwit flag leaves the txid unchanged   *)
(*   TxidBinding      [] an edit of any non-witness field changes the txid                *)
(* Hashes are free constructors, so the last two are statements about the serialisation.  *)
EXTENDS TxWire, HashOracle, IOUtils

P(n, b) == [op |-> -1, d |-> Rep(b, n)]
O(n) == [op |-> n, d |-> <<>>]
Scripts == << <<>>, <<O(0)>>, <<O(118), P(1, 7)>>, <<P(75, 1)>>, <<P(76, 2), O(172)>>, <<P(255, 3)>>, <<P(256, 4)>>,
              <<P(520, 5), P(2, 6)>>, <<O(81), P(33, 2), O(174)>> >>
Wits == << <<>>, << <<>> >>, << <<1, 2>>, <<>> >>, << Rep(9, 253) >> >>
TxidA == Rep(170, 32)
TxidB == <<1>> \o Rep(0, 31)
In(t, i, s, q, w) == [txid |-> t, idx |-> LE(i, 4), script |-> Scripts[s], seq |-> q, wit |-> Wits[w]]
Out(a, s) == [amount |-> a, script |-> Scripts[s]]
Ins == { In(TxidA, 0, 1, <<255, 255, 255, 255>>, 1), In(TxidB, 1, 2, <<254, 255, 255, 255>>, 2),
         In(TxidA, 1, 4, <<0, 0, 0, 0>>, 3), In(TxidB, 0, 5, <<5, 0, 64, 0>>, 4), In(TxidA, 2, 8, <<255, 255, 255, 255>>, 1),
         In(TxidA, 0, 9, <<255, 255, 255, 255>>, 3) }
Outs == { Out(Zeros(8), 1), Out(<<1>> \o Zeros(7), 3), Out(Rep(255, 8), 6), Out(<<0, 225, 245, 5, 0, 0, 0, 0>>, 7), Out(Zeros(8), 8) }
Versions == { <<1, 0, 0, 0>>, <<2, 0, 0, 0>>, <<255, 255, 255, 255>> }
Locktimes == { Zeros(4), <<0, 101, 205, 29>> }

VARIABLE tx
Init == tx = [version |-> <<1, 0, 0, 0>>, ins |-> <<>>, outs |-> <<>>, locktime |-> Zeros(4), segwit |-> TRUE]

HasWit(t) == \E k \in 1..Len(t.ins) : t.ins[k].wit # <<>>
AddInput == \E i \in Ins : Len(tx.ins) < 2 /\ tx' = [tx EXCEPT !.ins = Append(tx.ins, i)]
AddOutput == \E o \in Outs : Len(tx.outs) < 2 /\ tx' = [tx EXCEPT !.outs = Append(tx.outs, o)]
SetVersion == \E v \in Versions : tx' = [tx EXCEPT !.version = v]
SetLocktime == \E l \in Locktimes : tx' = [tx EXCEPT !.locktime = l]
SetSequence == \E k \in 1..Len(tx.ins) : \E q \in {<<0, 0, 0, 0>>, <<255, 255, 255, 255>>} : tx' = [tx EXCEPT !.ins[k].seq = q]
SetScriptSig == \E k \in 1..Len(tx.ins) : \E s \in 1..Len(Scripts) : tx' = [tx EXCEPT !.ins[k].script = Scripts[s]]
SetAmount == \E k \in 1..Len(tx.outs) : \E a \in {Zeros(8), Rep(255, 8)} : tx' = [tx EXCEPT !.outs[k].amount = a]
SetWitness == \E k \in 1..Len(tx.ins) : \E w \in 1..Len(Wits) : tx' = [tx EXCEPT !.ins[k].wit = Wits[w]]
SetSegwitFlag == tx' = [tx EXCEPT !.segwit = ~tx.segwit]
NonWitnessEdit == AddInput \/ AddOutput \/ SetVersion \/ SetLocktime \/ SetSequence \/ SetScriptSig \/ SetAmount
WitnessEdit == SetWitness \/ SetSegwitFlag
Next == NonWitnessEdit \/ WitnessEdit
Spec == Init /\ [][Next]_tx

\* a legacy serialisation with zero inputs is indistinguishable from the BIP144 marker (format ambiguity, not in scope)
Ambiguous(t) == ~t.segwit /\ Len(t.ins) = 0
NoWit(t) == [t EXCEPT !.ins = [k \in 1..Len(t.ins) |-> [t.ins[k] EXCEPT !.wit = <<>>]]]
Observable(t) == IF t.segwit THEN t ELSE NoWit(t)      \* what a serialisation can carry
Txid(t) == HashIn(HFree, "hash256", SerLegacy(t))

RoundTrip == ~Ambiguous(tx) => LET p == ParseTx(SerTx(tx)) IN p.ok /\ p.rest = 0 /\ p.tx = Observable(tx)
SerParseSer == ~Ambiguous(tx) => LET b == SerTx(tx) IN SerTx(ParseTx(b).tx) = b
StripWitness == SerLegacy(tx) = SerTx([NoWit(tx) EXCEPT !.segwit = FALSE])
SegwitLayout == LET l == SerLegacy(tx)  s == SerSegwit(tx) IN
                /\ Take(s, 4) = Take(l, 4) /\ s[5] = 0 /\ s[6] = 1
                /\ Len(s) = Len(l) + 2 + Len(SerWitsR(tx.ins, 1, <<>>))
TxidWitnessFree == [][WitnessEdit => Txid(tx') = Txid(tx)]_tx
TxidBinding == [][(NonWitnessEdit /\ tx' # tx) => Txid(tx') # Txid(tx)]_tx
MaxEdits == IF "MAXEDITS" \in DOMAIN IOEnv THEN atoi(IOEnv.MAXEDITS) ELSE 3
Bound == TLCGet("level") <= MaxEdits
====================================================================================
