SPECIFICATION Spec
INVARIANT RoundTrip
INVARIANT SerParseSer
INVARIANT StripWitness
INVARIANT SegwitLayout
PROPERTY TxidWitnessFree
PROPERTY TxidBinding
CONSTRAINT Bound
