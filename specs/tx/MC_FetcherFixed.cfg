SPECIFICATION Spec
CONSTANTS
  Txs <- TxSet
  CheckParsed = TRUE
INVARIANT ReturnedHashesToId
INVARIANT CacheSound
CONSTRAINT Bound
