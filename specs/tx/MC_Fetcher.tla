---- MODULE MC_Fetcher ----
EXTENDS Fetcher
TxSet == {[name |-> "L1", segwit |-> FALSE, canon |-> TRUE], [name |-> "L2", segwit |-> FALSE, canon |-> FALSE],
          [name |-> "S1", segwit |-> TRUE, canon |-> TRUE], [name |-> "S2", segwit |-> TRUE, canon |-> FALSE]}
====
