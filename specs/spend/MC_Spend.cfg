SPECIFICATION Spec
CONSTANTS
  Kind <- KindEnv
  M <- MEnv
  MaxItems <- MaxItemsEnv
INVARIANT OnlyAuthorisedAccepted
INVARIANT HonestAccepted
