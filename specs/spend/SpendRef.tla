--------------------------------- MODULE SpendRef ---------------------------------
(* Reference input verification (Bitcoin consensus: VerifyScript with P2SH / BIP141 /     *)
(* BIP143 / BIP341 / BIP342) on byte-level scripts, with cryptography given by oracles:   *)
(*   hash rows   - certified graph of hash160 / sha256 on the byte strings in play         *)
(*   sig rows    - every signature the scenario's key holders actually made:               *)
(*                 [sig, pub, alg, ht, changed] = signature bytes (with hash-type byte),    *)
(*                 the key it verifies under, the digest algorithm and hash type it was     *)
(*                 made with, and the set of transaction fields changed since it was made.  *)
(*                 A signature check succeeds iff such a row exists and none of the changed *)
(*                 fields is committed to by (alg, ht): ideal signatures -- nobody forges.  *)
(*   tap rows    - [cb, script, outkey]: control block cb with leaf script commits to       *)
(*                 output key outkey (with the parity stated in cb), by construction.       *)
(* Verdict: "accept" / "reject".  The property (C06) reads: honest spends are accepted by   *)
(* the library, and whatever the library accepts, this reference accepts (Authorised).      *)
EXTENDS Consensus, TxWire

\* ---- signature oracle ------------------------------------------------------------------
BaseT(ht) == ht % 32
AcpT(ht) == ht >= 128
Committed(alg, ht) ==
  {"version", "locktime", "scriptcode", "outpoint_self", "seq_self"}
  \cup (IF alg \in {"bip143", "bip341-key", "tapscript"} THEN {"amount_self"} ELSE {})
  \cup (IF ~AcpT(ht) THEN {"outpoint_other"} ELSE {})
  \cup (IF ~AcpT(ht) /\ BaseT(ht) \in {0, 1} THEN {"seq_other"} ELSE {})
  \cup (IF ~AcpT(ht) /\ alg \in {"bip341-key", "tapscript"} THEN {"seq_other", "amount_other"} ELSE {})
  \cup (IF BaseT(ht) \in {0, 1} THEN {"outputs"} ELSE {})
  \cup (IF alg = "tapscript" THEN {"leaf"} ELSE {})
  \cup (IF alg \in {"bip341-key", "tapscript"} THEN {"annex"} ELSE {})
RowOK(r) == \A k \in 1..Len(r.changed) : r.changed[k] \notin Committed(r.alg, r.ht)
SigCheck(env, sig, pub) ==
  \E k \in 1..Len(env.sigs) : LET r == env.sigs[k] IN r.sig = sig /\ r.pub = pub /\ r.alg = env.alg /\ RowOK(r)

\* ---- script runner with signature opcodes ------------------------------------------------
\* env = [alg, sigs, ctx]   (ctx as in Consensus, with the hash oracle)
SigOps == {172, 173, 174, 175, 186}
RECURSIVE MatchSigs(_, _, _, _, _)
MatchSigs(env, sigs, keys, i, k) ==          \* order-preserving greedy matching (CHECKMULTISIG)
  IF i > Len(sigs) THEN TRUE
  ELSE IF Len(sigs) - i > Len(keys) - k THEN FALSE
  ELSE IF sigs[i] # <<>> /\ SigCheck(env, sigs[i], keys[k]) THEN MatchSigs(env, sigs, keys, i + 1, k + 1)
  ELSE MatchSigs(env, sigs, keys, i, k + 1)
SigOpResult(env, op, st, alt) ==
  LET n == Len(st) IN
  IF op \in {172, 173} THEN
     IF n < 2 THEN Fail
     ELSE LET pub == Peek(st, 0)  sig == Peek(st, 1)  ok == sig # <<>> /\ SigCheck(env, sig, pub) IN
          IF env.alg = "tapscript" /\ (pub = <<>> \/ (sig # <<>> /\ ~ok)) THEN Fail
          ELSE IF op = 173 THEN (IF ok THEN Ok(PopN(st, 2), alt) ELSE Fail)
          ELSE Ok(Append(PopN(st, 2), BoolItem(ok)), alt)
  ELSE IF op \in {174, 175} THEN
     IF env.alg = "tapscript" \/ n < 1 \/ Len(Top(st)) > 4 THEN Fail
     ELSE LET nk == NumSmall(DecodeNum(Top(st))) IN
          IF nk < 0 \/ nk > 20 \/ n < nk + 2 \/ Len(Peek(st, nk + 1)) > 4 THEN Fail
          ELSE LET ns == NumSmall(DecodeNum(Peek(st, nk + 1))) IN
               IF ns < 0 \/ ns > nk \/ n < nk + ns + 3 THEN Fail
               ELSE LET keys == [j \in 1..nk |-> st[n - nk - 1 + j]]
                        sigs == [j \in 1..ns |-> st[n - nk - 1 - ns - 1 + j]]
                        ok == MatchSigs(env, sigs, keys, 1, 1)
                        rest == PopN(st, nk + ns + 3) IN
                    IF op = 175 THEN (IF ok THEN Ok(rest, alt) ELSE Fail)
                    ELSE Ok(Append(rest, BoolItem(ok)), alt)
  ELSE \* 186 OP_CHECKSIGADD (tapscript only)
     IF env.alg # "tapscript" \/ n < 3 THEN Fail
     ELSE LET pub == Peek(st, 0)  num == Peek(st, 1)  sig == Peek(st, 2) IN
          IF Len(num) > 4 \/ pub = <<>> THEN Fail
          ELSE IF sig = <<>> THEN Ok(Append(PopN(st, 3), EncodeNum(DecodeNum(num))), alt)
          ELSE IF ~SigCheck(env, sig, pub) THEN Fail
          ELSE Ok(Append(PopN(st, 3), EncodeNum(NumAdd(DecodeNum(num), NumInt(1)))), alt)

SStep(prog, env, s) ==
  IF s.pc <= Len(prog) /\ prog[s.pc].op \in SigOps /\ Executing(s.exec) THEN
     LET r == SigOpResult(env, prog[s.pc].op, s.st, s.alt) IN
     IF ~r.ok THEN [s EXCEPT !.status = "reject"] ELSE [s EXCEPT !.pc = s.pc + 1, !.st = r.st, !.alt = r.alt]
  ELSE IF s.pc > Len(prog) THEN [s EXCEPT !.status = IF s.exec # <<>> THEN "reject" ELSE "done"]
  ELSE StepState(prog, env.ctx, s)
RECURSIVE SRunR(_, _, _)
SRunR(prog, env, s) == IF s.status # "run" THEN s ELSE SRunR(prog, env, SStep(prog, env, s))
\* run a script on an initial stack; result [ok, st]
RunScript(prog, env, st0) ==
  LET f == SRunR(prog, env, [pc |-> 1, st |-> st0, alt |-> <<>>, exec |-> <<>>, status |-> "run"]) IN
  [ok |-> f.status = "done", st |-> f.st]
TrueTop(st) == st # <<>> /\ CastToBool(Top(st))
CleanTrue(st) == Len(st) = 1 /\ CastToBool(st[1])

\* ---- script classification ------------------------------------------------------------------
IsPush(c) == c.op = -1 \/ c.op = 0 \/ c.op = 79 \/ c.op \in 81..96
PushOnly(cs) == \A k \in 1..Len(cs) : IsPush(cs[k])
IsP2SH(cs) == Len(cs) = 3 /\ cs[1].op = 169 /\ cs[2].op = -1 /\ Len(cs[2].d) = 20 /\ cs[3].op = 135
WitVersion(cs) == IF cs[1].op = 0 THEN 0 ELSE cs[1].op - 80
IsWitnessProgram(cs) == Len(cs) = 2 /\ (cs[1].op = 0 \/ cs[1].op \in 81..96) /\ cs[2].op = -1
                        /\ Len(cs[2].d) >= 2 /\ Len(cs[2].d) <= 40
P2PKHScript(h) == << [op |-> 118, d |-> <<>>], [op |-> 169, d |-> <<>>], [op |-> -1, d |-> h],
                     [op |-> 136, d |-> <<>>], [op |-> 172, d |-> <<>>] >>

\* ---- witness programs (BIP141 / BIP341 / BIP342) -------------------------------------------
ValidTapHashType(b) == b \in {1, 2, 3, 129, 130, 131}
KeyPathOK(env, sig, outkey) ==
  /\ (Len(sig) = 64 \/ (Len(sig) = 65 /\ ValidTapHashType(sig[65])))
  /\ SigCheck([env EXCEPT !.alg = "bip341-key"], sig, outkey)
TapCommits(env, cb, script, outkey) ==
  \E k \in 1..Len(env.tap) : env.tap[k].cb = cb /\ env.tap[k].script = script /\ env.tap[k].outkey = outkey
ExecWitness(env, ver, prog, wit, viaP2SH) ==
  IF ver = 0 /\ Len(prog) = 20 THEN
     /\ Len(wit) = 2
     /\ LET r == RunScript(P2PKHScript(prog), [env EXCEPT !.alg = "bip143"], wit) IN r.ok /\ CleanTrue(r.st)
  ELSE IF ver = 0 /\ Len(prog) = 32 THEN
     /\ Len(wit) >= 1
     /\ HashIn(env.ctx.ho, "sha256", wit[Len(wit)]) = prog
     /\ LET p == ParseScriptRaw(wit[Len(wit)]) IN
        /\ p.ok
        /\ LET r == RunScript(p.cmds, [env EXCEPT !.alg = "bip143"], SubSeq(wit, 1, Len(wit) - 1)) IN r.ok /\ CleanTrue(r.st)
  ELSE IF ver = 0 THEN FALSE
  ELSE IF ver = 1 /\ Len(prog) = 32 /\ ~viaP2SH THEN
     /\ Len(wit) >= 1
     /\ LET w == IF Len(wit) >= 2 /\ wit[Len(wit)] # <<>> /\ wit[Len(wit)][1] = 80 THEN SubSeq(wit, 1, Len(wit) - 1) ELSE wit IN
        IF Len(w) = 1 THEN KeyPathOK(env, w[1], prog)
        ELSE LET cb == w[Len(w)]  script == w[Len(w) - 1] IN
             /\ Len(cb) >= 33 /\ Len(cb) <= 33 + 128 * 32 /\ (Len(cb) - 33) % 32 = 0
             /\ TapCommits(env, cb, script, prog)
             /\ IF (cb[1] \div 2) * 2 = 192 THEN
                   LET p == ParseScriptRaw(script) IN
                   /\ p.ok
                   /\ LET r == RunScript(p.cmds, [env EXCEPT !.alg = "tapscript"], SubSeq(w, 1, Len(w) - 2)) IN r.ok /\ CleanTrue(r.st)
                ELSE TRUE          \* unknown leaf version: unencumbered (never generated by the library)
  ELSE TRUE                        \* future witness versions: unencumbered (never generated by the library)

\* ---- VerifyScript ------------------------------------------------------------------------------
\* ParseScriptRaw from TxWire is needed: SpendRef is used through a module that also EXTENDS TxWire
VerifySpend(env, ssig, spk, wit) ==
  IF IsWitnessProgram(spk) THEN
     ssig = <<>> /\ ExecWitness(env, WitVersion(spk), spk[2].d, wit, FALSE)
  ELSE
     LET e0 == [env EXCEPT !.alg = "legacy"]
         r1 == RunScript(ssig, e0, <<>>) IN
     /\ r1.ok
     /\ LET r2 == RunScript(spk, e0, r1.st) IN
        /\ r2.ok /\ TrueTop(r2.st)
        /\ IF IsP2SH(spk) THEN
              /\ PushOnly(ssig)
              /\ r1.st # <<>>
              /\ LET p == ParseScriptRaw(Top(r1.st)) IN
                 /\ p.ok
                 /\ IF IsWitnessProgram(p.cmds) THEN
                       /\ Len(ssig) = 1          \* exactly one push: the redeem script
                       /\ ExecWitness(env, WitVersion(p.cmds), p.cmds[2].d, wit, TRUE)
                    ELSE LET r3 == RunScript(p.cmds, e0, Pop(r1.st)) IN r3.ok /\ TrueTop(r3.st)
           ELSE TRUE
====================================================================================
