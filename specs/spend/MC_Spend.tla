---- MODULE MC_Spend ----
EXTENDS SpendMC
KindEnv == IOEnv.KIND
MEnv == atoi(IOEnv.M)
MaxItemsEnv == atoi(IOEnv.MAXITEMS)
ASSUME ("EXPORT" \in DOMAIN IOEnv /\ IOEnv.EXPORT = "1") => Export
====
