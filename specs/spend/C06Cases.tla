--------------------------------- MODULE C06Cases ---------------------------------
(* Binding B for C06: every concrete spend (honest or mutated) that the harness built with *)
(* real keys through the library is decided by the reference SpendRef with by-construction  *)
(* crypto oracles; the library's verify_input verdict is compared:                           *)
(*    honest          => library accepts (and the reference accepts: oracle sanity)          *)
(*    library accepts => reference accepts   (nothing unauthorised is ever reported valid)   *)
EXTENDS SpendRef, CaseIO

EnvOf(c) == [alg |-> "legacy", sigs |-> c.sigs, tap |-> c.tap,
             ctx |-> [locktime |-> Strip(c.locktime), sequence |-> Strip(c.sequence), version |-> Strip(c.version), ho |-> HRows(c.hr)]]
\* authorisation as the property states it, independent of script semantics: at least m distinct script keys have
\* a signature in the spend that is valid for the current transaction, and the committed items (public key,
\* redeem / witness / leaf script, control block) are the ones the output commits to
Present(c) == {c.ssig[k].d : k \in 1..Len(c.ssig)} \cup {c.wit[k] : k \in 1..Len(c.wit)}
ValidKeys(c) == {c.sigs[k].pub : k \in {j \in 1..Len(c.sigs) : c.sigs[j].scriptkey /\ RowOK(c.sigs[j]) /\ c.sigs[j].sig \in Present(c)}}
Authorised(c) == Cardinality(ValidKeys(c)) >= c.m /\ \A k \in 1..Len(c.required) : c.required[k] \in Present(c)
Why(c) ==
  LET ref == VerifySpend(EnvOf(c), c.ssig, c.spk, c.wit) IN
  IF c.honest /\ ~ref THEN "oracle-sanity:reference-rejects-honest-spend"
  ELSE IF ref /\ ~Authorised(c) THEN "oracle-sanity:reference-accepts-unauthorised-spend"
  ELSE IF c.honest /\ c.verdict # "accept" THEN "honest-spend-not-accepted"
  ELSE IF c.verdict = "accept" /\ ~Authorised(c) THEN "accepts-unauthorised-spend"
  ELSE ""
VARIABLES i, bad
Init == i = 1 /\ bad = <<>>
Next == /\ i <= NCases /\ i' = i + 1
        /\ bad' = LET w == Why(Cases[i]) IN IF w = "" THEN bad ELSE Append(bad, [id |-> Cases[i].id, why |-> w])
Fin == (i = NCases + 1) => JsonSerialize(IOEnv.OUT, bad)
====================================================================================
