---------------------------------- MODULE SpendMC ----------------------------------
(* C06, binding C (+ the table for binding A): a bounded adversary assembles a spend of   *)
(* a standard output item by item from an alphabet of everything it could know -- valid     *)
(* signatures by some script keys (A, B), a valid signature by a foreign key (F), public    *)
(* keys, the committed scripts, junk, small constants -- in the scriptSig and/or witness.    *)
(* TLC explores every such spend up to MaxItems items and checks that the reference         *)
(* verifier SpendRef accepts only authorised spends:                                         *)
(*     Accept => at least m distinct script keys have their valid signature in the spend     *)
(*               /\ the committed script / key is the one the output commits to              *)
(* Cryptography is ideal (oracle rows); atoms are toy byte strings.  The explored spends     *)
(* and the reference verdicts are exported; the harness concretises every atom with real     *)
(* keys/signatures/scripts and replays each spend through Tx.verify_input.                   *)
EXTENDS SpendRef, Json

CONSTANTS Kind, M, MaxItems       \* Kind in {"p2pkh","p2sh","p2wpkh","p2wsh","p2sh-p2wpkh","p2sh-p2wsh","p2tr-key","p2tr-multi"}

\* ---- atoms -----------------------------------------------------------------------------------
PubA == <<2, 101>>   PubB == <<2, 102>>   PubF == <<2, 103>>
XA == Rep(11, 32)    XB == Rep(12, 32)    XF == Rep(13, 32)    OutKey == Rep(14, 32)
Schnorr == Kind \in {"p2tr-key", "p2tr-multi"}
SigOf(k) == IF Schnorr THEN Rep(200 + k, 64) ELSE <<48, 200 + k, 1>>        \* k: 1 = A, 2 = B, 3 = F, 4 = output key
Junk == <<9, 9, 9>>
Push(d) == [op |-> -1, d |-> d]
Op(n) == [op |-> n, d |-> <<>>]
Multi == << Op(80 + M), Push(PubA), Push(PubB), Op(82), Op(174) >>
MultiRaw == SerScriptRaw(Multi)
H20(x) == Rep(x, 20)
H32(x) == Rep(x, 32)
WpkhProg == << Op(0), Push(H20(31)) >>          \* OP_0 <hash160(PubA)>
WshProg == << Op(0), Push(H32(32)) >>           \* OP_0 <sha256(MultiRaw)>
TapLeafScript == << Push(XA), Op(172), Push(XB), Op(186), Op(82), Op(135) >>      \* 2-of-2 CHECKSIGADD leaf
TapLeafRaw == SerScriptRaw(TapLeafScript)
CtrlBlock == <<192>> \o Rep(15, 32)
HashRowsToy == << [fn |-> "hash160", in |-> PubA, out |-> H20(31)],
                  [fn |-> "hash160", in |-> MultiRaw, out |-> H20(33)],
                  [fn |-> "sha256", in |-> MultiRaw, out |-> H32(32)],
                  [fn |-> "hash160", in |-> SerScriptRaw(WpkhProg), out |-> H20(34)],
                  [fn |-> "hash160", in |-> SerScriptRaw(WshProg), out |-> H20(35)] >>
AlgOf == CASE Kind \in {"p2pkh", "p2sh"} -> "legacy"
           [] Kind \in {"p2wpkh", "p2wsh", "p2sh-p2wpkh", "p2sh-p2wsh"} -> "bip143"
           [] Kind = "p2tr-key" -> "bip341-key" [] Kind = "p2tr-multi" -> "tapscript"
KeyBytes(k) == IF Schnorr THEN (CASE k = 1 -> XA [] k = 2 -> XB [] k = 3 -> XF [] k = 4 -> OutKey)
               ELSE (CASE k = 1 -> PubA [] k = 2 -> PubB [] k = 3 -> PubF [] k = 4 -> PubF)
SigRows == [k \in 1..4 |-> [sig |-> SigOf(k), pub |-> KeyBytes(k), alg |-> AlgOf, ht |-> IF Schnorr THEN 0 ELSE 1, changed |-> <<>>]]
Env == [alg |-> "legacy", sigs |-> SigRows, tap |-> << [cb |-> CtrlBlock, script |-> TapLeafRaw, outkey |-> OutKey] >>,
        ctx |-> [locktime |-> <<>>, sequence |-> <<>>, version |-> <<2>>, ho |-> HRows(HashRowsToy)]]

Spk == CASE Kind = "p2pkh" -> P2PKHScript(H20(31))
         [] Kind = "p2sh" -> << Op(169), Push(H20(33)), Op(135) >>
         [] Kind = "p2wpkh" -> WpkhProg
         [] Kind = "p2wsh" -> WshProg
         [] Kind = "p2sh-p2wpkh" -> << Op(169), Push(H20(34)), Op(135) >>
         [] Kind = "p2sh-p2wsh" -> << Op(169), Push(H20(35)), Op(135) >>
         [] Kind \in {"p2tr-key", "p2tr-multi"} -> << Op(81), Push(OutKey) >>

\* ---- the adversary's alphabets (name -> scriptSig command / witness item) ---------------------
SigNames == {"sigA", "sigB", "sigF"} \cup (IF Kind = "p2tr-key" THEN {"sigOut"} ELSE {})
SsigNames == CASE Kind = "p2pkh" -> SigNames \cup {"pubA", "pubF", "op1", "junk"}
               [] Kind = "p2sh" -> SigNames \cup {"op0", "op1", "junk", "redeem"}
               [] Kind \in {"p2sh-p2wpkh", "p2sh-p2wsh"} -> {"op1", "junk", "redeem"}
               [] OTHER -> {"op1", "junk"}
WitNames == CASE Kind \in {"p2wpkh", "p2sh-p2wpkh"} -> SigNames \cup {"pubA", "pubF", "junk", "empty"}
              [] Kind \in {"p2wsh", "p2sh-p2wsh"} -> SigNames \cup {"empty", "one", "junk", "wscript"}
              [] Kind = "p2tr-key" -> SigNames \cup {"junk", "annex", "empty"}
              [] Kind = "p2tr-multi" -> SigNames \cup {"empty", "junk", "leaf", "cb", "annex"}
              [] OTHER -> {}
Bytes(name) == CASE name = "sigA" -> SigOf(1) [] name = "sigB" -> SigOf(2) [] name = "sigF" -> SigOf(3) [] name = "sigOut" -> SigOf(4)
                 [] name = "pubA" -> PubA [] name = "pubF" -> PubF [] name = "junk" -> Junk [] name = "empty" -> <<>>
                 [] name = "one" -> <<1>> [] name = "wscript" -> MultiRaw [] name = "annex" -> <<80, 7>>
                 [] name = "leaf" -> TapLeafRaw [] name = "cb" -> CtrlBlock
                 [] name = "redeem" -> (CASE Kind = "p2sh" -> MultiRaw [] Kind = "p2sh-p2wpkh" -> SerScriptRaw(WpkhProg)
                                          [] Kind = "p2sh-p2wsh" -> SerScriptRaw(WshProg))
Cmd(name) == CASE name = "op0" -> Op(0) [] name = "op1" -> Op(81) [] OTHER -> Push(Bytes(name))
CmdSeq(ns) == [k \in 1..Len(ns) |-> Cmd(ns[k])]
ItemSeq(ns) == [k \in 1..Len(ns) |-> Bytes(ns[k])]

VARIABLES ssig, wit          \* sequences of atom names
vars == <<ssig, wit>>
Init == ssig = <<>> /\ wit = <<>>
MaxSsig == IF WitNames = {} THEN MaxItems ELSE 2
AddSsig == \E n \in SsigNames : Len(ssig) < MaxSsig /\ ssig' = Append(ssig, n) /\ UNCHANGED wit
AddWit == \E n \in WitNames : Len(wit) < MaxItems /\ wit' = Append(wit, n) /\ UNCHANGED ssig
Next == AddSsig \/ AddWit
Spec == Init /\ [][Next]_vars

Accept == VerifySpend(Env, CmdSeq(ssig), Spk, ItemSeq(wit))

\* ---- authorisation, stated independently of any script semantics ----------------------------
Items == {ssig[k] : k \in 1..Len(ssig)} \cup {wit[k] : k \in 1..Len(wit)}
ScriptKeySigs == Items \cap {"sigA", "sigB"}
Need == CASE Kind \in {"p2pkh", "p2wpkh", "p2sh-p2wpkh"} -> {"sigA"} \subseteq Items /\ "pubA" \in Items
          [] Kind \in {"p2sh", "p2wsh", "p2sh-p2wsh"} -> Cardinality(ScriptKeySigs) >= M
          [] Kind = "p2tr-key" -> "sigOut" \in Items
          [] Kind = "p2tr-multi" -> Cardinality(ScriptKeySigs) >= 2 /\ "leaf" \in Items /\ "cb" \in Items
ScriptSigRule == CASE Kind \in {"p2wpkh", "p2wsh", "p2tr-key", "p2tr-multi"} -> ssig = <<>>
                   [] Kind \in {"p2sh-p2wpkh", "p2sh-p2wsh"} -> ssig = <<"redeem">>
                   [] Kind = "p2sh" -> ssig # <<>> /\ ssig[Len(ssig)] = "redeem"
                   [] OTHER -> TRUE
Authorised == Need /\ ScriptSigRule
OnlyAuthorisedAccepted == Accept => Authorised
\* the honest spend is accepted (the reference is not vacuously strict)
Honest == CASE Kind = "p2pkh" -> ssig = <<"sigA", "pubA">> /\ wit = <<>>
            [] Kind = "p2sh" -> ssig = (IF M = 1 THEN <<"op0", "sigA", "redeem">> ELSE <<"op0", "sigA", "sigB", "redeem">>) /\ wit = <<>>
            [] Kind = "p2wpkh" -> ssig = <<>> /\ wit = <<"sigA", "pubA">>
            [] Kind = "p2sh-p2wpkh" -> ssig = <<"redeem">> /\ wit = <<"sigA", "pubA">>
            [] Kind = "p2wsh" -> ssig = <<>> /\ wit = (IF M = 1 THEN <<"empty", "sigB", "wscript">> ELSE <<"empty", "sigA", "sigB", "wscript">>)
            [] Kind = "p2sh-p2wsh" -> ssig = <<"redeem">> /\ wit = (IF M = 1 THEN <<"empty", "sigA", "wscript">> ELSE <<"empty", "sigA", "sigB", "wscript">>)
            [] Kind = "p2tr-key" -> ssig = <<>> /\ wit = <<"sigOut">>
            [] Kind = "p2tr-multi" -> ssig = <<>> /\ wit = <<"sigB", "sigA", "leaf", "cb">>
HonestAccepted == Honest => Accept

\* ---- table export (binding A): every explored spend with the reference verdict --------------
RECURSIVE Seqs(_, _)
Seqs(S, n) == IF n = 0 THEN {<<>>} ELSE LET P == Seqs(S, n - 1) IN P \cup {Append(p, x) : p \in {q \in P : Len(q) = n - 1}, x \in S}
AllSpends == {<<s, w>> : s \in Seqs(SsigNames, MaxSsig), w \in (IF WitNames = {} THEN {<<>>} ELSE Seqs(WitNames, MaxItems))}
NeedOf(its) == LET sk == its \cap {"sigA", "sigB"} IN
  CASE Kind \in {"p2pkh", "p2wpkh", "p2sh-p2wpkh"} -> "sigA" \in its /\ "pubA" \in its
    [] Kind \in {"p2sh", "p2wsh", "p2sh-p2wsh"} -> Cardinality(sk) >= M
    [] Kind = "p2tr-key" -> "sigOut" \in its
    [] Kind = "p2tr-multi" -> Cardinality(sk) >= 2 /\ "leaf" \in its /\ "cb" \in its
Row(sw) == [ssig |-> sw[1], wit |-> sw[2], accept |-> VerifySpend(Env, CmdSeq(sw[1]), Spk, ItemSeq(sw[2])),
            need |-> NeedOf({sw[1][k] : k \in 1..Len(sw[1])} \cup {sw[2][k] : k \in 1..Len(sw[2])})]
Export == JsonSerialize(IOEnv.OUT, SetToSeq({Row(sw) : sw \in AllSpends}))
====================================================================================
