SPECIFICATION Spec
INVARIANT PathRecomputesRoot
INVARIANT SiblingOrderIrrelevant
INVARIANT ControlBlockRoundTrip
INVARIANT AnyAlterationBreaks
