----------------------------------- MODULE TapTree -----------------------------------
(* Taproot script trees (BIP341) for C12: leaf / branch hashes, merkle paths, control blocks *)
(* and the output-key tweak in the discrete-log representation.                                *)
(* A tree is a leaf  [leaf |-> TRUE, ver, script]  or a branch  [leaf |-> FALSE, l, r].        *)
EXTENDS BN, HashOracle, TxWire

LeafHash(ho, t) == HashIn(ho, "tag:TapLeaf", <<t.ver>> \o VarStr(t.script))
BranchOf(ho, a, b) == IF LexLt(a, b) THEN HashIn(ho, "tag:TapBranch", a \o b) ELSE HashIn(ho, "tag:TapBranch", b \o a)
RECURSIVE TreeHash(_, _)
TreeHash(ho, t) == IF t.leaf THEN LeafHash(ho, t) ELSE BranchOf(ho, TreeHash(ho, t.l), TreeHash(ho, t.r))
RECURSIVE Leaves(_)
Leaves(t) == IF t.leaf THEN <<t>> ELSE Leaves(t.l) \o Leaves(t.r)
InTree(t, lf) == \E k \in 1..Len(Leaves(t)) : Leaves(t)[k] = lf
\* merkle path (sibling hashes from the leaf up to the root)
RECURSIVE PathHashes(_, _, _)
PathHashes(ho, t, lf) == IF t.leaf THEN <<>>
  ELSE IF InTree(t.l, lf) THEN PathHashes(ho, t.l, lf) \o <<TreeHash(ho, t.r)>> ELSE PathHashes(ho, t.r, lf) \o <<TreeHash(ho, t.l)>>
RECURSIVE RootFromPath(_, _, _, _)
RootFromPath(ho, cur, path, i) == IF i > Len(path) THEN cur ELSE RootFromPath(ho, BranchOf(ho, cur, path[i]), path, i + 1)
RECURSIVE Cat(_, _, _)
Cat(xs, i, acc) == IF i > Len(xs) THEN acc ELSE Cat(xs, i + 1, acc \o xs[i])
ControlBlockBytes(ver, parity, xonly, path) == <<ver + parity>> \o xonly \o Cat(path, 1, <<>>)
ParseControlBlock(b) == IF Len(b) < 33 \/ (Len(b) - 33) % 32 # 0 \/ Len(b) > 33 + 128 * 32 THEN [ok |-> FALSE]
  ELSE [ok |-> TRUE, ver |-> (b[1] \div 2) * 2, parity |-> b[1] % 2, xonly |-> Slice(b, 2, 33), path |-> [k \in 1..((Len(b) - 33) \div 32) |-> Slice(b, 34 + 32 * (k - 1), 33 + 32 * k)]]
Mirror(t) == IF t.leaf THEN t ELSE [leaf |-> FALSE, l |-> t.r, r |-> t.l]
RECURSIVE DeepMirror(_)
DeepMirror(t) == IF t.leaf THEN t ELSE [leaf |-> FALSE, l |-> DeepMirror(t.r), r |-> DeepMirror(t.l)]
====================================================================================
