---------------------------------- MODULE MC_TapTree ----------------------------------
(* C12, binding C: every binary tree shape up to MaxLeaves leaves (distinct leaf scripts,      *)
(* free-constructor hashes): for every leaf the merkle path recomputes the tree hash, the       *)
(* control block serialises and parses back identically, mirroring any subtrees leaves the       *)
(* root unchanged, and altering the leaf script, its version or any path hash changes the root.   *)
(* Trees are grown as a state machine: action Split replaces a leaf by a branch of two leaves.    *)
EXTENDS TapTree, IOUtils, TLC

MaxLeaves == atoi(IOEnv.MAXLEAVES)
Lf(k) == [leaf |-> TRUE, ver |-> 192, script |-> <<32, k, 172>>]
VARIABLES tree, n
vars == <<tree, n>>
Init == tree = Lf(1) /\ n = 1
RECURSIVE Subst(_, _, _)
Subst(t, target, repl) == IF t = target THEN repl ELSE IF t.leaf THEN t ELSE [leaf |-> FALSE, l |-> Subst(t.l, target, repl), r |-> Subst(t.r, target, repl)]
Split == /\ n < MaxLeaves
         /\ \E k \in 1..Len(Leaves(tree)) : \E left \in BOOLEAN :
              LET old == Leaves(tree)[k]  new == Lf(n + 1) IN
              tree' = Subst(tree, old, IF left THEN [leaf |-> FALSE, l |-> new, r |-> old] ELSE [leaf |-> FALSE, l |-> old, r |-> new])
         /\ n' = n + 1
Spec == Init /\ [][Split]_vars
Root == TreeHash(HFree, tree)
PathRecomputesRoot == \A k \in 1..Len(Leaves(tree)) : LET lf == Leaves(tree)[k] IN RootFromPath(HFree, LeafHash(HFree, lf), PathHashes(HFree, tree, lf), 1) = Root
SiblingOrderIrrelevant == TreeHash(HFree, DeepMirror(tree)) = Root /\ TreeHash(HFree, Mirror(tree)) = Root
ControlBlockRoundTrip == \A k \in 1..Len(Leaves(tree)) : \A par \in {0, 1} :
   LET lf == Leaves(tree)[k]  x == Rep(7, 32)  path == PathHashes(HFree, tree, lf)
       \* free-constructor digests are not 32 bytes long: the byte layout is checked on 32-byte stand-ins of the path entries
       p32 == [j \in 1..Len(path) |-> Rep(j, 32)]
       b == ControlBlockBytes(lf.ver, par, x, p32)  p == ParseControlBlock(b) IN
   p.ok /\ p.ver = lf.ver /\ p.parity = par /\ p.xonly = x /\ p.path = p32
AnyAlterationBreaks == \A k \in 1..Len(Leaves(tree)) :
   LET lf == Leaves(tree)[k]  path == PathHashes(HFree, tree, lf)  lh == LeafHash(HFree, lf) IN
   /\ RootFromPath(HFree, LeafHash(HFree, [lf EXCEPT !.script = <<32, 99, 172>>]), path, 1) # Root
   /\ RootFromPath(HFree, LeafHash(HFree, [lf EXCEPT !.ver = 194]), path, 1) # Root
   /\ \A j \in 1..Len(path) : RootFromPath(HFree, lh, [path EXCEPT ![j] = <<5, 5>>], 1) # Root
   /\ (path # <<>> => RootFromPath(HFree, lh, SubSeq(path, 1, Len(path) - 1), 1) # Root)
====================================================================================
