--------------------------------- MODULE C12Cases ---------------------------------
(* Binding B for C12: real script trees built with TapLeaf / TapBranch and random internal   *)
(* keys.  Every tagged-hash call the library made is recorded and certified; TLC recomputes   *)
(* the tree hash bottom-up from those rows (a hash the specification needs but the library    *)
(* never computed has no row), the merkle path and control block bytes of every leaf, and the  *)
(* tweak algebra in the discrete-log representation: t = int(TapTweak(x(P) || root)),           *)
(* q = (d_even + t) mod n with a certificate; the output point and its parity are the           *)
(* library's q*G (validated by C03).                                                            *)
EXTENDS TapTree, CaseIO
NOrd == <<65, 65, 54, 208, 140, 94, 210, 191, 59, 160, 72, 175, 230, 220, 174, 186, 254, 255, 255, 255, 255, 255, 255, 255,
          255, 255, 255, 255, 255, 255, 255, 255>>
Dec(x, d) == IF Lt(Strip(d.r), NOrd) /\ Eq(x, Add(Mul(d.q, NOrd), d.r)) THEN Strip(d.r) ELSE <<-1>>
BE32(x) == ToBE(x, 32)
HO(c) == HRows(c.hr)
\* trees arrive as nested records with field "leaf"
WhyTree(c) ==
  LET root == TreeHash(HO(c), c.tree)
      deven == IF c.p_odd THEN Sub(NOrd, c.d) ELSE Strip(c.d)
      t == HashIn(HO(c), "tag:TapTweak", c.px \o root)
      q == Dec(Add(deven, FromBE(t)), c.dq) IN
  IF root = NoHash \/ \E k \in 1..Len(root) : root[k] < 0 THEN "tree-hash-not-computed-as-specified"
  ELSE IF c.root # root THEN "merkle-root-differs"
  ELSE IF c.mirror_root # root THEN "sibling-order-changes-root"
  ELSE IF t = NoHash THEN "tweak-hash-input"
  ELSE IF q = <<-1>> THEN "bad-certificate"
  ELSE IF ~Eq(c.tweaked_secret, q) THEN "tweaked-private-key-is-not-dlog-of-output-key"
  ELSE IF c.out_x # c.qg_x \/ c.out_parity # c.qg_parity THEN "output-key-is-not-even(P)+tG"
  ELSE IF c.tweaked_pub_x # c.qg_x THEN "tweaked-private-key-point-differs-from-output-key"
  ELSE ""
WhyLeaf(c) ==
  LET path == PathHashes(HO(c), c.tree, c.lf)
      cb == ControlBlockBytes(c.lf.ver, c.qg_parity, c.px, path)
      p == ParseControlBlock(c.cb) IN
  \* a (version, script) pair that sits on several leaves has several proving paths: any of them is a correct control block
  IF Cardinality({k \in 1..Len(Leaves(c.tree)) : Leaves(c.tree)[k] = c.lf}) = 1 /\ c.cb # cb THEN "control-block-bytes"
  ELSE IF ~p.ok \/ ~c.parse_ok THEN "control-block-parse"
  ELSE IF c.reser # c.cb THEN "control-block-parse-serialise-not-identity"
  ELSE IF ~c.parsed_equals_built THEN "parsed-control-block-does-not-compare-equal-to-the-one-built"
  ELSE IF Take(c.cb, 33) # Take(cb, 33) THEN "control-block-version-parity-or-internal-key"
  ELSE IF RootFromPath(HO(c), LeafHash(HO(c), c.lf), p.path, 1) # c.root THEN "control-block-path-does-not-prove-the-leaf"
  ELSE IF c.ext_x # c.qg_x \/ c.ext_parity # c.qg_parity THEN "control-block-does-not-recompute-output-key"
  ELSE ""
Why(c) == CASE c.kind = "tree" -> WhyTree(c) [] c.kind = "leafcb" -> WhyLeaf(c)
            [] c.kind = "altered" -> (IF c.res = "ok" /\ c.alt_x = c.qg_x /\ c.alt_parity = c.qg_parity THEN "altered-" \o c.what \o "-still-reproduces-output-key" ELSE "")
VARIABLES i, bad
Init == i = 1 /\ bad = <<>>
Next == /\ i <= NCases /\ i' = i + 1
        /\ bad' = LET w == Why(Cases[i]) IN IF w = "" THEN bad ELSE Append(bad, [id |-> Cases[i].id, why |-> w])
Fin == (i = NCases + 1) => JsonSerialize(IOEnv.OUT, bad)
====================================================================================
