---------------------------------- MODULE MC_Filter ----------------------------------
(* C18, binding C: the compact filter *object* (build from elements, serialise, parse,         *)
(* query) over a toy universe with a toy hash-to-range function that has collisions, with        *)
(* small Golomb parameters.  Policy "dedup" derives F from the number of distinct hash values     *)
(* (buidl before the repair), "count" from the element count N carried by the encoding            *)
(* (BIP158).  Property: no false negatives -- every inserted element is reported present by a      *)
(* filter parsed from the serialised bytes.  Also Golomb / bit-packing laws.                       *)
EXTENDS Filters, FiniteSets, TLC, IOUtils

CONSTANTS Policy
Elems == 1..5
M == 7
\* toy hash: element e, range f  ->  (h(e) * f) \div 16 with h(e) in 0..15 (two elements share h)
HVal(e) == CASE e = 1 -> 3 [] e = 2 -> 3 [] e = 3 -> 9 [] e = 4 -> 14 [] e = 5 -> 6
ToRange(e, f) == (HVal(e) * f) \div 16
VARIABLES items, parsed, st
vars == <<items, parsed, st>>
Init == items \in (SUBSET Elems) \ {{}} /\ parsed = [n |-> 0, vals |-> {}, f |-> 0] /\ st = "built"
\* serialise (N, sorted values incl. duplicates) and parse it back as the code does
Parse == /\ st = "built"
         /\ LET n == Cardinality(items)  f == n * M
                vals == {ToRange(e, f) : e \in items} IN
            parsed' = [n |-> n, vals |-> vals, f |-> IF Policy = "dedup" THEN Cardinality(vals) * M ELSE n * M]
         /\ st' = "parsed" /\ UNCHANGED items
Spec == Init /\ [][Parse]_vars
Member(e) == ToRange(e, parsed.f) \in parsed.vals
NoFalseNegative == st = "parsed" => \A e \in items : Member(e)
\* Golomb-Rice: decode inverts encode; packing round trip
ASSUME \A p \in {2, 3, 5} : \A x \in 0..600 : LET b == Golomb(x, p)  d == GolombDec(b, 1, 0, p) IN d.ok /\ d.v = x /\ d.pos = Len(b) + 1
ASSUME \A x \in {0, 1, 524287, 524288, 524289, 1048575, 1048576, 67108863} : LET b == Golomb(x, 19)  d == GolombDec(b, 1, 0, 19) IN d.ok /\ d.v = x
ASSUME \A n \in 0..20 : LET bits == [k \in 1..n |-> (k * k) % 2] IN SubSeq(UnpackBits(PackBits(bits)), 1, n) = bits /\ Len(PackBits(bits)) = (n + 7) \div 8
====================================================================================
