SPECIFICATION Spec
CONSTANT Policy = "dedup"
INVARIANT NoFalseNegative
