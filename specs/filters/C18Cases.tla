--------------------------------- MODULE C18Cases ---------------------------------
(* Binding B for C18: recorded calls decided by TLC evaluating Filters.tla.                 *)
(*  "sip"    : SipHash-2-4(key, msg) as computed by the library                               *)
(*  "murmur" : murmur3(data, seed)                                                            *)
(*  "gcs"    : encode_gcs(key, items): hashes (given: validated by "sip" cases) -> range       *)
(*             mapping, sort, deltas, Golomb-Rice, packing; decode_gcs inverts it              *)
(*  "member" : a filter built from items and parsed back reports every item present            *)
(*  "bloom"  : bit positions and the bit field bytes / filterload payload                       *)
EXTENDS Filters, CaseIO, FiniteSets, SequencesExt

SortInts(s) == SortSeq(s, <)
WhyGcs(c) ==
  LET n == Len(c.hashes)  f == n * GolombM
      vals == SortInts([k \in 1..n |-> HashToRange(c.hashes[k], f)])
      enc == VarintN(n) \o PackBits(GcsBits(vals, 1, 0, <<>>)) IN
  IF c.enc # enc THEN "encode_gcs-differs-from-bip158"
  ELSE IF c.dec # vals THEN "decode_gcs-does-not-invert"
  ELSE IF GcsDec(UnpackBits(Drop(enc, Len(VarintN(n)))), 1, n, 0, <<>>) # vals THEN "spec-roundtrip" ELSE ""
WhyBloom(c) ==
  LET bits == {LEvalSmall(c.h[k]) % (c.size * 8) : k \in 1..Len(c.h)} IN     \* c.h: murmur results (validated by "murmur" cases) reduced below
  IF c.field # BloomBytes(c.size, {c.pos[k] : k \in 1..Len(c.pos)}) THEN "bloom-bit-field-bytes"
  ELSE IF c.payload # VarintN(c.size) \o c.field \o LE(c.nfunc % 65536, 2) \o LE(c.nfunc \div 65536, 2) \o c.tweak4 \o <<c.flag>> THEN "filterload-layout"
  ELSE ""
Why(c) == CASE c.kind = "sip" -> (IF c.out = SipHash24(c.key, c.msg) THEN "" ELSE "siphash-differs")
            [] c.kind = "murmur" -> (IF c.out = Murmur3(c.data, c.seed4) THEN "" ELSE "murmur3-differs")
            [] c.kind = "gcs" -> WhyGcs(c)
            [] c.kind = "member" -> (IF c.all_present THEN "" ELSE "false-negative")
            [] c.kind = "bloompos" -> (IF c.len # c.nbits THEN "bloom-bit-field-length"
                                       ELSE IF c.pos = ModSmall(Strip(Murmur3(c.data, c.seed4)), c.nbits) /\ c.set THEN "" ELSE "bloom-bit-position")
            [] c.kind = "bloomhead" -> (IF c.nbits # c.size * 8 \/ c.nbytes # c.size THEN "bloom-bit-field-length"
                                        ELSE IF c.ones # c.ones_bytes THEN "bloom-bit-field-bytes"
                                        ELSE IF c.npayload # Len(VarintN(c.size)) + c.size + 9 \/ c.head # SubSeq(VarintN(c.size) \o <<0, 0, 0>>, 1, 3) THEN "filterload-layout" ELSE "")
            [] c.kind = "bloom" -> WhyBloom(c)
VARIABLES i, bad
Init == i = 1 /\ bad = <<>>
Next == /\ i <= NCases /\ i' = i + 1
        /\ bad' = LET w == Why(Cases[i]) IN IF w = "" THEN bad ELSE Append(bad, [id |-> Cases[i].id, why |-> w])
Fin == (i = NCases + 1) => JsonSerialize(IOEnv.OUT, bad)
====================================================================================
