----------------------------------- MODULE Filters -----------------------------------
(* BIP158 compact filters and BIP37 bloom filters (C18).  SipHash-2-4 and MurmurHash3       *)
(* (x86_32) have no standard-library counterpart, so they are transcribed here and TLC        *)
(* evaluates them; words are little-endian byte strings of fixed width (8 resp. 4 bytes),      *)
(* so every intermediate value stays far below TLC's 32-bit integer limit.                     *)
EXTENDS BN, Bitwise, TLC

VarintN(n) == IF n < 253 THEN <<n>> ELSE IF n < 65536 THEN <<253, n % 256, n \div 256>> ELSE <<254, n % 256, (n \div 256) % 256, (n \div 65536) % 256, n \div 16777216>>
LEvalSmall(b) == LEval(b)

\* ---- fixed-width words ---------------------------------------------------------------------
W(x, w) == Pad(Take(Strip(x) \o Zeros(w), w), w)                    \* truncate / pad to w bytes
XorW(a, b) == [i \in 1..Len(a) |-> a[i] ^^ b[i]]
AddW(a, b) == LET s == Add(a, b) IN W(s, Len(a))
MulW(a, b) == LET p == Mul(Strip(a), Strip(b)) IN W(p, Len(a))
\* rotate left by r bits a w-byte little-endian word
RotL(a0_, r) == LET a == TLCEval(a0_)  w == Len(a)  q == (r \div 8) % w  s == r % 8
                  byteRot == [i \in 1..w |-> a[((i - 1 - q + w) % w) + 1]] IN
              IF s = 0 THEN byteRot
              ELSE [i \in 1..w |-> ((byteRot[i] * (2 ^ s)) % 256) + (byteRot[((i - 2 + w) % w) + 1] \div (2 ^ (8 - s)))]
ShrW(a0_, r) == LET a == TLCEval(a0_)  w == Len(a)  q == r \div 8  s == r % 8
                  byteSh == [i \in 1..w |-> IF i + q <= w THEN a[i + q] ELSE 0] IN
              IF s = 0 THEN byteSh
              ELSE [i \in 1..w |-> (byteSh[i] \div (2 ^ s)) + (((IF i < w THEN byteSh[i + 1] ELSE 0) * (2 ^ (8 - s))) % 256)]

\* ---- SipHash-2-4 ------------------------------------------------------------------------------
SipRound(v) ==       \* v = <<v0, v1, v2, v3>>
  \* TLCEval forces (and thereby memoises) each shared intermediate value: TLC evaluates LET definitions by need
  LET vv == TLCEval(v)
      a0 == TLCEval(AddW(vv[1], vv[2]))  b1 == TLCEval(XorW(RotL(vv[2], 13), a0))  a0r == TLCEval(RotL(a0, 32))
      c2 == TLCEval(AddW(vv[3], vv[4]))  d3 == TLCEval(XorW(RotL(vv[4], 16), c2))
      a0b == TLCEval(AddW(a0r, d3))    d3b == TLCEval(XorW(RotL(d3, 21), a0b))
      c2b == TLCEval(AddW(c2, b1))     b1b == TLCEval(XorW(RotL(b1, 17), c2b))  c2r == TLCEval(RotL(c2b, 32)) IN
  TLCEval(<<a0b, b1b, c2r, d3b>>)
Sip2(v) == TLCEval(SipRound(TLCEval(SipRound(v))))
Compress(v, m) == LET vv == TLCEval(v)  t == TLCEval(Sip2(<<vv[1], vv[2], vv[3], XorW(vv[4], m)>>)) IN TLCEval(<<XorW(t[1], m), t[2], t[3], t[4]>>)
RECURSIVE SipBlocks(_, _, _)
SipBlocks(v, msg, i) == IF i + 7 > Len(msg) THEN v ELSE SipBlocks(TLCEval(Compress(v, Slice(msg, i, i + 7))), msg, i + 8)
K0Const == <<117, 101, 115, 112, 101, 109, 111, 115>>       \* "somepseu" little endian of 0x736f6d6570736575
K1Const == <<109, 111, 100, 110, 97, 114, 111, 100>>        \* 0x646f72616e646f6d
K2Const == <<97, 114, 101, 110, 101, 103, 121, 108>>        \* 0x6c7967656e657261
K3Const == <<115, 101, 116, 121, 98, 100, 101, 116>>        \* 0x7465646279746573
SipHash24(key, msg) ==       \* key: 16 bytes; result: 8 bytes little endian
  LET k0 == Take(key, 8)  k1 == Drop(key, 8)
      v0 == <<XorW(k0, K0Const), XorW(k1, K1Const), XorW(k0, K2Const), XorW(k1, K3Const)>>
      full == (Len(msg) \div 8) * 8
      v1 == TLCEval(SipBlocks(TLCEval(v0), msg, 1))
      last == Pad(Drop(msg, full), 7) \o <<Len(msg) % 256>>
      v2 == TLCEval(Compress(v1, last))
      v3 == TLCEval(Sip2(Sip2(<<v2[1], v2[2], XorW(v2[3], <<255, 0, 0, 0, 0, 0, 0, 0>>), v2[4]>>))) IN
  XorW(XorW(v3[1], v3[2]), XorW(v3[3], v3[4]))

\* ---- MurmurHash3 x86_32 ---------------------------------------------------------------------------
C1 == <<81, 45, 158, 204>>          \* 0xcc9e2d51
C2 == <<147, 53, 135, 27>>          \* 0x1b873593
MixK(k) == TLCEval(MulW(TLCEval(RotL(TLCEval(MulW(k, C1)), 15)), C2))
RECURSIVE MurBlocks(_, _, _)
MurBlocks(h, data, i) == IF i + 3 > Len(data) THEN h
  ELSE LET k == MixK(Slice(data, i, i + 3))  h2 == TLCEval(RotL(XorW(TLCEval(h), k), 13)) IN
       MurBlocks(TLCEval(AddW(MulW(h2, <<5, 0, 0, 0>>), <<100, 107, 84, 230>>)), data, i + 4)        \* h*5 + 0xe6546b64
FMix(h) == LET hh == TLCEval(h)  a == TLCEval(XorW(hh, ShrW(hh, 16)))  b == TLCEval(MulW(a, <<107, 202, 235, 133>>))             \* 0x85ebca6b
               c == TLCEval(XorW(b, ShrW(b, 13)))  d == TLCEval(MulW(c, <<53, 174, 178, 194>>)) IN            \* 0xc2b2ae35
           XorW(d, ShrW(d, 16))
Murmur3(data, seed4) ==      \* seed as 4 bytes (already reduced mod 2^32); result 4 bytes little endian
  LET full == (Len(data) \div 4) * 4
      h1 == TLCEval(MurBlocks(seed4, data, 1))
      tail == Drop(data, full)
      h2 == TLCEval(IF tail = <<>> THEN h1 ELSE XorW(h1, MixK(Pad(tail, 4))))
      h3 == TLCEval(XorW(h2, W(FromInt(Len(data)), 4))) IN FMix(h3)

\* ---- Golomb-coded sets ------------------------------------------------------------------------------
GolombP == 19
GolombM == 784931
\* (h * F) >> 64 with h an 8-byte word and F a small integer
HashToRange(h8, f) == ToInt(Strip(Drop(Mul(Strip(h8), FromInt(f)) \o Zeros(8), 8)))
RECURSIVE Ones(_)
Ones(n) == IF n = 0 THEN <<>> ELSE <<1>> \o Ones(n - 1)
BitsMSB(x, p) == [k \in 1..p |-> (x \div (2 ^ (p - k))) % 2]
Golomb(x, p) == Ones(x \div (2 ^ p)) \o <<0>> \o BitsMSB(x % (2 ^ p), p)
RECURSIVE GcsBits(_, _, _, _)
GcsBits(sorted, i, last, acc) == IF i > Len(sorted) THEN acc ELSE GcsBits(sorted, i + 1, sorted[i], acc \o Golomb(sorted[i] - last, GolombP))
PackBits(bits) == LET nb == (Len(bits) + 7) \div 8 IN
  [k \in 1..nb |-> LET b(j) == IF 8 * (k - 1) + j <= Len(bits) THEN bits[8 * (k - 1) + j] * (2 ^ (8 - j)) ELSE 0 IN b(1) + b(2) + b(3) + b(4) + b(5) + b(6) + b(7) + b(8)]
\* decoding automaton: returns the n values or <<-1>>
RECURSIVE GolombDec(_, _, _, _)
GolombDec(bits, pos, q, p) == IF pos > Len(bits) THEN [ok |-> FALSE, v |-> 0, pos |-> pos]
  ELSE IF bits[pos] = 1 THEN GolombDec(bits, pos + 1, q + 1, p)
  ELSE IF pos + p > Len(bits) THEN [ok |-> FALSE, v |-> 0, pos |-> pos]
  ELSE LET RECURSIVE rem(_, _) rem(k, acc) == IF k > p THEN acc ELSE rem(k + 1, acc * 2 + bits[pos + k]) IN
       [ok |-> TRUE, v |-> q * (2 ^ p) + rem(1, 0), pos |-> pos + p + 1]
RECURSIVE GcsDec(_, _, _, _, _)
GcsDec(bits, pos, n, cur, acc) == IF n = 0 THEN acc
  ELSE LET d == GolombDec(bits, pos, 0, GolombP) IN IF ~d.ok THEN <<-1>> ELSE GcsDec(bits, d.pos, n - 1, cur + d.v, Append(acc, cur + d.v))
UnpackBits(bytes) == LET RECURSIVE f(_, _) f(i, acc) == IF i > Len(bytes) THEN acc ELSE f(i + 1, acc \o [k \in 1..8 |-> (bytes[i] \div (2 ^ (8 - k))) % 2]) IN f(1, <<>>)

\* ---- bloom filter ---------------------------------------------------------------------------------------
\* bit field (LSB first in each byte) of a filter of `size` bytes with the given set bits (0-based)
BloomBytes(size, bitset) == [k \in 1..size |-> LET b(j) == IF (8 * (k - 1) + j) \in bitset THEN 2 ^ j ELSE 0 IN b(0) + b(1) + b(2) + b(3) + b(4) + b(5) + b(6) + b(7)]
====================================================================================
