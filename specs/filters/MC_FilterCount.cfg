SPECIFICATION Spec
CONSTANT Policy = "count"
INVARIANT NoFalseNegative
