-------------------------------- MODULE MC_Timelock --------------------------------
(* Laws of Timelock.tla checked by TLC over a grid of 32-bit words that straddles every   *)
(* boundary the classes distinguish (500000000, bit 22, bit 31, the 16-bit mask, 0, max). *)
EXTENDS Timelock, TLC
CONSTANTS HI, LO, SMALL     \* halves for the pair laws; a smaller set of halves for the triple laws
Words == {<<h, l>> : h \in HI, l \in LO}
SWords == {<<h, l>> : h \in SMALL, l \in SMALL}

\* the two statements of the consensus rules agree
ASSUME CLTVAgree == \A lock \in Words, op \in Words : \A seq \in {MaxW, <<0, 0>>, <<65535, 65534>>} :
                       CLTVDirect(lock, seq, op) = CLTVViaAPI(lock, seq, op)
ASSUME CSVAgree == \A seq \in Words, op \in Words : \A v \in {1, 2, 3} : CSVDirect(v, seq, op) = CSVViaAPI(v, seq, op)
\* comparisons: raise exactly on mixed units; a strict total order inside one unit (on the compared part)
ASSUME LockOrder == \A a \in Words, b \in Words :
                      (LockLt(a, b) = "raise") = (LockKind(a) # LockKind(b))
ASSUME LockTrich == \A a \in Words, b \in Words : LockComparable(a, b) =>
                      (IF LockLt(a, b) = "true" THEN 1 ELSE 0) + (IF LockLt(b, a) = "true" THEN 1 ELSE 0) + (IF a = b THEN 1 ELSE 0) = 1
ASSUME LockTrans == \A a \in SWords, b \in SWords, c \in SWords :
                      (LockLt(a, b) = "true" /\ LockLt(b, c) = "true") => LockLt(a, c) = "true"
ASSUME SeqTrich == \A a \in Words, b \in Words : SeqComparable(a, b) =>
                      (IF SeqLt(a, b) = "true" THEN 1 ELSE 0) + (IF SeqLt(b, a) = "true" THEN 1 ELSE 0) + (IF a[2] = b[2] THEN 1 ELSE 0) = 1
ASSUME SeqTrans == \A a \in SWords, b \in SWords, c \in SWords :
                      (SeqLt(a, b) = "true" /\ SeqLt(b, c) = "true") => SeqLt(a, c) = "true"
\* a lock that is satisfied stays satisfied as the transaction's own value grows within its unit
ASSUME CLTVMono == \A lock \in SWords, lock2 \in SWords, op \in SWords :
                      (CLTVDirect(lock, <<0, 0>>, op) /\ LockKind(lock2) = LockKind(lock) /\ LeW(lock, lock2)) => CLTVDirect(lock2, <<0, 0>>, op)
ASSUME CSVMono == \A seq \in SWords, seq2 \in SWords, op \in SWords :
                      (CSVDirect(2, seq, op) /\ SeqKind(seq2) = SeqKind(seq) /\ seq[2] <= seq2[2]) => CSVDirect(2, seq2, op)
\* constructors: the stored delay never exceeds the requested one and loses less than one unit
ASSUME FromTime == \A s \in {0, 1, 511, 512, 513, 1023, 1024, 33553919, 33553920, 33554431} :
                      LET w == FromRelTime(s) IN SeqKind(w) = "time" /\ RelTime(w) <= s /\ s - RelTime(w) < 512 /\ RelBlocks(w) = None
ASSUME FromBlocks == \A n \in LO : LET w == FromRelBlocks(n) IN SeqKind(w) = "blocks" /\ RelBlocks(w) = n /\ RelTime(w) = None
\* vacuity guards: each verdict occurs on the grid
ASSUME Occurs == /\ \E a \in Words, b \in Words : LockLt(a, b) = "raise"
                 /\ \E a \in Words, b \in Words : SeqLt(a, b) = "raise"
                 /\ \E a \in Words, b \in Words : CSVDirect(2, a, b) /\ ~Disabled(b)
                 /\ \E a \in Words, b \in Words : ~CSVDirect(2, a, b)
                 /\ \E a \in Words, b \in Words : CLTVDirect(a, <<0, 0>>, b)
VARIABLE x
Init == x = 0
Next == UNCHANGED x
=======================================================================================
