------------------------------- MODULE TimelockCases -------------------------------
(* Binding B for X04: recorded calls on real Locktime / Sequence objects (and the two      *)
(* timelock opcodes on a real Tx) decided by TLC with Timelock.tla.  Words arrive as        *)
(* [hi, lo]; optional integers as -1 for None.                                              *)
EXTENDS Timelock, CaseIO
B(b) == IF b THEN "true" ELSE "false"
WhyLock(c) == LET a == c.a  b == c.b IN
  IF c.height # (IF LockKind(a) = "height" THEN a ELSE <<>>) THEN "Locktime.block_height"
  ELSE IF c.mtp # (IF LockKind(a) = "time" THEN a ELSE <<>>) THEN "Locktime.mtp"
  ELSE IF c.comparable # LockComparable(a, b) THEN "Locktime.is_comparable"
  ELSE IF c.lt # LockLt(a, b) THEN "Locktime.__lt__:" \o LockLt(a, b) \o "-expected"
  ELSE IF c.ser # a THEN "Locktime.serialize/parse" ELSE ""
WhySeq(c) == LET a == c.a  b == c.b IN
  IF c.relative # ~Disabled(a) THEN "Sequence.is_relative"
  ELSE IF c.is_time # (SeqKind(a) = "time") THEN "Sequence.is_relative_time"
  ELSE IF c.is_block # (SeqKind(a) = "blocks") THEN "Sequence.is_relative_block"
  ELSE IF c.blocks # RelBlocks(a) THEN "Sequence.relative_blocks"
  ELSE IF c.time # RelTime(a) THEN "Sequence.relative_time"
  ELSE IF c.rbf # Rbf(a) THEN "Sequence.is_rbf_able"
  ELSE IF c.max # (a = MaxW) THEN "Sequence.is_max"
  ELSE IF c.comparable # SeqComparable(a, b) THEN "Sequence.is_comparable"
  ELSE IF c.lt # SeqLt(a, b) THEN "Sequence.__lt__:" \o SeqLt(a, b) \o "-expected"
  ELSE IF c.ser # a THEN "Sequence.serialize/parse" ELSE ""
WhyFrom(c) ==
  IF c.what = "time" THEN (IF c.word = FromRelTime(c.n) THEN "" ELSE "Sequence.from_relative_time")
  ELSE (IF c.word = FromRelBlocks(c.n) THEN "" ELSE "Sequence.from_relative_blocks")
WhyRange(c) == IF c.accepted = c.inrange THEN "" ELSE IF c.accepted THEN c.cls \o "-accepts-out-of-range" ELSE c.cls \o "-refuses-in-range"
\* the opcodes on a real transaction: operand a 32-bit word pushed as a script number
WhyOp(c) ==
  IF c.op = "cltv" THEN (IF c.ok = CLTVDirect(c.lock, c.seq, c.operand) THEN "" ELSE IF c.ok THEN "cltv-passes-unsatisfied-lock" ELSE "cltv-fails-satisfied-lock")
  ELSE (IF c.ok = CSVDirect(c.version, c.seq, c.operand) THEN "" ELSE IF c.ok THEN "csv-passes-unsatisfied-lock" ELSE "csv-fails-satisfied-lock")
Why(c) == CASE c.kind = "lock" -> WhyLock(c) [] c.kind = "seq" -> WhySeq(c) [] c.kind = "from" -> WhyFrom(c)
            [] c.kind = "range" -> WhyRange(c) [] c.kind = "op" -> WhyOp(c)
VARIABLES i, bad
Init == i = 1 /\ bad = <<>>
Next == /\ i <= NCases /\ i' = i + 1
        /\ bad' = LET w == Why(Cases[i]) IN IF w = "" THEN bad ELSE Append(bad, [id |-> Cases[i].id, why |-> w])
Fin == (i = NCases + 1) => JsonSerialize(IOEnv.OUT, bad)
====================================================================================
