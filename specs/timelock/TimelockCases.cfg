INIT Init
NEXT Next
INVARIANT Fin
