---------------------------------- MODULE Timelock ----------------------------------
(* buidl/timelock.py: absolute (nLockTime, BIP65) and relative (nSequence, BIP68/112)     *)
(* timelocks as the library's Locktime / Sequence classes present them, and the           *)
(* consensus rules of OP_CHECKLOCKTIMEVERIFY / OP_CHECKSEQUENCEVERIFY stated twice: once   *)
(* directly from the BIPs and once the way op.py composes them from the class API.         *)
(*                                                                                        *)
(* A 32-bit word is <<hi, lo>> with hi, lo in 0..65535 (TLC integers are 32-bit signed).   *)
EXTENDS Naturals, Sequences

Half == 0..65535
LtW(a, b) == a[1] < b[1] \/ (a[1] = b[1] /\ a[2] < b[2])
LeW(a, b) == ~LtW(b, a)
MaxW == <<65535, 65535>>
BlockLimit == <<7629, 25856>>          \* 500000000 = 0x1DCD6500

---------------------------------------------------------------------------------------
\* Locktime
LockKind(w) == IF LtW(w, BlockLimit) THEN "height" ELSE "time"
LockComparable(a, b) == LockKind(a) = LockKind(b)
LockLt(a, b) == IF LockComparable(a, b) THEN (IF LtW(a, b) THEN "true" ELSE "false") ELSE "raise"

---------------------------------------------------------------------------------------
\* Sequence: bit 31 disables the relative lock, bit 22 selects units of 512 s, the low 16 bits are the value
Disabled(w) == w[1] >= 32768
TimeFlag(w) == (w[1] \div 64) % 2 = 1
SeqKind(w) == IF Disabled(w) THEN "none" ELSE IF TimeFlag(w) THEN "time" ELSE "blocks"
None == 0 - 1
RelBlocks(w) == IF SeqKind(w) = "blocks" THEN w[2] ELSE None
RelTime(w) == IF SeqKind(w) = "time" THEN w[2] * 512 ELSE None
SeqComparable(a, b) == SeqKind(a) = SeqKind(b) /\ SeqKind(a) # "none"
SeqLt(a, b) == IF SeqComparable(a, b) THEN (IF a[2] < b[2] THEN "true" ELSE "false") ELSE "raise"
Rbf(w) == w # MaxW
FromRelTime(s) == <<64, s \div 512>>     \* for s < 2^25
FromRelBlocks(n) == <<0, n>>             \* for n < 2^16

---------------------------------------------------------------------------------------
\* BIP65: operand (a non-negative number, here already a 32-bit word) against the transaction's nLockTime and the
\* input's nSequence
CLTVDirect(lock, seq, op) == /\ LockKind(lock) = LockKind(op) /\ LeW(op, lock) /\ seq # MaxW
\* ... and the way op.py says it: not max sequence, and not (locktime < operand) where an incomparable pair fails
CLTVViaAPI(lock, seq, op) == seq # MaxW /\ LockLt(lock, op) = "false"

\* BIP112: operand with the disable flag set is a NOP; otherwise version >= 2, the input's sequence is not disabled,
\* same unit, masked operand <= masked sequence
CSVDirect(version, seq, op) ==
  \/ Disabled(op)
  \/ /\ version >= 2 /\ ~Disabled(seq) /\ TimeFlag(seq) = TimeFlag(op) /\ op[2] <= seq[2]
CSVViaAPI(version, seq, op) ==
  \/ SeqKind(op) = "none"
  \/ /\ version >= 2 /\ SeqKind(seq) # "none" /\ SeqLt(seq, op) = "false"
=======================================================================================
