------------------------------------- MODULE Desc -------------------------------------
(* wsh(sortedmulti(...)) output descriptors (C16): Bitcoin Core's 40-bit descriptor checksum   *)
(* (polymod over GF(32) with character-class groups), the descriptor text built from key        *)
(* records, and the address at (branch, index) as P2WSH of the sorted m-of-n script.             *)
(* The 40-bit register is kept as two 20-bit limbs <<hi, lo>>.                                   *)
EXTENDS Addr, TxWire

InputCharset == <<48, 49, 50, 51, 52, 53, 54, 55, 56, 57, 40, 41, 91, 93, 44, 39, 47, 42, 97, 98, 99, 100, 101, 102, 103, 104, 64, 58, 36, 37, 123, 125,
                  73, 74, 75, 76, 77, 78, 79, 80, 81, 82, 83, 84, 85, 86, 87, 88, 89, 90, 38, 43, 45, 46, 59, 60, 61, 62, 63, 33, 94, 95, 124, 126,
                  105, 106, 107, 108, 109, 110, 111, 112, 113, 114, 115, 116, 117, 118, 119, 120, 121, 122, 65, 66, 67, 68, 69, 70, 71, 72, 96, 35, 34, 92, 32>>
CharPos(ch) == IF \E k \in 1..Len(InputCharset) : InputCharset[k] = ch THEN (CHOOSE k \in 1..Len(InputCharset) : InputCharset[k] = ch) - 1 ELSE -1
\* generators split into 20-bit halves: 0xf5dee51989 0xa9fdca3312 0x1bab10e32d 0x3706b1677a 0x644d626ffd
GenHi == <<1007086, 696284, 113329, 225387, 410838>>
GenLo == <<334217, 668434, 58157, 92026, 159741>>      \* low 20 bits
PM(c, val) ==      \* c = <<hi, lo>>
  LET c0 == c[1] \div 32768
      hi == ((c[1] % 32768) * 32) + (c[2] \div 32768)
      lo == (((c[2] % 32768) * 32)) ^^ val
      RECURSIVE f(_, _, _) f(i, h, l) == IF i > 5 THEN <<h, l>> ELSE IF (c0 \div (2 ^ (i - 1))) % 2 = 1 THEN f(i + 1, h ^^ GenHi[i], l ^^ GenLo[i]) ELSE f(i + 1, h, l) IN
  f(1, hi, lo)
RECURSIVE DescPolyR(_, _, _, _, _)
DescPolyR(text, i, c, cls, cnt) ==
  IF i > Len(text) THEN (IF cnt > 0 THEN PM(c, cls) ELSE c)
  ELSE LET p == CharPos(text[i])  c1 == PM(c, p % 32)  cls1 == cls * 3 + (p \div 32) IN
       IF cnt + 1 = 3 THEN DescPolyR(text, i + 1, PM(c1, cls1), 0, 0) ELSE DescPolyR(text, i + 1, c1, cls1, cnt + 1)
RECURSIVE PMZeros(_, _)
PMZeros(c, n) == IF n = 0 THEN c ELSE PMZeros(PM(c, 0), n - 1)
DescChecksum(text) ==       \* 8 characters, or <<-1>> if the text has a character outside the charset
  IF \E k \in 1..Len(text) : CharPos(text[k]) = -1 THEN <<-1>>
  ELSE LET c == PMZeros(DescPolyR(text, 1, <<0, 1>>, 0, 0), 8)
           v == <<c[1], c[2] ^^ 1>>
           sym(j) == IF j <= 4 THEN (v[1] \div (2 ^ (5 * (4 - j)))) % 32 ELSE (v[2] \div (2 ^ (5 * (8 - j)))) % 32 IN
       [j \in 1..8 |-> CharOf(sym(j))]

\* ---- descriptor text ---------------------------------------------------------------------------
RECURSIVE DigitsOf(_)
DigitsOf(n) == IF n < 10 THEN <<48 + n>> ELSE DigitsOf(n \div 10) \o <<48 + (n % 10)>>
DigitsBig(b) == LET RECURSIVE g(_, _) g(x, acc) == IF IsZero(x) THEN acc ELSE LET qr == DivModSmall(x, 10) IN g(qr[1], <<48 + qr[2]>> \o acc) IN IF IsZero(b) THEN <<48>> ELSE g(b, <<>>)
\* key record: [xfp (8 hex chars), path (text after "m", e.g. "/48h/0h"), xpub (text), acct (BN)]
RecText(r) == <<91>> \o r.xfp \o r.path \o <<93>> \o r.xpub \o <<47>> \o DigitsBig(r.acct) \o <<47, 42>>
RECURSIVE InsertRec(_, _)
InsertRec(x, s) == IF s = <<>> THEN <<x>> ELSE IF LexLe(x.xpub, Head(s).xpub) THEN <<x>> \o s ELSE <<Head(s)>> \o InsertRec(x, Tail(s))
RECURSIVE SortRecs(_, _, _)
SortRecs(rs, i, acc) == IF i > Len(rs) THEN acc ELSE SortRecs(rs, i + 1, InsertRec(rs[i], acc))
RECURSIVE JoinRecs(_, _, _)
JoinRecs(rs, i, acc) == IF i > Len(rs) THEN acc ELSE JoinRecs(rs, i + 1, acc \o <<44>> \o RecText(rs[i]))
WshPrefix == <<119, 115, 104, 40, 115, 111, 114, 116, 101, 100, 109, 117, 108, 116, 105, 40>>      \* "wsh(sortedmulti("
DescText(m, recs) == WshPrefix \o DigitsOf(m) \o JoinRecs(SortRecs(recs, 1, <<>>), 1, <<>>) \o <<41, 41>>
\* ---- address: P2WSH of the m-of-n script over the lexicographically sorted child SECs ----------------
RECURSIVE PushAll(_, _, _)
PushAll(secs, i, acc) == IF i > Len(secs) THEN acc ELSE PushAll(secs, i + 1, acc \o <<33>> \o secs[i])
MultiScript(m, secs) == <<80 + m>> \o PushAll(SortLex(secs), 1, <<>>) \o <<80 + Len(secs), 174>>
AddressAt(ho, net, m, secs) == LET h == HashIn(ho, "sha256", MultiScript(m, secs)) IN IF h = NoHash THEN <<-1>> ELSE SegwitEncode(net, 0, h)
====================================================================================
