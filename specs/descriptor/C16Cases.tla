--------------------------------- MODULE C16Cases ---------------------------------
(* Binding B for C16: recorded descriptor calls decided by TLC with Desc.tla.               *)
EXTENDS Desc, CaseIO
HO(c) == HRows(c.hr)
Recs(c) == [k \in 1..Len(c.recs) |-> [xfp |-> c.recs[k].xfp, path |-> c.recs[k].path, acct |-> c.recs[k].acct, xpub |-> Base58Check(HO(c), c.recs[k].raw78)]]
WhyDesc(c) == LET body == DescText(c.m, Recs(c))  full == body \o <<35>> \o DescChecksum(body) IN
  IF c.res # "ok" THEN "descriptor-construction-raises"
  ELSE IF c.text # full THEN (IF Take(c.text, Len(body)) # body THEN "descriptor-text-differs" ELSE "descriptor-checksum-differs")
  ELSE IF ~c.parse_ok THEN "descriptor-parse-fails" ELSE IF c.reparsed # c.text THEN "parse-does-not-reproduce-descriptor" ELSE ""
\* a text obtained by substituting one character of body or checksum: the checksum of its body no longer matches
SplitHash(t) == LET k == CHOOSE j \in 0..Len(t) : (j = 0 /\ ~\E i \in 1..Len(t) : t[i] = 35) \/ (j > 0 /\ t[j] = 35 /\ ~\E i \in (j + 1)..Len(t) : t[i] = 35) IN
                IF k = 0 THEN [body |-> t, cs |-> <<>>] ELSE [body |-> SubSeq(t, 1, k - 1), cs |-> SubSeq(t, k + 1, Len(t))]
WhySub(c) == LET s == SplitHash(c.text) IN
  IF s.cs # <<>> /\ DescChecksum(s.body) = s.cs THEN "spec:substitution-keeps-checksum"      \* excluded by MC_DescChecksum
  ELSE IF c.accepted THEN "substituted-descriptor-accepted" ELSE ""
WhyAddr(c) == LET a == AddressAt(HO(c), c.net, c.m, c.secs) IN
  IF a = <<-1>> THEN "witness-script-differs-from-sorted-multisig" ELSE IF c.res # "ok" THEN "get_address-raises" ELSE IF c.addr # a THEN "address-differs" ELSE ""
Why(c) == CASE c.kind = "desc" -> WhyDesc(c) [] c.kind = "sub" -> WhySub(c) [] c.kind = "addr" -> WhyAddr(c)
            [] c.kind = "eq" -> (IF c.a = c.b THEN "" ELSE c.what) [] c.kind = "neq" -> (IF c.a # c.b THEN "" ELSE c.what)
            [] c.kind = "csum" -> (IF c.out = DescChecksum(c.text) THEN "" ELSE "calc_core_checksum-differs")
VARIABLES i, bad
Init == i = 1 /\ bad = <<>>
Next == /\ i <= NCases /\ i' = i + 1
        /\ bad' = LET w == Why(Cases[i]) IN IF w = "" THEN bad ELSE Append(bad, [id |-> Cases[i].id, why |-> w])
Fin == (i = NCases + 1) => JsonSerialize(IOEnv.OUT, bad)
====================================================================================
