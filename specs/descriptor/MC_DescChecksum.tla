------------------------------- MODULE MC_DescChecksum -------------------------------
(* C16, binding C: a substitution of one descriptor character changes its 5-bit symbol and/or *)
(* the class-group symbol that follows its group of three characters, i.e. at most two symbols  *)
(* of the checksummed stream, at most 3 positions apart.  The checksum polymod is linear over    *)
(* GF(2), so a corruption goes undetected iff the xor of the per-symbol contributions is zero.   *)
(* TLC walks the distance from the end of the stream (one action per distance) and excludes       *)
(* every single-symbol error and every pair of symbol errors at most 3 apart, for all 31 x 31      *)
(* value differences, up to MaxLen symbols (the checksum symbols included).                        *)
EXTENDS Desc, IOUtils, TLC
MaxLen == atoi(IOEnv.MAXLEN)
Vals == 1..31
X2(a, b) == <<a[1] ^^ b[1], a[2] ^^ b[2]>>
Zero2 == <<0, 0>>
VARIABLES d, row, prev        \* row[v]: contribution of value v at distance d; prev: rows at distances d-1, d-2, d-3
vars == <<d, row, prev>>
Init == d = 0 /\ row = [v \in Vals |-> <<0, v>>] /\ prev = <<>>
RowOK == /\ \A v \in Vals : row[v] # Zero2
         /\ \A g \in 1..Len(prev) : \A v \in Vals, w \in Vals : X2(row[v], prev[g][w]) # Zero2
Step == /\ d < MaxLen /\ RowOK
        /\ prev' = SubSeq(<<row>> \o prev, 1, IF Len(prev) < 3 THEN Len(prev) + 1 ELSE 3)
        /\ row' = [v \in Vals |-> PM(row[v], 0)]
        /\ d' = d + 1
Spec == Init /\ [][Step]_vars
Detects == RowOK
\* the linear model agrees with the real checksum on a sample text (one substitution in each class position)
ASSUME LET t == <<119, 115, 104, 40, 49, 44, 91, 97, 98, 93, 120, 47, 48, 47, 42, 41>> IN
       \A k \in {1, 5, 9, 16} : DescChecksum([t EXCEPT ![k] = 65]) # DescChecksum(t)
====================================================================================
