SPECIFICATION Spec
INVARIANT Detects
