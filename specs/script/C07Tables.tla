-------------------------------- MODULE C07Tables --------------------------------
(* Binding A for C07: TLC evaluates the reference semantics over finite domains and     *)
(* exports the result tables; harness/props/c07.py replays every row through buidl.op.  *)
(* "One implementation test per transition of the specification."  The laws of the      *)
(* number codec are ASSUMEd over the same operators whose table is exported.            *)
EXTENDS Consensus, Json

\* hash results are exported as free-constructor terms <<-2, fnid, len>> \o x; the harness evaluates them
Mode == IOEnv.MODE

\* ---- stacks ------------------------------------------------------------------------------
FullAlpha == << <<>>, <<0>>, <<128>>, <<1>>, <<129>>, <<2>>, <<127>>, <<255, 0>>, <<255, 255, 255, 127>>,
                <<0, 0, 0, 0, 1>>, <<3>>, <<255, 255, 255, 255>> >>
DeepAlpha == << <<>>, <<1>>, <<3>>, <<129>> >>
RECURSIVE Stacks(_, _)
Stacks(alpha, d) == IF d = 0 THEN {<<>>} ELSE
   {Append(s, alpha[a]) : s \in Stacks(alpha, d - 1), a \in 1..Len(alpha)}
AllUpTo(alpha, d) == UNION {Stacks(alpha, k) : k \in 0..d}
DeepOps == {112, 113, 114, 121, 122, 116, 111, 123, 165, 125}
Ctx0 == [locktime |-> <<>>, sequence |-> <<>>, version |-> <<1>>, ho |-> HFree]
ShallowDepth == atoi(IOEnv.SHALLOW)
DeepMax == atoi(IOEnv.DEEP)
AltSet == {<<>>, << <<7>> >>, << <<>>, <<9>> >>}
Row(op, st, alt) == LET r == OpResult(op, st, alt, Ctx0) IN
   [op |-> op, st |-> st, alt |-> alt, ok |-> r.ok, oos |-> r.oos, rst |-> r.st, ralt |-> r.alt]
OpRows ==
   {Row(op, st, <<>>) : op \in PlainOps \ TimeOps, st \in AllUpTo(FullAlpha, ShallowDepth)}
   \cup {Row(op, st, alt) : op \in {107, 108}, st \in AllUpTo(FullAlpha, 1), alt \in AltSet}
   \cup {Row(op, st, <<>>) : op \in DeepOps, st \in UNION {Stacks(DeepAlpha, k) : k \in (ShallowDepth + 1)..DeepMax}}

\* ---- timelock grid ------------------------------------------------------------------------
\* values as 4/5-byte boundary numbers given by their little-endian bytes
B4(n) == Strip(LE(n % 65536, 2) \o LE(n \div 65536, 2))
LockVals == { <<>>, <<1>>, B4(499999999), B4(500000000), B4(500000001), <<255, 255, 255, 127>>,
              <<0, 0, 0, 128>>, <<255, 255, 255, 255>>, B4(65535), B4(65536) }
SeqVals == { <<>>, <<1>>, <<255, 255>>, <<0, 0, 1>>, <<0, 0, 64>>, <<1, 0, 64>>, <<255, 255, 64>>, <<255, 255, 63>>,
             <<0, 0, 0, 128>>, <<1, 0, 0, 128>>, <<1, 0, 64, 128>>, <<254, 255, 255, 255>>, <<255, 255, 255, 255>>,
             <<255, 255, 255, 127>>, <<5, 0, 0, 64>> }
OperandItems == {EncodeNum(MkNum(FALSE, v)) : v \in LockVals \cup SeqVals} \cup {<<129>>, <<>>, <<133>>}
VersionVals == {<<>>, <<1>>, <<2>>, <<3>>}
TimeRow(op, item, lt, sq, v) ==
   LET r == OpResult(op, <<item>>, <<>>, [locktime |-> lt, sequence |-> sq, version |-> v, ho |-> HFree]) IN
   [op |-> op, item |-> item, locktime |-> Pad(lt, 4), sequence |-> Pad(sq, 4), version |-> Pad(v, 4), ok |-> r.ok, oos |-> r.oos]
TimeRows == {TimeRow(177, it, lt, sq, <<1>>) : it \in OperandItems, lt \in LockVals, sq \in {<<>>, <<254, 255, 255, 255>>, <<255, 255, 255, 255>>}}
       \cup {TimeRow(178, it, <<>>, sq, v) : it \in OperandItems, sq \in SeqVals, v \in VersionVals}

\* ---- number codec -------------------------------------------------------------------------
Pow2(k) == 2 ^ k
SweepQuick == (-(Pow2(13))..Pow2(13)) \cup UNION {{Pow2(k) - 2, Pow2(k) - 1, Pow2(k), Pow2(k) + 1, -Pow2(k) - 1, -Pow2(k), -Pow2(k) + 1, -Pow2(k) + 2} : k \in 13..30}
             \cup {2147483647, -2147483647, 2147483646, -2147483646}
SweepLo == atoi(IOEnv.SWEEPLO)
SweepHi == atoi(IOEnv.SWEEPHI)
Sweep == IF Mode = "numwide" THEN SweepLo..SweepHi ELSE SweepQuick
NumLaw(v) == LET e == EncodeNum(NumInt(v)) IN
   /\ DecodeNum(e) = NumInt(v)
   /\ Minimal(e)
   /\ Len(e) <= 4
   /\ (v = 0 <=> e = <<>>)
NumRows == {[v |-> v, e |-> EncodeNum(NumInt(v))] : v \in Sweep}
\* decoding of every short byte string (non-minimal encodings included)
DecInt(s) == NumSmall(DecodeNum(s))
B3 == {0, 1, 127, 128, 129, 255}
Strs3 == IF Mode = "strwide" THEN {<<a, b, c>> : a \in SweepLo..SweepHi, b \in Byte, c \in Byte}
         ELSE {<<a, b, c>> : a \in B3, b \in B3, c \in Byte}
ShortStrs == {<<>>} \cup {<<a>> : a \in Byte} \cup {<<a, b>> : a \in Byte, b \in Byte} \cup Strs3
StrRows == {[s |-> s, v |-> DecInt(s)] : s \in (IF Mode = "strwide" THEN Strs3 ELSE ShortStrs)}
StrLaw(s) == LET n == DecodeNum(s) IN (Minimal(s) => EncodeNum(n) = s) /\ Len(EncodeNum(n)) <= Len(s)

ASSUME Mode \in {"num", "numwide"} => \A v \in Sweep : NumLaw(v)
ASSUME Mode \in {"str", "strwide"} => \A s \in (IF Mode = "strwide" THEN Strs3 ELSE ShortStrs) : StrLaw(s)
ASSUME JsonSerialize(IOEnv.OUT,
         SetToSeq(CASE Mode = "ops" -> OpRows [] Mode = "time" -> TimeRows
                    [] Mode \in {"num", "numwide"} -> NumRows [] Mode \in {"str", "strwide"} -> StrRows))
VARIABLE x
Init == x = 0
Next == UNCHANGED x
==================================================================================
