--------------------------------- MODULE Machine ---------------------------------
(* The reference interpreter (Consensus) as a state machine, explored by TLC over every *)
(* program up to MaxLen commands of a small alphabet, together with an                  *)
(* implementation-shaped evaluator (ImplStep: the command list is consumed from the      *)
(* front and OP_IF/OP_NOTIF splice the taken branch back in front of the rest, exactly   *)
(* as buidl.op.op_if does).  Checked: the two evaluators give the same verdict on every  *)
(* program (refinement of the consensus machine by the implementation's design), plus    *)
(* structural invariants of the reference machine.                                       *)
EXTENDS Consensus

CONSTANTS MaxLen, Alphabet          \* Alphabet: sequence of commands

Ctx0 == [locktime |-> <<>>, sequence |-> <<>>, version |-> <<1>>, ho |-> HFree]

VARIABLES prog, s, is
vars == <<prog, s, is>>

\* ---- implementation-shaped evaluator ------------------------------------------------
\* split the commands after an IF into (true branch, false branch, rest, found) like op_if
RECURSIVE SplitIf(_, _, _, _, _, _)
SplitIf(items, k, need, inFalse, t, f) ==
  IF k > Len(items) THEN [found |-> FALSE, t |-> t, f |-> f, rest |-> <<>>]
  ELSE LET it == items[k]
           app(x) == IF inFalse THEN [t |-> t, f |-> Append(f, x)] ELSE [t |-> Append(t, x), f |-> f] IN
    IF it.op \in {99, 100} THEN SplitIf(items, k + 1, need + 1, inFalse, app(it).t, app(it).f)
    ELSE IF need = 1 /\ it.op = 103 THEN SplitIf(items, k + 1, need, TRUE, t, f)
    ELSE IF it.op = 104 THEN
         IF need = 1 THEN [found |-> TRUE, t |-> t, f |-> f, rest |-> SubSeq(items, k + 1, Len(items))]
         ELSE SplitIf(items, k + 1, need - 1, inFalse, app(it).t, app(it).f)
    ELSE SplitIf(items, k + 1, need, inFalse, app(it).t, app(it).f)

ImplInit(p) == [cmds |-> p, st |-> <<>>, alt |-> <<>>, status |-> "run"]
ImplStep(ctx, m) ==
  IF m.cmds = <<>> THEN
     [m EXCEPT !.status = IF m.st = <<>> THEN "reject" ELSE IF CastToBool(Top(m.st)) THEN "accept" ELSE "reject"]
  ELSE LET c == Head(m.cmds)  rest == Tail(m.cmds) IN
    IF c.op = -1 THEN [m EXCEPT !.cmds = rest, !.st = Append(m.st, c.d)]
    ELSE IF c.op \in {99, 100} THEN
         IF m.st = <<>> THEN [m EXCEPT !.status = "reject"]
         ELSE LET sp == SplitIf(rest, 1, 1, FALSE, <<>>, <<>>)  v == CastToBool(Top(m.st)) IN
              IF ~sp.found THEN [m EXCEPT !.status = "reject"]
              ELSE [m EXCEPT !.st = Pop(m.st),
                             !.cmds = (IF (c.op = 99) = v THEN sp.t ELSE sp.f) \o sp.rest]
    ELSE IF c.op \in {103, 104} THEN [m EXCEPT !.status = "reject"]      \* KeyError in op_lookup
    ELSE LET r == OpResult(c.op, m.st, m.alt, ctx) IN
         IF r.oos THEN [m EXCEPT !.status = "oos"]
         ELSE IF ~r.ok THEN [m EXCEPT !.status = "reject"]
         ELSE [m EXCEPT !.cmds = rest, !.st = r.st, !.alt = r.alt]
RECURSIVE ImplRunR(_, _)
ImplRunR(ctx, m) == IF m.status # "run" THEN m ELSE ImplRunR(ctx, ImplStep(ctx, m))
ImplVerdict(p, ctx) == ImplRunR(ctx, ImplInit(p)).status

\* ---- well-formedness as the property states it: nested conditionals, at most one ELSE per IF
RECURSIVE NestOK(_, _, _)
NestOK(p, k, open) ==        \* open: sequence of booleans "ELSE already seen" per open IF
  IF k > Len(p) THEN open = <<>>
  ELSE IF p[k].op \in {99, 100} THEN NestOK(p, k + 1, Append(open, FALSE))
  ELSE IF p[k].op = 103 THEN open # <<>> /\ ~open[Len(open)] /\ NestOK(p, k + 1, [open EXCEPT ![Len(open)] = TRUE])
  ELSE IF p[k].op = 104 THEN open # <<>> /\ NestOK(p, k + 1, SubSeq(open, 1, Len(open) - 1))
  ELSE NestOK(p, k + 1, open)
WellNested(p) == NestOK(p, 1, <<>>)

\* ---- the state machine ----------------------------------------------------------------
RECURSIVE Progs(_)
Progs(n) == IF n = 0 THEN {<<>>} ELSE LET P == Progs(n - 1) IN
            P \cup {Append(p, Alphabet[a]) : p \in {q \in P : Len(q) = n - 1}, a \in 1..Len(Alphabet)}

Init == prog \in Progs(MaxLen) /\ s = InitState /\ is = ImplInit(prog)
StepRef == s.status = "run" /\ s' = StepState(prog, Ctx0, s) /\ UNCHANGED <<prog, is>>
StepImpl == is.status = "run" /\ is' = ImplStep(Ctx0, is) /\ UNCHANGED <<prog, s>>
Next == StepRef \/ StepImpl
Spec == Init /\ [][Next]_vars

\* ---- properties -------------------------------------------------------------------------
TypeOK == /\ s.pc \in 1..(Len(prog) + 1) /\ s.status \in {"run", "accept", "reject", "oos"}
          /\ Len(s.exec) <= Len(prog)
\* the implementation's design refines the consensus machine on every program of the property's domain
Refinement == (s.status # "run" /\ is.status # "run" /\ WellNested(prog)) => s.status = is.status
\* ... and even outside it the implementation never accepts what consensus rejects
NoFalseAccept == (s.status # "run" /\ is.status = "accept") => s.status = "accept"
\* both formulations of the reference agree
RunAgrees == s.status # "run" => s.status = Verdict(prog, Ctx0)
\* commands in a non-executing branch never touch the stacks
SkippedInert == [][(s.status = "run" /\ s'.status = "run" /\ ~Executing(s.exec) /\ s' # s)
                    => (s'.st = s.st /\ s'.alt = s.alt)]_vars
PcMonotone == [][s'.pc >= s.pc]_vars
Acc == s.status = "accept" => (s.st # <<>> /\ CastToBool(Top(s.st)) /\ s.exec = <<>>)
==================================================================================
