-------------------------------- MODULE Consensus --------------------------------
(* Reference semantics (Bitcoin consensus, as in Bitcoin Core's EvalScript, consensus   *)
(* flags only) of the opcode set that buidl's interpreter implements.  DESIGN.md A.1.   *)
(*                                                                                      *)
(*  - OpResult : every non-flow opcode as a function (stack, altstack, ctx) -> result   *)
(*  - the machine: variables pc, stack, alt, exec, status; one action per command       *)
(*  - Run      : the same machine as a recursive operator (used to decide recorded      *)
(*               programs in one evaluation; MC_Machine checks that both agree)         *)
(* Script numbers are sign + magnitude with the magnitude a BN byte string, so sums of  *)
(* 4-byte operands and 5-byte CLTV/CSV operands never touch TLC's 32-bit integers.      *)
EXTENDS BN, HashOracle, IOUtils


Top(st) == st[Len(st)]
Pop(st) == SubSeq(st, 1, Len(st) - 1)
PopN(st, n) == SubSeq(st, 1, Len(st) - n)
Peek(st, k) == st[Len(st) - k]            \* k = 0 is the top

CastToBool(v) == \E i \in 1..Len(v) : v[i] # 0 /\ ~(i = Len(v) /\ v[i] = 128)

\* ---------------------------------------------------------------- script numbers
NumZero == [neg |-> FALSE, mag |-> <<>>]
MkNum(neg, mag) == LET m == Strip(mag) IN [neg |-> neg /\ m # <<>>, mag |-> m]
DecodeNum(v) == IF Len(v) = 0 THEN NumZero
                ELSE LET top == v[Len(v)] IN MkNum(top >= 128, Pop(v) \o <<top % 128>>)
EncodeNum(n) == IF n.mag = <<>> THEN <<>>
                ELSE LET m == n.mag  top == m[Len(m)] IN
                     IF top >= 128 THEN m \o <<IF n.neg THEN 128 ELSE 0>>
                     ELSE IF n.neg THEN [m EXCEPT ![Len(m)] = top + 128] ELSE m
NumInt(k) == IF k >= 0 THEN MkNum(FALSE, FromInt(k)) ELSE MkNum(TRUE, FromInt(-k))
NumNeg(a) == MkNum(~a.neg, a.mag)
NumAbs(a) == MkNum(FALSE, a.mag)
NumAdd(a, b) == IF a.neg = b.neg THEN MkNum(a.neg, Add(a.mag, b.mag))
                ELSE IF Le(b.mag, a.mag) THEN MkNum(a.neg, Sub(a.mag, b.mag))
                ELSE MkNum(b.neg, Sub(b.mag, a.mag))
NumSub(a, b) == NumAdd(a, NumNeg(b))
NumCmp(a, b) == IF a.neg /\ ~b.neg THEN -1 ELSE IF ~a.neg /\ b.neg THEN 1
                ELSE IF a.neg THEN Cmp(b.mag, a.mag) ELSE Cmp(a.mag, b.mag)
NumIsZero(a) == a.mag = <<>>
NumSmall(a) == IF Len(a.mag) <= 3 THEN (IF a.neg THEN -ToInt(a.mag) ELSE ToInt(a.mag)) ELSE
               (IF a.neg THEN -16777216 ELSE 16777216)       \* saturating: only compared with sizes
Minimal(v) == v = <<>> \/ (v[Len(v)] % 128 # 0) \/ (Len(v) > 1 /\ v[Len(v) - 1] >= 128)
BoolItem(b) == IF b THEN <<1>> ELSE <<>>

\* ---------------------------------------------------------------- results
Fail == [ok |-> FALSE, oos |-> FALSE, st |-> <<>>, alt |-> <<>>]
OutOfScope == [ok |-> FALSE, oos |-> TRUE, st |-> <<>>, alt |-> <<>>]   \* operand > 4 bytes: outside the property
Ok(st, alt) == [ok |-> TRUE, oos |-> FALSE, st |-> st, alt |-> alt]

NopOps == {97, 176} \cup (179..185)
ConstOps == {0, 79} \cup (81..96)
FlowOps == {99, 100, 103, 104}
Arith1 == {139, 140, 143, 144, 145, 146}
Arith2 == {147, 148, 154, 155, 156, 157, 158, 159, 160, 161, 162, 163, 164}
HashOps == {166, 167, 168, 169, 170}
StackOps == {105, 106, 107, 108, 109, 110, 111, 112, 113, 114, 115, 116, 117, 118, 119, 120, 121, 122,
             123, 124, 125, 130, 135, 136}
TimeOps == {177, 178}
PlainOps == NopOps \cup ConstOps \cup Arith1 \cup Arith2 \cup {165} \cup HashOps \cup StackOps \cup TimeOps
Implemented == PlainOps \cup FlowOps
HashName(op) == CASE op = 166 -> "ripemd160" [] op = 167 -> "sha1" [] op = 168 -> "sha256"
                  [] op = 169 -> "hash160" [] op = 170 -> "hash256"

\* ---------------------------------------------------------------- timelocks (BIP65 / BIP112)
\* ctx = [locktime |-> BN, sequence |-> BN, version |-> BN, ho |-> hash oracle]; operands are up to 5 bytes
Threshold == FromInt(500000000)
Bit(a, k) == (Dig(a, (k \div 8) + 1) \div (2 ^ (k % 8))) % 2 = 1
Low16(a) == Strip(<<Dig(a, 1), Dig(a, 2)>>)
SeqFinal == <<255, 255, 255, 255>>
CLTVok(n, ctx) ==
  /\ ~n.neg
  /\ (Lt(n.mag, Threshold) <=> Lt(ctx.locktime, Threshold))
  /\ Le(n.mag, ctx.locktime)
  /\ Strip(ctx.sequence) # SeqFinal
CSVok(n, ctx) ==
  /\ ~n.neg
  /\ \/ Bit(n.mag, 31)                          \* disable flag on the operand: behaves as a NOP
     \/ /\ Le(FromInt(2), ctx.version)
        /\ ~Bit(ctx.sequence, 31)
        /\ (Bit(n.mag, 22) <=> Bit(ctx.sequence, 22))
        /\ Le(Low16(n.mag), Low16(ctx.sequence))

\* ---------------------------------------------------------------- single opcodes
Arith1Res(op, a) ==
  CASE op = 139 -> EncodeNum(NumAdd(a, NumInt(1)))
    [] op = 140 -> EncodeNum(NumSub(a, NumInt(1)))
    [] op = 143 -> EncodeNum(NumNeg(a))
    [] op = 144 -> EncodeNum(NumAbs(a))
    [] op = 145 -> BoolItem(NumIsZero(a))
    [] op = 146 -> BoolItem(~NumIsZero(a))
Arith2Res(op, a, b) ==    \* a is the second-from-top, b the top
  CASE op = 147 -> EncodeNum(NumAdd(a, b))
    [] op = 148 -> EncodeNum(NumSub(a, b))
    [] op = 154 -> BoolItem(~NumIsZero(a) /\ ~NumIsZero(b))
    [] op = 155 -> BoolItem(~NumIsZero(a) \/ ~NumIsZero(b))
    [] op \in {156, 157} -> BoolItem(NumCmp(a, b) = 0)
    [] op = 158 -> BoolItem(NumCmp(a, b) # 0)
    [] op = 159 -> BoolItem(NumCmp(a, b) < 0)
    [] op = 160 -> BoolItem(NumCmp(a, b) > 0)
    [] op = 161 -> BoolItem(NumCmp(a, b) <= 0)
    [] op = 162 -> BoolItem(NumCmp(a, b) >= 0)
    [] op = 163 -> EncodeNum(IF NumCmp(a, b) < 0 THEN a ELSE b)
    [] op = 164 -> EncodeNum(IF NumCmp(a, b) > 0 THEN a ELSE b)

OpResult(op, st, alt, ctx) ==
  LET n == Len(st) IN
  CASE op \in NopOps -> Ok(st, alt)
    [] op = 0 -> Ok(Append(st, <<>>), alt)
    [] op = 79 -> Ok(Append(st, <<129>>), alt)
    [] op \in 81..96 -> Ok(Append(st, <<op - 80>>), alt)
    [] op = 105 -> IF n < 1 THEN Fail ELSE IF CastToBool(Top(st)) THEN Ok(Pop(st), alt) ELSE Fail
    [] op = 106 -> Fail
    [] op = 107 -> IF n < 1 THEN Fail ELSE Ok(Pop(st), Append(alt, Top(st)))
    [] op = 108 -> IF Len(alt) < 1 THEN Fail ELSE Ok(Append(st, Top(alt)), Pop(alt))
    [] op = 109 -> IF n < 2 THEN Fail ELSE Ok(PopN(st, 2), alt)
    [] op = 110 -> IF n < 2 THEN Fail ELSE Ok(st \o <<Peek(st, 1), Peek(st, 0)>>, alt)
    [] op = 111 -> IF n < 3 THEN Fail ELSE Ok(st \o <<Peek(st, 2), Peek(st, 1), Peek(st, 0)>>, alt)
    [] op = 112 -> IF n < 4 THEN Fail ELSE Ok(st \o <<Peek(st, 3), Peek(st, 2)>>, alt)
    [] op = 113 -> IF n < 6 THEN Fail
                   ELSE Ok(PopN(st, 6) \o <<Peek(st, 3), Peek(st, 2), Peek(st, 1), Peek(st, 0), Peek(st, 5), Peek(st, 4)>>, alt)
    [] op = 114 -> IF n < 4 THEN Fail
                   ELSE Ok(PopN(st, 4) \o <<Peek(st, 1), Peek(st, 0), Peek(st, 3), Peek(st, 2)>>, alt)
    [] op = 115 -> IF n < 1 THEN Fail ELSE Ok(IF CastToBool(Top(st)) THEN Append(st, Top(st)) ELSE st, alt)
    [] op = 116 -> Ok(Append(st, EncodeNum(NumInt(n))), alt)
    [] op = 117 -> IF n < 1 THEN Fail ELSE Ok(Pop(st), alt)
    [] op = 118 -> IF n < 1 THEN Fail ELSE Ok(Append(st, Top(st)), alt)
    [] op = 119 -> IF n < 2 THEN Fail ELSE Ok(Append(PopN(st, 2), Top(st)), alt)
    [] op = 120 -> IF n < 2 THEN Fail ELSE Ok(Append(st, Peek(st, 1)), alt)
    [] op \in {121, 122} ->
         IF n < 2 THEN Fail
         ELSE IF Len(Top(st)) > 4 THEN OutOfScope
         ELSE LET k == NumSmall(DecodeNum(Top(st)))  s == Pop(st) IN
              IF k < 0 \/ k >= Len(s) THEN Fail
              ELSE IF op = 121 THEN Ok(Append(s, Peek(s, k)), alt)
              ELSE Ok(SubSeq(s, 1, Len(s) - k - 1) \o SubSeq(s, Len(s) - k + 1, Len(s)) \o <<Peek(s, k)>>, alt)
    [] op = 123 -> IF n < 3 THEN Fail ELSE Ok(PopN(st, 3) \o <<Peek(st, 1), Peek(st, 0), Peek(st, 2)>>, alt)
    [] op = 124 -> IF n < 2 THEN Fail ELSE Ok(PopN(st, 2) \o <<Peek(st, 0), Peek(st, 1)>>, alt)
    [] op = 125 -> IF n < 2 THEN Fail ELSE Ok(PopN(st, 2) \o <<Peek(st, 0), Peek(st, 1), Peek(st, 0)>>, alt)
    [] op = 130 -> IF n < 1 THEN Fail ELSE Ok(Append(st, EncodeNum(NumInt(Len(Top(st))))), alt)
    [] op = 135 -> IF n < 2 THEN Fail ELSE Ok(Append(PopN(st, 2), BoolItem(Peek(st, 0) = Peek(st, 1))), alt)
    [] op = 136 -> IF n < 2 THEN Fail ELSE IF Peek(st, 0) = Peek(st, 1) THEN Ok(PopN(st, 2), alt) ELSE Fail
    [] op \in Arith1 ->
         IF n < 1 THEN Fail ELSE IF Len(Top(st)) > 4 THEN OutOfScope
         ELSE Ok(Append(Pop(st), Arith1Res(op, DecodeNum(Top(st)))), alt)
    [] op \in Arith2 ->
         IF n < 2 THEN Fail ELSE IF Len(Peek(st, 0)) > 4 \/ Len(Peek(st, 1)) > 4 THEN OutOfScope
         ELSE LET r == Arith2Res(op, DecodeNum(Peek(st, 1)), DecodeNum(Peek(st, 0))) IN
              IF op = 157 THEN (IF CastToBool(r) THEN Ok(PopN(st, 2), alt) ELSE Fail)
              ELSE Ok(Append(PopN(st, 2), r), alt)
    [] op = 165 ->
         IF n < 3 THEN Fail
         ELSE IF Len(Peek(st, 0)) > 4 \/ Len(Peek(st, 1)) > 4 \/ Len(Peek(st, 2)) > 4 THEN OutOfScope
         ELSE LET x == DecodeNum(Peek(st, 2))  lo == DecodeNum(Peek(st, 1))  hi == DecodeNum(Peek(st, 0)) IN
              Ok(Append(PopN(st, 3), BoolItem(NumCmp(lo, x) <= 0 /\ NumCmp(x, hi) < 0)), alt)
    [] op \in HashOps -> IF n < 1 THEN Fail ELSE Ok(Append(Pop(st), HashIn(ctx.ho, HashName(op), Top(st))), alt)
    [] op = 177 -> IF n < 1 THEN Fail ELSE IF Len(Top(st)) > 5 THEN OutOfScope
                   ELSE IF CLTVok(DecodeNum(Top(st)), ctx) THEN Ok(st, alt) ELSE Fail
    [] op = 178 -> IF n < 1 THEN Fail ELSE IF Len(Top(st)) > 5 THEN OutOfScope
                   ELSE IF CSVok(DecodeNum(Top(st)), ctx) THEN Ok(st, alt) ELSE Fail
    [] OTHER -> Fail

\* ---------------------------------------------------------------- the machine
\* a command is [op |-> opcode or -1 for a data push, d |-> pushed bytes]
Executing(exec) == \A i \in 1..Len(exec) : exec[i]
FinalVerdict(st, exec) == IF exec # <<>> THEN "reject"
                          ELSE IF st = <<>> THEN "reject"
                          ELSE IF CastToBool(Top(st)) THEN "accept" ELSE "reject"

\* one step of the machine as a function of the state: returns the next state record
StepState(prog, ctx, s) ==
  IF s.pc > Len(prog) THEN [s EXCEPT !.status = FinalVerdict(s.st, s.exec)]
  ELSE LET c == prog[s.pc]  ex == Executing(s.exec)  nxt == [s EXCEPT !.pc = s.pc + 1] IN
    IF c.op = -1 THEN (IF ex THEN [nxt EXCEPT !.st = Append(s.st, c.d)] ELSE nxt)
    ELSE IF c.op \in {99, 100} THEN
         IF ~ex THEN [nxt EXCEPT !.exec = Append(s.exec, FALSE)]
         ELSE IF s.st = <<>> THEN [s EXCEPT !.status = "reject"]
         ELSE LET v == CastToBool(Top(s.st)) IN
              [nxt EXCEPT !.st = Pop(s.st), !.exec = Append(s.exec, IF c.op = 99 THEN v ELSE ~v)]
    ELSE IF c.op = 103 THEN
         IF s.exec = <<>> THEN [s EXCEPT !.status = "reject"]
         ELSE [nxt EXCEPT !.exec = [s.exec EXCEPT ![Len(s.exec)] = ~s.exec[Len(s.exec)]]]
    ELSE IF c.op = 104 THEN
         IF s.exec = <<>> THEN [s EXCEPT !.status = "reject"] ELSE [nxt EXCEPT !.exec = Pop(s.exec)]
    ELSE IF ~ex THEN nxt
    ELSE LET r == OpResult(c.op, s.st, s.alt, ctx) IN
         IF r.oos THEN [s EXCEPT !.status = "oos"]
         ELSE IF ~r.ok THEN [s EXCEPT !.status = "reject"]
         ELSE [nxt EXCEPT !.st = r.st, !.alt = r.alt]

InitState == [pc |-> 1, st |-> <<>>, alt |-> <<>>, exec |-> <<>>, status |-> "run"]
RECURSIVE RunR(_, _, _)
RunR(prog, ctx, s) == IF s.status # "run" THEN s ELSE RunR(prog, ctx, StepState(prog, ctx, s))
Run(prog, ctx) == RunR(prog, ctx, InitState)
Verdict(prog, ctx) == Run(prog, ctx).status
==================================================================================
