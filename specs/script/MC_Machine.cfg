SPECIFICATION Spec
CONSTANTS
  MaxLen <- MaxLenEnv
  Alphabet <- AlphaQuick
INVARIANT TypeOK
INVARIANT Refinement
INVARIANT NoFalseAccept
INVARIANT RunAgrees
INVARIANT Acc
PROPERTY SkippedInert
PROPERTY PcMonotone
