---- MODULE MC_Machine ----
EXTENDS Machine
P(d) == [op |-> -1, d |-> d]
O(n) == [op |-> n, d |-> <<>>]
AlphaQuick == << P(<<>>), P(<<1>>), P(<<128>>), P(<<0>>), O(99), O(100), O(103), O(104),
                 O(118), O(105), O(145), O(147), O(117), O(116), O(107), O(108), O(135), O(106) >>
MaxLenEnv == IF "MAXLEN" \in DOMAIN IOEnv THEN atoi(IOEnv.MAXLEN) ELSE 3
====
