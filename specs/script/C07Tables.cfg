INIT Init
NEXT Next
