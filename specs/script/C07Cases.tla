--------------------------------- MODULE C07Cases ---------------------------------
(* Binding B for C07: TLC decides every recorded implementation event.                   *)
(*  kind "op"   : one opcode executed by the real interpreter inside a real run           *)
(*                (stack/altstack before, outcome, stack/altstack after)                   *)
(*  kind "prog" : a whole program run by Script.evaluate: TLC executes the reference       *)
(*                machine on the logged program and context and compares the verdict      *)
(*  kind "num"  : encode_num / decode_num on a logged value                               *)
EXTENDS Consensus, CaseIO

CtxOf(c) == [locktime |-> Strip(c.locktime), sequence |-> Strip(c.sequence), version |-> Strip(c.version),
             ho |-> HRows(c.hr)]

WhyOp(c) ==
  LET r == OpResult(c.op, c.st, c.alt, CtxOf(c)) IN
  IF r.oos THEN ""                                   \* operand > 4 bytes: outside the property
  ELSE IF ~r.ok THEN (IF c.res = "ok" THEN "op-accepted-where-consensus-fails" ELSE "")
  ELSE IF c.res # "ok" THEN "op-fails-where-consensus-succeeds"
  ELSE IF r.st # c.rst THEN "op-wrong-stack"
  ELSE IF r.alt # c.ralt THEN "op-wrong-altstack"
  ELSE ""

WhyProg(c) ==
  LET v == Verdict(c.prog, CtxOf(c)) IN
  IF v = "oos" THEN ""
  ELSE IF v # c.verdict THEN (IF c.verdict = "accept" THEN "accepts-where-consensus-rejects"
                              ELSE "rejects-where-consensus-accepts")
  ELSE ""

WhyNum(c) ==
  LET n == MkNum(c.neg, c.mag) IN
  IF EncodeNum(n) # c.enc THEN "encode_num-differs"
  ELSE IF ~Minimal(c.enc) THEN "encode_num-not-minimal"
  ELSE IF c.dec_neg # n.neg \/ Strip(c.dec_mag) # n.mag THEN "decode_num-does-not-invert"
  ELSE ""

Why(c) == CASE c.kind = "op" -> WhyOp(c) [] c.kind = "prog" -> WhyProg(c) [] c.kind = "num" -> WhyNum(c)

VARIABLES i, bad
Init == i = 1 /\ bad = <<>>
Next == /\ i <= NCases /\ i' = i + 1
        /\ bad' = LET w == Why(Cases[i]) IN IF w = "" THEN bad ELSE Append(bad, [id |-> Cases[i].id, why |-> w])
Fin == (i = NCases + 1) => JsonSerialize(IOEnv.OUT, bad)
====================================================================================
