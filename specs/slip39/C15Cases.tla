--------------------------------- MODULE C15Cases ---------------------------------
(* Binding B for C15: recorded SLIP39 calls decided by TLC with Slip39.tla.                   *)
EXTENDS Slip39, CaseIO, FiniteSets
HO(c) == HRows(c.hr)
WhyGf(c) == IF c.exp # ExpTable THEN "exp-table"
            ELSE IF \E i \in 1..255 : c.log[ExpTable[i] + 1] # i - 1 THEN "log-table" ELSE ""
WhyShare(c) == LET w == ShareWords(c.f)  p == ParseShare(c.words) IN
  IF c.res # "ok" THEN "share-construction-raises"
  ELSE IF c.words # w THEN "share-mnemonic-words"
  ELSE IF ~p.ok \/ ~c.parse_ok THEN "share-parse-fails"
  ELSE IF <<p.id, p.exp, p.gi, p.gt, p.gc, p.mi, p.mt>> # <<c.f.id, c.f.exp, c.f.gi, c.f.gt, c.f.gc, c.f.mi, c.f.mt>> \/ p.value # c.f.value THEN "spec-roundtrip"
  ELSE IF c.parsed # <<c.f.id, c.f.exp, c.f.gi, c.f.gt, c.f.gc, c.f.mi, c.f.mt>> \/ c.parsed_value # c.f.value THEN "share-parse-fields" ELSE ""
WhyCorrupt(c) == IF RSVerify(c.words) THEN "spec-checksum-does-not-detect"     \* up to 3 substitutions are always detected by RS1024 (distance 4)
                 ELSE IF c.accepted THEN "corrupted-share-accepted" ELSE ""
WhyCrypt(c) == LET e == Encrypt(HO(c), c.payload, c.sid, c.exp, c.pass) IN
  IF e = <<-1>> THEN "round-function-input-differs"
  ELSE IF c.enc # e THEN "encrypt-differs"
  ELSE IF c.dec # c.payload THEN "decrypt-does-not-invert"
  ELSE IF Decrypt(HO(c), e, c.sid, c.exp, c.pass) # c.payload THEN "spec-roundtrip" ELSE ""
\* generate_shares with the random stream fixed: c.rnd = [id15, digest-random bytes, random share bytes...]
WhySplit(c) ==
  LET enc == Encrypt(HO(c), c.secret, c.sid, c.exp, c.pass)
      nb == Len(c.secret)
      dsh == HashIn(HO(c), "hmac256", c.drandom \o <<-3>> \o enc)
      base == [i \in 1..c.k |-> IF i <= c.k - 2 THEN [x |-> i - 1, y |-> c.rshares[i]] ELSE IF i = c.k - 1 THEN [x |-> 254, y |-> Take(dsh, 4) \o c.drandom] ELSE [x |-> 255, y |-> enc]]
      val(i) == IF c.k = 1 THEN enc ELSE IF i < c.k - 2 THEN c.rshares[i + 1] ELSE Interpolate(i, base)
      cnt == IF c.k = 1 THEN 1 ELSE c.n IN
  IF enc = <<-1>> \/ (c.k > 1 /\ dsh = NoHash) THEN "hash-input-differs"
  ELSE IF Len(c.shares) # cnt THEN "number-of-shares"
  ELSE IF \E i \in 0..(cnt - 1) : c.shares[i + 1] # ShareWords([id |-> c.sid, exp |-> c.exp, gi |-> i, gt |-> c.k, gc |-> c.n, mi |-> 0, mt |-> 1, value |-> val(i)]) THEN "share-bytes-differ"
  ELSE ""
WhyRecover(c) == IF c.expect = "secret" THEN (IF c.res = "ok" /\ c.got = c.mnemonic THEN "" ELSE "qualified-subset-does-not-recover")
                 ELSE (IF c.res = "ok" THEN "recovers-from-" \o c.expect ELSE "")
Why(c) == CASE c.kind = "gf" -> WhyGf(c) [] c.kind = "interp" -> (IF c.out = Interpolate(c.x, c.pts) THEN "" ELSE "interpolate-differs")
            [] c.kind = "share" -> WhyShare(c) [] c.kind = "corrupt" -> WhyCorrupt(c) [] c.kind = "crypt" -> WhyCrypt(c)
            [] c.kind = "split" -> WhySplit(c) [] c.kind = "recover" -> WhyRecover(c)
VARIABLES i, bad
Init == i = 1 /\ bad = <<>>
Next == /\ i <= NCases /\ i' = i + 1
        /\ bad' = LET w == Why(Cases[i]) IN IF w = "" THEN bad ELSE Append(bad, [id |-> Cases[i].id, why |-> w])
Fin == (i = NCases + 1) => JsonSerialize(IOEnv.OUT, bad)
====================================================================================
