---------------------------------- MODULE MC_Shamir ----------------------------------
(* C15, binding C: the threshold scheme as a state machine over GF(256) with one-byte          *)
(* secrets: Init picks (k, n), the secret, the digest-share byte and the random share bytes,     *)
(* the dealer computes the n shares by interpolation exactly as split_secret does; Collect        *)
(* adds one share to the holder's set.  Invariants: any k or more distinct shares interpolate     *)
(* back the secret (and the digest share); with fewer than k the recovery procedure refuses;      *)
(* the recovered value does not depend on which qualified subset is used.  Also GF(256)        *)
(* field axioms and the exp table against its definition.                                          *)
EXTENDS Slip39, FiniteSets, IOUtils
NMax == atoi(IOEnv.NMAX)
VARIABLES k, n, secret, dshare, rnd, held
vars == <<k, n, secret, dshare, rnd, held>>
Vals == {0, 1, 83, 255}
\* base points as in split_secret: x = 0..k-3 random, 254 digest share, 255 secret
BasePts == [i \in 1..k |-> IF i <= k - 2 THEN [x |-> i - 1, y |-> <<rnd[i]>>] ELSE IF i = k - 1 THEN [x |-> 254, y |-> <<dshare>>] ELSE [x |-> 255, y |-> <<secret>>]]
ShareAt(i) == IF k = 1 THEN <<secret>> ELSE IF i < k - 2 THEN <<rnd[i + 1]>> ELSE Interpolate(i, BasePts)
Init == /\ n \in 1..NMax /\ k \in 1..n /\ secret \in Vals /\ dshare \in {7, 200} /\ rnd \in [1..(IF NMax > 5 THEN NMax - 2 ELSE 3) -> {5, 90}] /\ held = {}
Collect == \E i \in 0..(n - 1) : i \notin held /\ held' = held \cup {i} /\ UNCHANGED <<k, n, secret, dshare, rnd>>
Spec == Init /\ [][Collect]_vars
HeldPts == LET s == SetToSeq(held) IN [j \in 1..Len(s) |-> [x |-> s[j], y |-> ShareAt(s[j])]]
\* recovery as ShareSet.recover does it for one group level
Recover == IF k = 1 THEN (IF held = {} THEN <<"refuse">> ELSE ShareAt(0))
           ELSE IF Cardinality(held) < k THEN <<"refuse">> ELSE Interpolate(255, HeldPts)
EnoughRecovers == (Cardinality(held) >= k /\ (k > 1 \/ 0 \in held)) => (Recover = <<secret>> /\ (k > 1 => Interpolate(254, HeldPts) = <<dshare>>))
FewerRefuses == (k > 1 /\ Cardinality(held) < k) => Recover = <<"refuse">>
\* any two qualified subsets agree (the recovered value does not depend on which shares are used)
SubsetIndependent == (k > 1 /\ Cardinality(held) >= k) => \A drop \in held : Cardinality(held) - 1 < k \/
   LET s2 == SetToSeq(held \ {drop}) IN Interpolate(255, [j \in 1..Len(s2) |-> [x |-> s2[j], y |-> ShareAt(s2[j])]]) = <<secret>>
ASSUME \A a \in {0, 1, 2, 3, 83, 202, 255}, b \in 0..255 : GFMul(a, b) = GFMul(b, a) /\ (a # 0 => GFMul(GFDiv(b, a), a) = b)
ASSUME \A a \in {1, 2, 3, 83, 255}, b \in {0, 7, 254}, c \in 0..255 : GFMul(a, b ^^ c) = (GFMul(a, b) ^^ GFMul(a, c)) /\ GFMul(GFMul(a, b), c) = GFMul(a, GFMul(b, c))
ASSUME Cardinality({ExpTable[i] : i \in 1..255}) = 255 /\ ExpTable[1] = 1 /\ GFMul(ExpTable[255], 3) = 1
====================================================================================
