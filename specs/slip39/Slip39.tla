------------------------------------ MODULE Slip39 ------------------------------------
(* SLIP39 (C15): GF(256) arithmetic by definition (polynomial basis mod x^8+x^4+x^3+x+1),     *)
(* Lagrange interpolation, the share header bit packing, the RS1024 checksum, and the          *)
(* 4-round Feistel passphrase encryption over an uninterpreted round function (certified       *)
(* PBKDF2-HMAC-SHA256 rows).                                                                    *)
EXTENDS BN, HashOracle, Bitwise, TLC

\* ---- GF(256) -------------------------------------------------------------------------------
XTime(a) == LET d == 2 * a IN IF d > 255 THEN (d ^^ 283) ELSE d            \* multiply by x, reduce by 0x11B
RECURSIVE GFMulR(_, _, _)
GFMulR(a, b, acc) == IF b = 0 THEN acc ELSE GFMulR(XTime(a), b \div 2, IF b % 2 = 1 THEN acc ^^ a ELSE acc)
GFMul(a, b) == GFMulR(a, b, 0)
RECURSIVE GFPow(_, _)
GFPow(a, n) == IF n = 0 THEN 1 ELSE LET h == GFPow(a, n \div 2)  hh == GFMul(h, h) IN IF n % 2 = 1 THEN GFMul(hh, a) ELSE hh
GFInv(a) == GFPow(a, 254)                                                   \* a # 0
GFDiv(a, b) == GFMul(a, GFInv(b))
\* tables as the library precomputes them: powers of the generator 3
RECURSIVE ExpSeq(_, _, _)
ExpSeq(i, cur, acc) == IF i = 255 THEN acc ELSE ExpSeq(i + 1, GFMul(cur, 3), Append(acc, cur))
ExpTable == ExpSeq(0, 1, <<>>)                                              \* ExpTable[i+1] = 3^i
\* Lagrange basis coefficient of point i at x; xs: sequence of distinct abscissae
RECURSIVE BasisR(_, _, _, _, _, _)
BasisR(xs, i, x, j, num, den) == IF j > Len(xs) THEN GFDiv(num, den)
  ELSE IF j = i THEN BasisR(xs, i, x, j + 1, num, den) ELSE BasisR(xs, i, x, j + 1, GFMul(num, x ^^ xs[j]), GFMul(den, xs[i] ^^ xs[j]))
Basis(xs, i, x) == BasisR(xs, i, x, 1, 1, 1)
\* interpolate byte strings: pts = sequence of [x, y (bytes)]
Interpolate(x, pts) ==
  LET xs == [i \in 1..Len(pts) |-> pts[i].x]
      coef == TLCEval([i \in 1..Len(pts) |-> Basis(xs, i, x)])
      RECURSIVE sumk(_, _, _)
      sumk(k, i, acc) == IF i > Len(pts) THEN acc ELSE sumk(k, i + 1, acc ^^ GFMul(pts[i].y[k], coef[i])) IN
  [k \in 1..Len(pts[1].y) |-> sumk(k, 1, 0)]

\* ---- RS1024 ----------------------------------------------------------------------------------------
RSGEN == <<14737472, 29474944, 58949888, 117899776, 235798537, 470557714, 940076068, 814808136, 565311632, 66318624>>
RSStep(chk, v) == LET b == chk \div 1048576  base == ((chk % 1048576) * 1024) ^^ v
                      RECURSIVE f(_, _) f(i, acc) == IF i > 10 THEN acc ELSE f(i + 1, IF (b \div (2 ^ (i - 1))) % 2 = 1 THEN acc ^^ RSGEN[i] ELSE acc) IN f(1, base)
RECURSIVE RSPolyR(_, _, _)
RSPolyR(vs, i, chk) == IF i > Len(vs) THEN chk ELSE RSPolyR(vs, i + 1, RSStep(chk, vs[i]))
Shamir == <<115, 104, 97, 109, 105, 114>>
RSVerify(words) == RSPolyR(Shamir \o words, 1, 1) = 1
RSChecksum(words) == LET pm == RSPolyR(Shamir \o words \o <<0, 0, 0>>, 1, 1) ^^ 1 IN <<(pm \div 1048576) % 1024, (pm \div 1024) % 1024, pm % 1024>>

\* ---- share mnemonic (as 10-bit word indexes) -------------------------------------------------------
Bits(v, n) == [k \in 1..n |-> (v \div (2 ^ (n - k))) % 2]
RECURSIVE BitsOfBytes(_, _, _)
BitsOfBytes(s, i, acc) == IF i > Len(s) THEN acc ELSE BitsOfBytes(s, i + 1, acc \o Bits(s[i], 8))
RECURSIVE B2I(_, _, _, _)
B2I(bits, from, n, acc) == IF n = 0 THEN acc ELSE B2I(bits, from + 1, n - 1, 2 * acc + bits[from])
\* f: [id, exp, gi, gt, gc, mi, mt, value (bytes, 16 or 32)]
ShareWords(f) ==
  LET vbits == BitsOfBytes(f.value, 1, <<>>)
      pad == 10 - (Len(vbits) % 10)
      bits == Bits(f.id, 15) \o Bits(f.exp, 5) \o Bits(f.gi, 4) \o Bits(f.gt - 1, 4) \o Bits(f.gc - 1, 4) \o Bits(f.mi, 4) \o Bits(f.mt - 1, 4)
              \o [k \in 1..pad |-> 0] \o vbits
      n == Len(bits) \div 10
      ws == [k \in 1..n |-> B2I(bits, 10 * (k - 1) + 1, 10, 0)] IN
  ws \o RSChecksum(ws)
ParseShare(words) ==
  IF Len(words) < 20 \/ ~RSVerify(words) THEN [ok |-> FALSE]
  ELSE LET body == SubSeq(words, 1, Len(words) - 3)
           RECURSIVE wb(_, _) wb(i, acc) == IF i > Len(body) THEN acc ELSE wb(i + 1, acc \o Bits(body[i], 10))
           bits == wb(1, <<>>)
           vlen == ((((Len(words) - 7) * 10) \div 16)) * 16
           padlen == Len(bits) - 40 - vlen IN
       IF \E k \in 41..(40 + padlen) : bits[k] = 1 THEN [ok |-> FALSE]
       ELSE [ok |-> TRUE, id |-> B2I(bits, 1, 15, 0), exp |-> B2I(bits, 16, 5, 0), gi |-> B2I(bits, 21, 4, 0), gt |-> B2I(bits, 25, 4, 0) + 1,
             gc |-> B2I(bits, 29, 4, 0) + 1, mi |-> B2I(bits, 33, 4, 0), mt |-> B2I(bits, 37, 4, 0) + 1,
             value |-> [k \in 1..(vlen \div 8) |-> B2I(bits, 40 + padlen + 8 * (k - 1) + 1, 8, 0)]]

\* ---- Feistel ------------------------------------------------------------------------------------------
XorS(a, b) == [k \in 1..Len(a) |-> a[k] ^^ b[k]]
Salt(id) == Shamir \o <<id \div 256, id % 256>>
RoundF(ho, exp, i, pass, id, right) == HashIn(ho, "pbkdf2-sha256-e" \o ToString(exp), <<i>> \o pass \o <<-3>> \o Salt(id) \o right)
RECURSIVE FeistelR(_, _, _, _, _, _, _, _)
FeistelR(ho, exp, pass, id, rounds, k, l, r) == IF k > Len(rounds) THEN r \o l
  ELSE LET f == RoundF(ho, exp, rounds[k], pass, id, r) IN IF f = NoHash THEN <<-1>> ELSE FeistelR(ho, exp, pass, id, rounds, k + 1, r, XorS(l, f))
Crypt(ho, payload, id, exp, pass, rounds) == LET h == Len(payload) \div 2 IN FeistelR(ho, exp, pass, id, rounds, 1, SubSeq(payload, 1, h), SubSeq(payload, h + 1, Len(payload)))
Encrypt(ho, p, id, exp, pass) == Crypt(ho, p, id, exp, pass, <<0, 1, 2, 3>>)
Decrypt(ho, p, id, exp, pass) == Crypt(ho, p, id, exp, pass, <<3, 2, 1, 0>>)
====================================================================================
