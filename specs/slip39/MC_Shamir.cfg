SPECIFICATION Spec
INVARIANT EnoughRecovers
INVARIANT FewerRefuses
INVARIANT SubsetIndependent
