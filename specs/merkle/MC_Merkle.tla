---------------------------------- MODULE MC_Merkle ----------------------------------
(* C17 bindings C and A.  With free-constructor hashes:                                       *)
(*  (1) for every block size n <= NMAX and every subset of matched positions, the proof built   *)
(*      per BIP37 validates and yields exactly the matched ids in order (ASSUME), and the        *)
(*      proofs are exported for replay through MerkleBlock;                                      *)
(*  (2) an adversary that submits any flags / hashes drawn from the tree's own node hashes and    *)
(*      a foreign value (state machine over the verifier walk): whenever the proof validates      *)
(*      against the true root, every id it yields is a leaf of the block.                         *)
EXTENDS Merkle, Json, IOUtils, FiniteSets, TLC

NMax == atoi(IOEnv.NMAX)
Leaf(k) == <<k>> \o Rep((37 * k) % 251, 31)
Leaves(n) == [k \in 1..n |-> Leaf(k)]
MatchedInOrder(n, ms) == LET idx == SetToSeq(ms) IN SortSeq(idx, <)
SeqOfSet(ms) == LET RECURSIVE f(_, _) f(k, acc) == IF k > NMax THEN acc ELSE f(k + 1, IF k \in ms THEN Append(acc, k) ELSE acc) IN f(1, <<>>)
ProofOK(n, ms) == LET lv == Leaves(n)  p == Proof(HFree, lv, ms)  v == Verify(HFree, n, p.flags, p.hashes, MerkleRoot(HFree, lv)) IN
   /\ v.valid /\ v.proved = [k \in 1..Len(SeqOfSet(ms)) |-> lv[SeqOfSet(ms)[k]]]
   /\ NodeHash(HFree, lv, 0, 0) = MerkleRoot(HFree, lv)
ASSUME \A n \in 1..NMax : \A ms \in SUBSET (1..n) : ProofOK(n, ms)
Row(n, ms) == LET p == Proof(HFree, Leaves(n), ms) IN [n |-> n, ms |-> SeqOfSet(ms), flags |-> p.flags, hashes |-> p.hashes, root |-> MerkleRoot(HFree, Leaves(n))]
Rows == UNION {{Row(n, ms) : ms \in SUBSET (1..n)} : n \in 1..NMax}
ASSUME IOEnv.EXPORT = "1" => JsonSerialize(IOEnv.OUT, SetToSeq(Rows))

\* ---- adversary --------------------------------------------------------------------------------
AN == atoi(IOEnv.ADVN)
ALv == Leaves(AN)
NodeHashes == {NodeHash(HFree, ALv, d, i) : d \in 0..Depth(AN), i \in 0..(AN - 1)} 
Pool == {NodeHash(HFree, ALv, d, i) : <<d, i>> \in {<<d, i>> \in (0..Depth(AN)) \X (0..(AN - 1)) : i < Width(AN, d)}} \cup {Rep(99, 32)}
RECURSIVE SeqsUpTo(_, _)
SeqsUpTo(S, k) == IF k = 0 THEN {<<>>} ELSE LET P == SeqsUpTo(S, k - 1) IN P \cup {Append(p, x) : p \in {q \in P : Len(q) = k - 1}, x \in S}
VARIABLES s
Init == \E fl \in SeqsUpTo({0, 1}, atoi(IOEnv.ADVFLAGS)), hs \in SeqsUpTo(Pool, atoi(IOEnv.ADVHASHES)) : s = WInit(fl, hs)
Step == s.st = "run" /\ s' = WStep(HFree, AN, s)
Spec == Init /\ [][Step]_s
TrueRoot == MerkleRoot(HFree, ALv)
OnlyLeavesProved == (s.st = "done" /\ Get(s, 0, 0) = TrueRoot) => \A k \in 1..Len(s.proved) : \E j \in 1..AN : s.proved[k] = ALv[j]
Terminates == [][s'.st = "run" => (Len(s'.flags) + Len(s'.hashes) < Len(s.flags) + Len(s.hashes) \/ Cardinality(DOMAIN s'.known) > Cardinality(DOMAIN s.known) \/ s'.d > s.d)]_s
====================================================================================
