--------------------------------- MODULE C17Cases ---------------------------------
(* Binding B for C17: recorded calls decided by TLC with Merkle.tla.                        *)
(*  "root"    : merkle_root of logged txids = MerkleRoot with certified hash256 rows          *)
(*  "altered" : a proof (honest or altered) run through MerkleBlock: if it validates, every    *)
(*              yielded id is a block txid; altered hashes / root must not validate            *)
(*  "bits"    : bits <-> target, check_pow, retargeting                                        *)
(*  "header"  : header hash (certified row of the 80 bytes), proof-of-work verdict             *)
(*  "chain"   : HeadersMessage.is_valid = every header satisfies pow and links to its parent   *)
EXTENDS Merkle, CaseIO
HO(c) == HRows(c.hr)
WhyAltered(c) ==
  IF c.valid /\ \E k \in 1..Len(c.proved) : ~\E j \in 1..Len(c.txids) : c.proved[k] = c.txids[j] THEN "validates-and-yields-foreign-id"
  ELSE IF c.valid /\ c.alter \in {"hash-bit", "root-bit", "drop-hash", "extra-hash"} THEN "altered-proof-validates"
  ELSE IF c.alter = "none" /\ (~c.valid \/ c.proved # c.expect) THEN "honest-proof-fails"
  ELSE ""
WhyBits(c) ==
  IF c.target_ok /\ Strip(c.target) # BitsToTarget(c.bits) THEN "bits_to_target"
  ELSE IF ~c.target_ok THEN "bits_to_target-not-an-integer"
  ELSE IF c.back # TargetToBits(BitsToTarget(c.bits)) THEN "target_to_bits"
  ELSE IF c.newbits # NewBits(c.bits, c.dt) THEN "calculate_new_bits" ELSE ""
WhyHeader(c) == LET h == HashIn(HO(c), "hash256", c.raw) IN
  IF h = NoHash \/ c.hash # Rev(h) THEN "header-hash"
  ELSE IF c.pow # CheckPow(h, Slice(c.raw, 73, 76)) THEN "check_pow" ELSE ""
RECURSIVE ChainOK(_, _, _)
ChainOK(c, k, prev) == IF k > Len(c.raws) THEN TRUE
  ELSE LET h == HashIn(HO(c), "hash256", c.raws[k]) IN
       /\ h # NoHash /\ CheckPow(h, Slice(c.raws[k], 73, 76))
       /\ (k = 1 \/ Rev(Slice(c.raws[k], 5, 36)) = prev)
       /\ ChainOK(c, k + 1, Rev(h))
Why(c) == CASE c.kind = "root" -> (IF c.res = "ok" /\ c.root = MerkleRoot(HO(c), c.txids) THEN "" ELSE "merkle_root-differs")
            [] c.kind = "altered" -> WhyAltered(c) [] c.kind = "bits" -> WhyBits(c)
            [] c.kind = "t2b" -> (IF c.bits # TargetToBits(Strip(c.target)) THEN "target_to_bits:lead-" \o c.lead ELSE "")   \* arbitrary targets, leading byte around the sign bit
            [] c.kind = "header" -> WhyHeader(c)
            [] c.kind = "chain" -> (IF c.valid = ChainOK(c, 1, <<>>) THEN "" ELSE IF c.valid THEN "accepts-bad-header-chain" ELSE "rejects-good-header-chain")
VARIABLES i, bad
Init == i = 1 /\ bad = <<>>
Next == /\ i <= NCases /\ i' = i + 1
        /\ bad' = LET w == Why(Cases[i]) IN IF w = "" THEN bad ELSE Append(bad, [id |-> Cases[i].id, why |-> w])
Fin == (i = NCases + 1) => JsonSerialize(IOEnv.OUT, bad)
====================================================================================
