----------------------------------- MODULE Merkle -----------------------------------
(* Bitcoin Merkle trees, BIP37 partial Merkle trees and proof-of-work arithmetic (C17).       *)
(*  - MerkleRoot: pairwise hash256 with duplication of the last element of odd levels           *)
(*  - Build: the BIP37 prover (the repository has none; the specification supplies it)          *)
(*  - Walk: the verifier, written like MerkleTree.populate_tree (depth-first walk with a         *)
(*    cursor (depth, index), a table of known nodes, and the flag / hash queues)                 *)
(*  - compact bits <-> target, proof-of-work test and retargeting on BN byte strings             *)
EXTENDS BN, HashOracle

H2(ho, a, b) == HashIn(ho, "hash256", a \o b)
RECURSIVE LevelUp(_, _, _, _)
LevelUp(ho, lvl, i, acc) == IF i > Len(lvl) THEN acc
   ELSE LevelUp(ho, lvl, i + 2, Append(acc, H2(ho, lvl[i], IF i + 1 <= Len(lvl) THEN lvl[i + 1] ELSE lvl[i])))
RECURSIVE MerkleRoot(_, _)
MerkleRoot(ho, lvl) == IF Len(lvl) = 1 THEN lvl[1] ELSE MerkleRoot(ho, LevelUp(ho, lvl, 1, <<>>))

\* tree geometry by integers: depth = ceil(log2 n); width of the level d (root = 0) = ceil(n / 2^(depth-d))
RECURSIVE CeilLog2R(_, _, _)
CeilLog2R(n, p, k) == IF p >= n THEN k ELSE CeilLog2R(n, 2 * p, k + 1)
Depth(n) == CeilLog2R(n, 1, 0)
Width(n, d) == LET s == 2 ^ (Depth(n) - d) IN (n + s - 1) \div s
\* hash of node (d, i) (0-based index) of the tree over leaves
RECURSIVE NodeHash(_, _, _, _)
NodeHash(ho, leaves, d, i) ==
  IF d = Depth(Len(leaves)) THEN leaves[i + 1]
  ELSE LET l == NodeHash(ho, leaves, d + 1, 2 * i)
           r == IF 2 * i + 1 < Width(Len(leaves), d + 1) THEN NodeHash(ho, leaves, d + 1, 2 * i + 1) ELSE l IN H2(ho, l, r)
\* does the subtree under (d, i) contain a matched leaf?  matches: set of 1-based leaf positions
Covers(n, d, i, matches) == \E m \in matches : (m - 1) \div (2 ^ (Depth(n) - d)) = i
\* BIP37 prover: returns [flags, hashes] (depth-first)
RECURSIVE Build(_, _, _, _, _)
Build(ho, leaves, d, i, matches) ==
  LET n == Len(leaves)  par == Covers(n, d, i, matches) IN
  IF d = Depth(n) \/ ~par THEN [flags |-> <<IF par THEN 1 ELSE 0>>, hashes |-> <<NodeHash(ho, leaves, d, i)>>]
  ELSE LET l == Build(ho, leaves, d + 1, 2 * i, matches) IN
       IF 2 * i + 1 < Width(n, d + 1)
       THEN LET r == Build(ho, leaves, d + 1, 2 * i + 1, matches) IN [flags |-> <<1>> \o l.flags \o r.flags, hashes |-> l.hashes \o r.hashes]
       ELSE [flags |-> <<1>> \o l.flags, hashes |-> l.hashes]
Proof(ho, leaves, matches) == Build(ho, leaves, 0, 0, matches)

\* ---- the verifier as the code's walk ---------------------------------------------------------
\* state: [d, i, known (function <<d,i>> -> hash, partial), flags, hashes, proved, st]; st in run / done / fail
NoNode == <<-7>>
Get(s, d, i) == IF <<d, i>> \in DOMAIN s.known THEN s.known[<<d, i>>] ELSE NoNode
Put(s, v) == [s EXCEPT !.known = [k \in (DOMAIN s.known) \cup {<<s.d, s.i>>} |-> IF k = <<s.d, s.i>> THEN v ELSE s.known[k]]]
Up(s) == [s EXCEPT !.d = s.d - 1, !.i = s.i \div 2]
WInit(flags, hashes) == [d |-> 0, i |-> 0, known |-> [k \in {} |-> <<>>], flags |-> flags, hashes |-> hashes, proved |-> <<>>, st |-> "run"]
WStep(ho, n, s) ==
  IF Get(s, 0, 0) # NoNode THEN
     [s EXCEPT !.st = IF s.hashes # <<>> \/ \E k \in 1..Len(s.flags) : s.flags[k] # 0 THEN "fail" ELSE "done"]
  ELSE IF s.d = Depth(n) THEN                                                      \* leaf
     IF s.flags = <<>> \/ s.hashes = <<>> THEN [s EXCEPT !.st = "fail"]
     ELSE LET t == Put(s, Head(s.hashes)) IN
          Up([t EXCEPT !.flags = Tail(s.flags), !.hashes = Tail(s.hashes), !.proved = IF Head(s.flags) = 1 THEN Append(s.proved, Head(s.hashes)) ELSE s.proved])
  ELSE LET l == Get(s, s.d + 1, 2 * s.i) IN
     IF l = NoNode THEN
        IF s.flags = <<>> THEN [s EXCEPT !.st = "fail"]
        ELSE IF Head(s.flags) = 0 THEN
             (IF s.hashes = <<>> THEN [s EXCEPT !.st = "fail"] ELSE Up([Put(s, Head(s.hashes)) EXCEPT !.flags = Tail(s.flags), !.hashes = Tail(s.hashes)]))
        ELSE [s EXCEPT !.flags = Tail(s.flags), !.d = s.d + 1, !.i = 2 * s.i]
     ELSE IF 2 * s.i + 1 < Width(n, s.d + 1) THEN
        LET r == Get(s, s.d + 1, 2 * s.i + 1) IN
        IF r = NoNode THEN [s EXCEPT !.d = s.d + 1, !.i = 2 * s.i + 1] ELSE Up(Put(s, H2(ho, l, r)))
     ELSE Up(Put(s, H2(ho, l, l)))
RECURSIVE WRun(_, _, _)
WRun(ho, n, s) == IF s.st # "run" THEN s ELSE WRun(ho, n, WStep(ho, n, s))
\* result of validation against a header root: [valid, proved]
Verify(ho, n, flags, hashes, root) == LET f == WRun(ho, n, WInit(flags, hashes)) IN
   [valid |-> f.st = "done" /\ Get(f, 0, 0) = root, proved |-> f.proved]
\* flag bits <-> bytes (least significant bit first within a byte, as BIP37)
FlagBytes(bits) == LET nb == (Len(bits) + 7) \div 8 IN
   [k \in 1..nb |-> LET b(j) == IF 8 * (k - 1) + j + 1 <= Len(bits) THEN bits[8 * (k - 1) + j + 1] * (2 ^ j) ELSE 0 IN b(0) + b(1) + b(2) + b(3) + b(4) + b(5) + b(6) + b(7)]

\* ---- proof of work ------------------------------------------------------------------------------
\* bits: 4 bytes, first three = coefficient little endian, last = exponent
BitsToTarget(bits) == LET e == bits[4]  coef == Strip(<<bits[1], bits[2], bits[3]>>) IN
   IF e >= 3 THEN Strip(Zeros(e - 3) \o coef) ELSE Strip(Drop(Pad(coef, 3), 3 - e))
TargetToBits(t) == LET b == Rev(Strip(t))  n == Len(b) IN       \* b: big endian without leading zeros (n >= 3 in the domain)
   IF b[1] > 127 THEN <<b[2], b[1], 0, n + 1>> ELSE <<b[3], b[2], b[1], n>>
MaxTarget == Zeros(26) \o <<255, 255>>                           \* 0xffff * 256^26
TwoWeeks == 1209600
CheckPow(hash32, bits) == Lt(Strip(hash32), BitsToTarget(bits))  \* the hash bytes as produced by hash256, read little endian
NewBits(prev_bits, dt) == LET c == IF dt > 4 * TwoWeeks THEN 4 * TwoWeeks ELSE IF dt < TwoWeeks \div 4 THEN TwoWeeks \div 4 ELSE dt
                              nt == DivModSmall(MulSmall(BitsToTarget(prev_bits), c), TwoWeeks)[1] IN
                          TargetToBits(IF Lt(MaxTarget, nt) THEN MaxTarget ELSE nt)
====================================================================================
