SPECIFICATION Spec
INVARIANT OnlyLeavesProved
