----------------------------------- MODULE MC_Curve -----------------------------------
(* C03, bindings C and A for one small curve (constants from the environment):            *)
(*  - the double-and-add loop as a state machine with its loop invariant (TLC explores      *)
(*    every (k, P)),                                                                        *)
(*  - field axioms, closure, identity, inverse, commutativity, associativity as ASSUMEs     *)
(*    over all elements / pairs / triples,                                                  *)
(*  - export of the complete addition, scalar-multiplication and lift tables for replay     *)
(*    through FieldElement / Point / S256Point (toy parameters).                            *)
EXTENDS Curve, Json, IOUtils, SequencesExt

KMax == atoi(IOEnv.KMAX)
Assoc == IOEnv.ASSOC = "1"

Pts == Points
PSeq == SetToSeq(Pts)

ASSUME \A x \in F, y \in F : FAdd(x, y) = FAdd(y, x) /\ FMul(x, y) = FMul(y, x) /\ FAdd(FSub(x, y), y) = x
ASSUME \A x \in F \ {0} : FMul(x, FInv(x)) = 1
ASSUME \A x \in F, y \in F, z \in F : FMul(x, FAdd(y, z)) = FAdd(FMul(x, y), FMul(x, z))
ASSUME \A p \in Pts, q \in Pts : Add(p, q) \in Pts /\ Add(p, q) = Add(q, p)
ASSUME \A p \in Pts : Add(p, Inf) = p /\ Add(p, Neg(p)) = Inf /\ Add(p, p) = NaiveMul(2, p)
ASSUME Assoc => \A p \in Pts, q \in Pts, r \in Pts : Add(Add(p, q), r) = Add(p, Add(q, r))
ASSUME \A p \in Pts : Mul(Cardinality(Pts), p) = Inf

\* ---- double-and-add as a machine -------------------------------------------------------------
VARIABLES k, base, coef, current, result
vars == <<k, base, coef, current, result>>
Init == k \in 0..KMax /\ base \in Pts /\ coef = k /\ current = base /\ result = Inf
Step == /\ coef # 0
        /\ result' = (IF coef % 2 = 1 THEN Add(result, current) ELSE result)
        /\ current' = Add(current, current)
        /\ coef' = coef \div 2
        /\ UNCHANGED <<k, base>>
Spec == Init /\ [][Step]_vars
LoopInvariant == Add(result, NaiveMul(coef, current)) = NaiveMul(k, base)
Done == coef = 0 => result = NaiveMul(k, base)
StaysOnCurve == OnCurve(result) /\ OnCurve(current)

\* ---- tables --------------------------------------------------------------------------------------
AddRows == {[p |-> p, q |-> q, r |-> Add(p, q)] : p \in Pts, q \in Pts}
MulRows == {[k |-> kk, p |-> p, r |-> Mul(kk, p)] : kk \in 0..KMax, p \in Pts}
LiftRows == {[x |-> x, par |-> par, r |-> Lift(x, par)] : x \in 0..(PP + 2), par \in {0, 1}}
FieldRows == {[x |-> x, y |-> y, add |-> FAdd(x, y), sub |-> FSub(x, y), mul |-> FMul(x, y),
               div |-> IF y = 0 THEN -1 ELSE FDiv(x, y), pow |-> FPow(x, y)] : x \in F, y \in F}
ASSUME JsonSerialize(IOEnv.OUT, [p |-> PP, a |-> AA, b |-> BB, order |-> Cardinality(Pts), add |-> SetToSeq(AddRows),
                                 mul |-> SetToSeq(MulRows), lift |-> (IF PP % 4 = 3 THEN SetToSeq(LiftRows) ELSE <<>>),
                                 field |-> (IF PP <= 43 THEN SetToSeq(FieldRows) ELSE <<>>)])
====================================================================================
