--------------------------------- MODULE SigCases ---------------------------------
(* Bindings B for C01 (ECDSA) and C02 (BIP340) on secp256k1 itself, in the discrete-log     *)
(* ("GroupScalar") representation: the harness generates the key material, so every key     *)
(* and nonce point comes with its scalar, and signing / verification are scalar algebra      *)
(* modulo the group order n, which TLC checks on BN byte strings.  Reductions are never      *)
(* computed by TLC: the recorder supplies x = q n + r decompositions that TLC verifies        *)
(* (Dec).  Hashes are certified rows (HMAC-SHA256 for RFC 6979, tagged SHA256 for BIP340).    *)
(* The points kG, dG themselves are taken from the library's scalar multiplication, which     *)
(* C03 validates addition by addition.                                                         *)
EXTENDS BN, HashOracle, CaseIO, Bitwise, FiniteSets

Pow256 == Zeros(32) \o <<1>>
PField == Sub(Sub(Pow256, <<0, 0, 0, 0, 1>>), <<209, 3>>)                      \* 2^256 - 2^32 - 977
NOrd == <<65, 65, 54, 208, 140, 94, 210, 191, 59, 160, 72, 175, 230, 220, 174, 186, 254, 255, 255, 255, 255, 255, 255, 255,
          255, 255, 255, 255, 255, 255, 255, 255>>                                \* group order n, little endian
\* verified decomposition x = q n + r with r < n: Rem(x, d) is r if the certificate d is right, else <<-1>>
Dec(x, d) == IF Lt(Strip(d.r), NOrd) /\ Eq(x, Add(Mul(d.q, NOrd), d.r)) THEN Strip(d.r) ELSE <<-1>>
InRange(x) == ~IsZero(x) /\ Lt(x, NOrd)
BE32(x) == ToBE(x, 32)
Hm(rows, key, msg) == HashIn(HRows(rows), "hmac256", key \o <<-3>> \o msg)     \* key/message separated by a marker in the row input

\* ---- DER (byte level) ---------------------------------------------------------------------------
DerInt(x) == LET b == Rev(Strip(x))  bb == IF b = <<>> THEN <<0>> ELSE IF b[1] >= 128 THEN <<0>> \o b ELSE b IN <<2, Len(bb)>> \o bb
Der(r, s) == LET body == DerInt(r) \o DerInt(s) IN <<48, Len(body)>> \o body

\* ---- RFC 6979 nonce (HMAC-DRBG) as a walk over the certified HMAC rows -----------------------------
RECURSIVE Drbg(_, _, _, _)
Drbg(rows, K, V, fuel) ==       \* returns the first candidate in [1, n-1]
  IF fuel = 0 THEN <<-1>>
  ELSE LET V1 == Hm(rows, K, V) IN
       IF V1 = NoHash THEN <<-1>>
       ELSE LET cand == FromBE(V1) IN
            IF InRange(cand) THEN cand
            ELSE LET K2 == Hm(rows, K, V1 \o <<0>>) IN IF K2 = NoHash THEN <<-1>> ELSE
                 LET V2 == Hm(rows, K2, V1) IN IF V2 = NoHash THEN <<-1>> ELSE Drbg(rows, K2, V2, fuel - 1)
Rfc6979(rows, d, zred) ==
  LET x == BE32(d)  h == BE32(zred)  K0 == Zeros(32)  V0 == Rep(1, 32)
      K1 == Hm(rows, K0, V0 \o <<0>> \o x \o h) IN IF K1 = NoHash THEN <<-1>> ELSE
  LET V1 == Hm(rows, K1, V0) IN IF V1 = NoHash THEN <<-1>> ELSE
  LET K2 == Hm(rows, K1, V1 \o <<1>> \o x \o h) IN IF K2 = NoHash THEN <<-1>> ELSE
  LET V2 == Hm(rows, K2, V1) IN IF V2 = NoHash THEN <<-1>> ELSE Drbg(rows, K2, V2, 4)

\* ---- ECDSA --------------------------------------------------------------------------------------
WhyESign(c) ==
  LET zred == IF Lt(c.z, NOrd) THEN Strip(c.z) ELSE Sub(c.z, NOrd)          \* bits2octets: z mod n (z < 2^256 < 2n)
      kspec == Rfc6979(c.hm, c.d, zred)
      rx == IF Lt(c.R[1], NOrd) THEN Strip(c.R[1]) ELSE Sub(c.R[1], NOrd)
      lhs == Dec(Mul(c.s, c.k), c.dsk)                                         \* s k mod n
      lhsneg == Dec(Mul(Sub(NOrd, c.s), c.k), c.dnsk)                          \* (n - s) k mod n
      rhs == Dec(Add(c.z, Mul(c.r, c.d)), c.dzrd) IN                           \* z + r d mod n
  IF c.res # "ok" THEN "sign-raises"
  ELSE IF kspec = <<-1>> THEN "nonce-not-derivable-from-recorded-hmac-chain"
  ELSE IF ~Eq(kspec, c.k) THEN "nonce-is-not-rfc6979"
  ELSE IF ~Eq(c.r, rx) \/ ~InRange(c.r) THEN "r-is-not-x(kG)-mod-n"
  ELSE IF ~InRange(c.s) THEN "s-out-of-range"
  ELSE IF lhs = <<-1>> \/ lhsneg = <<-1>> \/ rhs = <<-1>> THEN "bad-certificate"
  ELSE IF lhs # rhs /\ lhsneg # rhs THEN "s-does-not-satisfy-signing-equation"
  ELSE IF ~Le(MulSmall(c.s, 2), NOrd) THEN "s-not-low"
  ELSE IF c.der # Der(c.r, c.s) THEN "der-encoding-differs"
  ELSE IF ~c.parsed_ok \/ ~Eq(c.pr, c.r) \/ ~Eq(c.ps, c.s) THEN "der-does-not-round-trip"
  ELSE IF ~c.verifies THEN "own-signature-does-not-verify"
  ELSE ""
\* verdict of ECDSA verification for (Q = dG, z, r, s), given that rbase = x(kG) mod n for the known nonce k:
\* valid iff r, s in [1, n-1] and ((z + r d)/s) G has abscissa = r mod n; for r = rbase that is (z + r d) = +-k s (mod n);
\* an r that is not the abscissa of a known nonce point is taken to be invalid (no known discrete log: negligible)
EValid(c) ==
  LET a == Dec(Mul(c.s, c.k), c.dsk)  an == Dec(Mul(c.s, Sub(NOrd, c.k)), c.dsnk)  b == Dec(Add(c.z, Mul(c.r, c.d)), c.dzrd) IN
  /\ InRange(c.r) /\ InRange(c.s)
  /\ Eq(c.r, c.rbase)
  /\ (a = b \/ an = b)
WhyEVerify(c) ==
  IF InRange(c.r) /\ InRange(c.s) /\ (Dec(Mul(c.s, c.k), c.dsk) = <<-1>> \/ Dec(Mul(c.s, Sub(NOrd, c.k)), c.dsnk) = <<-1>> \/ Dec(Add(c.z, Mul(c.r, c.d)), c.dzrd) = <<-1>>)
  THEN "bad-certificate"
  ELSE IF EValid(c) /\ ~c.accepted THEN "rejects-valid-tuple"
  ELSE IF ~EValid(c) /\ c.accepted THEN "accepts-invalid-tuple"
  ELSE ""

\* ---- BIP340 -----------------------------------------------------------------------------------------
Xor32(a, b) == [i \in 1..32 |-> a[i] ^^ b[i]]
TH(rows, tag, msg) == HashIn(HRows(rows), tag, msg)
WhySSign(c) ==
  LET dd == IF IsOdd(c.P[2]) THEN Sub(NOrd, c.d) ELSE Strip(c.d)
      haux == TH(c.hr, "tag:BIP0340/aux", c.aux)
      t == Xor32(BE32(dd), haux)
      rand == TH(c.hr, "tag:BIP0340/nonce", t \o BE32(c.P[1]) \o c.m)
      k0 == Dec(FromBE(rand), c.dk0)
      k == IF IsOdd(c.R[2]) THEN Sub(NOrd, k0) ELSE k0
      ehash == TH(c.hr, "tag:BIP0340/challenge", BE32(c.R[1]) \o BE32(c.P[1]) \o c.m)
      e == Dec(FromBE(ehash), c.de)
      s == Dec(Add(k, Mul(e, dd)), c.ds) IN
  IF c.res # "ok" THEN "sign-raises"
  ELSE IF haux = NoHash \/ rand = NoHash \/ ehash = NoHash THEN "hash-of-specified-preimage-not-computed"
  ELSE IF k0 = <<-1>> \/ e = <<-1>> THEN "bad-certificate"
  ELSE IF ~Eq(k0, c.k0) THEN "nonce-differs-from-bip340"
  ELSE IF s = <<-1>> THEN "bad-certificate"
  ELSE IF c.sig # BE32(c.R[1]) \o BE32(s) THEN "signature-bytes-differ-from-bip340"
  ELSE IF ~c.verifies THEN "own-signature-does-not-verify"
  ELSE ""
\* verification verdict for a 64-byte candidate under the x-only key of the known secret:
\* valid iff R = candidate[0:32] is the abscissa of the known even nonce point, s < n and s = k + e d' (mod n)
SValid(c) ==
  LET rx == FromBE(SubSeq(c.sig, 1, 32))  s == FromBE(SubSeq(c.sig, 33, 64))
      ehash == TH(c.hr, "tag:BIP0340/challenge", SubSeq(c.sig, 1, 32) \o c.px \o c.m)
      e == Dec(FromBE(ehash), c.de)
      want == Dec(Add(c.keven, Mul(e, c.dd)), c.ds) IN
  /\ Len(c.sig) = 64 /\ c.key_is_ours
  /\ Lt(rx, PField) /\ Lt(s, NOrd)
  /\ Eq(rx, c.rx)
  /\ ehash # NoHash /\ e # <<-1>> /\ want # <<-1>> /\ Eq(s, want)
WhySVerify(c) == IF SValid(c) /\ ~c.accepted THEN "rejects-valid-signature"
                 ELSE IF ~SValid(c) /\ c.accepted THEN "accepts-invalid-signature" ELSE ""

Why(c) == CASE c.kind = "esign" -> WhyESign(c) [] c.kind = "everify" -> WhyEVerify(c)
            [] c.kind = "ssign" -> WhySSign(c) [] c.kind = "sverify" -> WhySVerify(c)
            [] c.kind = "der" -> (IF c.der # Der(c.r, c.s) THEN "der-encoding-differs"       \* every byte-length / top-bit shape of r and s
                                  ELSE IF ~c.parsed_ok \/ ~Eq(c.pr, c.r) \/ ~Eq(c.ps, c.s) THEN "der-does-not-round-trip" ELSE "")
VARIABLES i, bad
Init == i = 1 /\ bad = <<>>
Next == /\ i <= NCases /\ i' = i + 1
        /\ bad' = LET w == Why(Cases[i]) IN IF w = "" THEN bad ELSE Append(bad, [id |-> Cases[i].id, why |-> w])
Fin == (i = NCases + 1) => JsonSerialize(IOEnv.OUT, bad)
====================================================================================
