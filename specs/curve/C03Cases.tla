--------------------------------- MODULE C03Cases ---------------------------------
(* Binding B for C03 on secp256k1 itself.  Numbers are BN byte strings; every modular      *)
(* relation is checked over the naturals with a certificate supplied by the recorder        *)
(* (lhs + [k<0] |k| p = rhs + [k>0] k p), so TLC never divides 256-bit numbers.             *)
(*  "rmul"  : the recorded sequence of Point.__add__ calls of one scalar multiplication      *)
(*            must be exactly the double-and-add machine's, and every addition must          *)
(*            satisfy the affine group-law relations                                         *)
(*  "ident" : two results that the group law says are equal are equal                        *)
(*  "sec" / "xonly" : encodings; "reject" : byte strings that do not encode a curve point    *)
EXTENDS BN, CaseIO, FiniteSets

PField == Sub(Sub(<<0, 0, 0, 0, 0, 0, 0, 0, 0, 0, 0, 0, 0, 0, 0, 0, 0, 0, 0, 0, 0, 0, 0, 0, 0, 0, 0, 0, 0, 0, 0, 0, 1>>, <<0, 0, 0, 0, 1>>), <<209, 3>>)   \* 2^256 - 2^32 - 977
Seven == <<7>>
CongOK(lhs, rhs, c) == c.exact /\ (IF c.neg THEN Eq(Add(lhs, Mul(c.k, PField)), rhs) ELSE Eq(lhs, Add(rhs, Mul(c.k, PField))))
InField(x) == Lt(x, PField)
OnCurvePt(p) == p = <<>> \/ (InField(p[1]) /\ InField(p[2]))
PtEq(a, b) == (a = <<>> /\ b = <<>>) \/ (a # <<>> /\ b # <<>> /\ Eq(a[1], b[1]) /\ Eq(a[2], b[2]))

\* one recorded addition
AddOK(e) ==
  IF e.p = <<>> THEN PtEq(e.r, e.q)
  ELSE IF e.q = <<>> THEN PtEq(e.r, e.p)
  ELSE LET x1 == e.p[1]  y1 == e.p[2]  x2 == e.q[1]  y2 == e.q[2] IN
    IF Eq(x1, x2) /\ Eq(Add(y1, y2), PField) THEN e.r = <<>>          \* opposite points (y1 + y2 = p); y = 0 does not occur on secp256k1
    ELSE /\ e.r # <<>> /\ InField(e.r[1]) /\ InField(e.r[2]) /\ InField(e.s)
         /\ (IF Eq(x1, x2) THEN Eq(y1, y2) /\ CongOK(Mul(MulSmall(y1, 2), e.s), MulSmall(Mul(x1, x1), 3), e.c1)
             ELSE CongOK(Add(Mul(e.s, x2), y1), Add(Mul(e.s, x1), y2), e.c1))
         /\ CongOK(Add(Add(e.r[1], x1), x2), Mul(e.s, e.s), e.c2)
         /\ CongOK(Add(Add(e.r[2], y1), Mul(e.s, e.r[1])), Mul(e.s, x1), e.c3)

\* Scalar multiplication, independently of the algorithm the library uses (double-and-add today, possibly windows or tables
\* tomorrow): every recorded addition is a correct group operation (AddOK), so each operand that is a known multiple of the
\* base point makes the sum a known multiple -- bookkeeping of multiples modulo the group order.  The returned point must be
\* the multiple k.  If an operand is a point of unknown origin (e.g. a table filled by an earlier call) the chain cannot be
\* followed and this clause gives no verdict; the identities (a+b)G = aG+bG, a(bG) = (ab)G still decide such a tree.
NOrd == <<65, 65, 54, 208, 140, 94, 210, 191, 59, 160, 72, 175, 230, 220, 174, 186, 254, 255, 255, 255, 255, 255, 255, 255,
          255, 255, 255, 255, 255, 255, 255, 255>>                                \* group order n, little endian
AddModN(x, y) == LET t == Add(x, y) IN IF Lt(t, NOrd) THEN Strip(t) ELSE Strip(Sub(t, NOrd))
RECURSIVE Lookup(_, _, _)
Lookup(known, pt, i) == IF i = 0 THEN <<-1>> ELSE IF PtEq(known[i].pt, pt) THEN known[i].m ELSE Lookup(known, pt, i - 1)
RECURSIVE Chain(_, _, _)
Chain(adds, i, known) ==
  IF i > Len(adds) THEN [ok |-> TRUE, known |-> known]
  ELSE LET x == Lookup(known, adds[i].p, Len(known))  y == Lookup(known, adds[i].q, Len(known)) IN
       IF x = <<-1>> \/ y = <<-1>> THEN [ok |-> FALSE, known |-> known]
       ELSE Chain(adds, i + 1, Append(known, [pt |-> adds[i].r, m |-> AddModN(x, y)]))

WhyRmul(c) ==
  IF \E k \in 1..Len(c.adds) : ~AddOK(c.adds[k]) THEN "addition-violates-group-law"
  ELSE LET ch == Chain(c.adds, 1, <<[pt |-> <<>>, m |-> <<>>], [pt |-> c.base, m |-> <<1>>]>>) IN
       IF ~ch.ok THEN ""
       ELSE LET m == Lookup(ch.known, c.res, Len(ch.known)) IN
            IF m = <<-1>> THEN "result-is-not-a-point-the-additions-produced"
            ELSE IF ~Eq(m, Strip(c.k)) THEN "result-is-another-multiple-of-the-base-point" ELSE ""
BE32(x) == ToBE(x, 32)
WhySec(c) == LET x == c.pt[1]  y == c.pt[2] IN
  IF c.compressed THEN (IF c.enc # <<IF IsOdd(y) THEN 3 ELSE 2>> \o BE32(x) THEN "sec-bytes" ELSE IF ~PtEq(c.back, c.pt) THEN "sec-roundtrip" ELSE "")
  ELSE (IF c.enc # <<4>> \o BE32(x) \o BE32(y) THEN "sec-bytes" ELSE IF ~PtEq(c.back, c.pt) THEN "sec-roundtrip" ELSE "")
WhyXonly(c) == IF c.enc # BE32(c.pt[1]) THEN "xonly-bytes"
               ELSE IF c.back = <<>> \/ ~Eq(c.back[1], c.pt[1]) \/ IsOdd(c.back[2]) THEN "xonly-lift-not-even" ELSE ""
\* a byte string that is not the encoding of a point must be rejected; the non-residue cases carry the certificate
\* v = x^3 + 7 (mod p) and w^2 + v = 0 (mod p): -v is a square, so v is not (p = 3 mod 4)
WhyReject(c) ==
  IF c.why \in {"nonres-02", "nonres-xonly"} /\ ~(CongOK(Add(Mul(Mul(c.x, c.x), c.x), Seven), c.v, c.vcert) /\ CongOK(Add(Mul(c.w, c.w), c.v), <<>>, c.cert) /\ ~IsZero(c.v))
  THEN "bad-certificate"
  \* coordinates >= p: the byte string's own coordinate field is compared with p here, not taken from the label
  ELSE IF c.why \in {"x>=p", "04-x>=p"} /\ Lt(FromBE(Slice(c.raw, 2, 33)), PField) /\ (Len(c.raw) < 65 \/ Lt(FromBE(Slice(c.raw, 34, 65)), PField)) THEN "bad-certificate"
  ELSE IF c.why = "04-y>=p" /\ Lt(FromBE(Slice(c.raw, 34, 65)), PField) THEN "bad-certificate"
  ELSE IF c.why = "xonly>=p" /\ Lt(FromBE(c.raw), PField) THEN "bad-certificate"
  ELSE IF c.accepted THEN "accepts-non-point:" \o c.why ELSE ""
Why(c) == CASE c.kind = "rmul" -> WhyRmul(c)
            [] c.kind = "ident" -> (IF PtEq(c.lhs, c.rhs) THEN "" ELSE "identity-fails")
            [] c.kind = "sec" -> WhySec(c) [] c.kind = "xonly" -> WhyXonly(c) [] c.kind = "reject" -> WhyReject(c)
VARIABLES i, bad
Init == i = 1 /\ bad = <<>>
Next == /\ i <= NCases /\ i' = i + 1
        /\ bad' = LET w == Why(Cases[i]) IN IF w = "" THEN bad ELSE Append(bad, [id |-> Cases[i].id, why |-> w])
Fin == (i = NCases + 1) => JsonSerialize(IOEnv.OUT, bad)
====================================================================================
