----------------------------------- MODULE Curve -----------------------------------
(* Short-Weierstrass curves y^2 = x^3 + a x + b over a small prime field F_p with        *)
(* concrete arithmetic (DESIGN.md 2.4): the reference chord-and-tangent group law,         *)
(* scalar multiplication as the double-and-add state machine of Point.__rmul__, and the    *)
(* SEC / x-only encodings.  A point is <<x, y>>, the point at infinity is <<>>.            *)
EXTENDS Integers, Sequences, FiniteSets, TLC

CONSTANTS PP, AA, BB         \* field prime and curve coefficients

F == 0..(PP - 1)
FAdd(x, y) == (x + y) % PP
FSub(x, y) == (x - y + PP) % PP
FMul(x, y) == (x * y) % PP
FNeg(x) == (PP - x) % PP
RECURSIVE FPowR(_, _)
FPowR(x, n) == IF n = 0 THEN 1 ELSE LET h == FPowR(x, n \div 2)  hh == (h * h) % PP IN IF n % 2 = 1 THEN (hh * x) % PP ELSE hh
FPow(x, n) == FPowR(x % PP, n)
FInv(x) == FPow(x, PP - 2)                     \* x # 0
FDiv(x, y) == FMul(x, FInv(y))

Inf == <<>>
IsInf(p) == p = <<>>
OnCurve(p) == IsInf(p) \/ FMul(p[2], p[2]) = FAdd(FAdd(FPow(p[1], 3), FMul(AA, p[1])), BB)
Points == {Inf} \cup {q \in {<<x, y>> : x \in F, y \in F} : OnCurve(q)}
Neg(p) == IF IsInf(p) THEN p ELSE <<p[1], FNeg(p[2])>>

\* the group law (textbook): note the vertical tangent P = (x, 0), P + P = infinity falls under "opposite"
Add(p, q) ==
  IF IsInf(p) THEN q ELSE IF IsInf(q) THEN p
  ELSE IF p[1] = q[1] /\ FAdd(p[2], q[2]) = 0 THEN Inf
  ELSE LET s == IF p[1] # q[1] THEN FDiv(FSub(q[2], p[2]), FSub(q[1], p[1]))
                ELSE FDiv(FAdd(FMul(3, FMul(p[1], p[1])), AA), FMul(2, p[2]))
           x3 == FSub(FSub(FMul(s, s), p[1]), q[1])
           y3 == FSub(FMul(s, FSub(p[1], x3)), p[2]) IN <<x3, y3>>

\* k-fold sum by definition (k >= 0)
RECURSIVE NaiveMul(_, _)
NaiveMul(k, p) == IF k = 0 THEN Inf ELSE Add(NaiveMul(k - 1, p), p)
\* double-and-add exactly as Point.__rmul__: state (coef, current, result)
RECURSIVE DblAddR(_, _, _)
DblAddR(coef, current, result) ==
  IF coef = 0 THEN result
  ELSE DblAddR(coef \div 2, Add(current, current), IF coef % 2 = 1 THEN Add(result, current) ELSE result)
Mul(k, p) == DblAddR(k, p, Inf)
\* order of a point
RECURSIVE OrderR(_, _, _)
OrderR(p, acc, k) == IF IsInf(acc) THEN k ELSE OrderR(p, Add(acc, p), k + 1)
Order(p) == IF IsInf(p) THEN 1 ELSE OrderR(p, p, 1)

\* square root as the code computes it (p = 3 mod 4): v^((p+1)/4), valid iff its square is v
SqrtOK(v) == FMul(FPow(v, (PP + 1) \div 4), FPow(v, (PP + 1) \div 4)) = v
Sqrt(v) == FPow(v, (PP + 1) \div 4)
RHS(x) == FAdd(FAdd(FPow(x, 3), FMul(AA, x)), BB)
\* lift_x with requested parity (0 even / 1 odd); <<>> if x is not the abscissa of a point
Lift(x, par) == IF x \notin F \/ ~SqrtOK(RHS(x)) THEN <<-1>>
                ELSE LET y == Sqrt(RHS(x)) IN IF y % 2 = par THEN <<x, y>> ELSE <<x, FNeg(y)>>
====================================================================================
