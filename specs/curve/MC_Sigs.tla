---- MODULE MC_Sigs ----
EXTENDS Sigs
====
