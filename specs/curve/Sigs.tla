----------------------------------- MODULE Sigs -----------------------------------
(* ECDSA (C01) and BIP340 Schnorr (C02) over a toy prime-order curve with concrete         *)
(* arithmetic (Curve), so that TLC enumerates every key, nonce, digest and candidate        *)
(* signature.  The same unmodified library code runs on these curves in the harness         *)
(* (module constants rebound), with the tagged hashes rebound to the toy hash family        *)
(* defined here, so the tables below are complete implementation tests.                      *)
EXTENDS Curve, Bitwise, Json, IOUtils, SequencesExt

CONSTANTS NN, GX, GY          \* group order (prime, > PP) and generator: literal constants written by the harness, checked below
G == <<GX, GY>>
Zn == 0..(NN - 1)
\* tables computed once and passed around explicitly (TLC does not memoise operator applications)
GTab == [k \in Zn |-> Mul(k, G)]
InvTab == [x \in 1..(NN - 1) |-> CHOOSE y \in 1..(NN - 1) : (x * y) % NN = 1]
Ctx == [gt |-> GTab, inv |-> InvTab]

\* ---- ECDSA -------------------------------------------------------------------------------
\* Sign with nonce k: <<r, s>> or <<>> when r or s would be zero (the nonce must be rejected)
ESign(C, d, z, k) ==
  LET R == C.gt[k % NN]  r == R[1] % NN IN
  IF r = 0 THEN <<>>
  ELSE LET s0 == (C.inv[k] * ((z + r * d) % NN)) % NN IN
       IF s0 = 0 THEN <<>> ELSE <<r, IF 2 * s0 > NN THEN NN - s0 ELSE s0>>
EVerify(C, Q, z, r, s) ==
  /\ r \in 1..(NN - 1) /\ s \in 1..(NN - 1)
  /\ LET w == C.inv[s]  X == Add(C.gt[(z * w) % NN], Mul((r * w) % NN, Q)) IN ~IsInf(X) /\ X[1] % NN = r
\* the same verdict in the discrete-log representation (Q = dG): x(((z + r d)/s) G) mod n = r
EVerifyDL(C, d, z, r, s) ==
  /\ r \in 1..(NN - 1) /\ s \in 1..(NN - 1)
  /\ LET t == (C.inv[s] * ((z + r * d) % NN)) % NN IN t # 0 /\ C.gt[t][1] % NN = r
ZMax == atoi(IOEnv.ZMAX)
RSMax == atoi(IOEnv.RSMAX)
Secrets == 1..(NN - 1)

\* ---- toy hash family and byte helpers -------------------------------------------------------
BE32(v) == [i \in 1..32 |-> IF i = 31 THEN (v \div 256) % 256 ELSE IF i = 32 THEN v % 256 ELSE 0]    \* v < 65536
RECURSIVE WSum(_, _, _)
WSum(b, i, acc) == IF i > Len(b) THEN acc ELSE WSum(b, i + 1, (acc + i * b[i]) % 65521)
ToyH(tag, b) == BE32(((37 + 2 * tag) * WSum(b, 1, 0) + 11 * tag) % 65521)       \* tag: 1 aux, 2 nonce, 3 challenge
Int32(b) == b[31] * 256 + b[32]                 \* only toy-size values occur (bytes 1..30 are zero)
XorB(a, b) == [i \in 1..32 |-> a[i] ^^ b[i]]
Par(p) == p[2] % 2

\* ---- BIP340 --------------------------------------------------------------------------------
SSign(C, d, m, aux) ==
  LET Pt == C.gt[d % NN]
      dd == IF Par(Pt) = 1 THEN NN - d ELSE d
      t == XorB(BE32(dd), ToyH(1, aux))
      k0 == Int32(ToyH(2, t \o BE32(Pt[1]) \o m)) % NN IN
  IF k0 = 0 THEN <<>>
  ELSE LET R == C.gt[k0]
           k == IF Par(R) = 1 THEN NN - k0 ELSE k0
           e == Int32(ToyH(3, BE32(R[1]) \o BE32(Pt[1]) \o m)) % NN IN
       BE32(R[1]) \o BE32((k + e * dd) % NN)
SVerify(C, px, m, r, s) ==          \* px, r, s as integers
  LET Pt == Lift(px, 0) IN
  /\ Pt # <<-1>>
  /\ r < PP /\ s < NN
  /\ LET e == Int32(ToyH(3, BE32(r) \o BE32(px) \o m)) % NN
         R == Add(C.gt[s % NN], Mul((NN - e) % NN, Pt)) IN
     ~IsInf(R) /\ Par(R) = 0 /\ R[1] = r
Msgs == {[i \in 1..32 |-> c] : c \in {0, 1, 7}} \cup {[i \in 1..32 |-> i]}
Auxs == {[i \in 1..32 |-> 0], [i \in 1..32 |-> (5 * i) % 256]}

\* ---- laws (checked over the whole finite universe) ---------------------------------------------
Mode == IOEnv.MODE
ASSUME NN > PP            \* x mod n = x on these curves, as (with overwhelming probability) on secp256k1
ASSUME OnCurve(G) /\ ~IsInf(G) /\ Cardinality(Points) = NN /\ Order(G) = NN
ASSUME Mode = "ecdsa" => LET C == Ctx IN
  \A d \in Secrets, z \in 0..ZMax, k \in Secrets :
     LET sg == ESign(C, d, z, k) IN sg # <<>> => (EVerify(C, C.gt[d], z, sg[1], sg[2]) /\ 2 * sg[2] <= NN /\ sg[2] >= 1)
ASSUME Mode = "ecdsa-verify" => LET C == Ctx IN
  \A d \in Secrets, z \in 0..ZMax, r \in 0..RSMax, s \in 0..RSMax : EVerify(C, C.gt[d], z, r, s) = EVerifyDL(C, d, z, r, s)
ASSUME Mode = "schnorr" => LET C == Ctx IN
  \A d \in Secrets, m \in Msgs, a \in Auxs :
     LET sg == SSign(C, d, m, a) IN sg # <<>> => SVerify(C, C.gt[d][1], m, Int32(SubSeq(sg, 1, 32)), Int32(SubSeq(sg, 33, 64)))

\* ---- tables --------------------------------------------------------------------------------------
ESignRows == LET C == Ctx IN {[d |-> d, z |-> z, k |-> k, sig |-> ESign(C, d, z, k)] : d \in Secrets, z \in 0..ZMax, k \in Secrets}
EVerRows == LET C == Ctx IN {[q |-> C.gt[d], z |-> z, r |-> r, s |-> s, ok |-> EVerify(C, C.gt[d], z, r, s)] :
               d \in Secrets, z \in 0..ZMax, r \in 0..RSMax, s \in 0..RSMax}
SSignRows == LET C == Ctx IN {[d |-> d, m |-> m, aux |-> a, sig |-> SSign(C, d, m, a)] : d \in Secrets, m \in Msgs, a \in Auxs}
SVerRows == LET C == Ctx IN {[px |-> x, m |-> m, r |-> r, s |-> s, ok |-> SVerify(C, x, m, r, s)] :
               x \in 0..(PP + 1), m \in Msgs, r \in 0..(PP + 1), s \in 0..(NN + 1)}
ASSUME JsonSerialize(IOEnv.OUT,
   [p |-> PP, a |-> AA, b |-> BB, n |-> NN, g |-> G,
    rows |-> SetToSeq(CASE Mode = "ecdsa" -> ESignRows [] Mode = "ecdsa-verify" -> EVerRows
                        [] Mode = "schnorr" -> SSignRows [] Mode = "schnorr-verify" -> SVerRows)])
VARIABLE x
Init == x = 0
Next == UNCHANGED x
====================================================================================
