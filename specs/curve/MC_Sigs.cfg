INIT Init
NEXT Next
CONSTANTS
  PP <- PEnv
  AA <- AEnv
  BB <- BEnv
