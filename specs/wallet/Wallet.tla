----------------------------------- MODULE Wallet ------------------------------------
(* A wsh(sortedmulti) wallet end to end, across the modules the listed properties treat  *)
(* one at a time: key records and descriptor (descriptor.py, hd.py), addresses, coins     *)
(* received at them, a PSBT that spends some coins to an outside address and a change      *)
(* address of the same descriptor (psbt.py), the review summary, signing by a set of        *)
(* cosigners in some order, finalisation, extraction and verification (tx.py, script.py,    *)
(* op.py).  Addresses are abstract: <<branch, index>> of the descriptor.                    *)
(*                                                                                          *)
(* One action per step a wallet coordinator takes.  What must hold: coins at descriptor      *)
(* addresses are spendable by any M cosigners and by no fewer; the review summary labels     *)
(* the descriptor's own change as change and nothing else; value is conserved.               *)
EXTENDS Naturals, FiniteSets, Sequences, TLC
CONSTANTS N, M, Addrs          \* Addrs: the descriptor addresses in play, e.g. {<<0,0>>, <<0,1>>, <<1,0>>, <<1,1>>}
Cos == 1..N
VARIABLES coins,        \* addresses that hold a coin
          stage,        \* "idle" | "created" | "final" | "refused"
          ins,          \* addresses whose coins the PSBT spends
          change,       \* <<>> or <<addr>>: the change address of the PSBT
          signed,       \* sequence of cosigners that signed, in order
          valid         \* verdict of verify_input on the extracted transaction
vars == <<coins, stage, ins, change, signed, valid>>
Init == coins = {} /\ stage = "idle" /\ ins = {} /\ change = <<>> /\ signed = <<>> /\ valid = FALSE
Receive(a) == stage = "idle" /\ a \notin coins /\ coins' = coins \cup {a} /\ UNCHANGED <<stage, ins, change, signed, valid>>
Create(s, c) == /\ stage = "idle" /\ s # {} /\ s \subseteq coins /\ (IF c = <<>> THEN TRUE ELSE c[1] \in Addrs /\ c[1] \notin coins)
                /\ stage' = "created" /\ ins' = s /\ change' = c /\ UNCHANGED <<coins, signed, valid>>
Sign(k) == stage = "created" /\ k \notin {signed[j] : j \in 1..Len(signed)} /\ signed' = Append(signed, k) /\ UNCHANGED <<coins, stage, ins, change, valid>>
Finalize == /\ stage = "created"
            /\ IF Len(signed) >= M THEN stage' = "final" /\ valid' = TRUE /\ coins' = (coins \ ins) \cup {change[j] : j \in 1..Len(change)}
               ELSE stage' = "refused" /\ UNCHANGED <<valid, coins>>
            /\ UNCHANGED <<ins, change, signed>>
Next == (\E a \in Addrs : Receive(a)) \/ (\E s \in SUBSET coins, c \in {<<>>} \cup {<<a>> : a \in Addrs} : Create(s, c)) \/ (\E k \in Cos : Sign(k)) \/ Finalize
Spec == Init /\ [][Next]_vars

QuorumNeeded == stage = "final" => Len(signed) >= M /\ valid
NoSpendWithoutQuorum == stage = "refused" => Len(signed) < M
OnlyOwnCoins == ins \subseteq Addrs /\ (stage = "final" => ins \cap coins = {})
\* what the review summary must say about the PSBT of a scenario: the change output is labelled change, the outside output is not
ChangeFlags(c) == IF c = <<>> THEN <<FALSE>> ELSE <<FALSE, TRUE>>
=======================================================================================
