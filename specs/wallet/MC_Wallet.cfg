SPECIFICATION Spec
CONSTANTS
  N = 3
  M = 2
  Addrs <- MCAddrs
INVARIANT QuorumNeeded
INVARIANT NoSpendWithoutQuorum
INVARIANT OnlyOwnCoins
INVARIANT TerminalAgrees
