---------------------------------- MODULE MC_Wallet ----------------------------------
EXTENDS Wallet, IOUtils, Json, SequencesExt
MCAddrs == {<<0, 0>>, <<0, 1>>, <<1, 0>>}        \* receive 0, receive 1, change 0
\* scenarios = terminal behaviours of the machine in a canonical form: which coins exist, which are spent, the change address,
\* and the order in which cosigners signed (every ordered selection of distinct cosigners)
RECURSIVE Orders(_)
Orders(k) == IF k = 0 THEN {<<>>} ELSE {Append(o, c) : o \in Orders(k - 1), c \in Cos} 
Distinct(o) == Cardinality({o[j] : j \in 1..Len(o)}) = Len(o)
SignOrders == {o \in UNION {Orders(k) : k \in 0..N} : Distinct(o)}
Scenarios == {[coins |-> cs, ins |-> s, change |-> c, signed |-> o] :
                cs \in (SUBSET Addrs) \ {{}}, s \in (SUBSET Addrs) \ {{}}, c \in {<<>>} \cup {<<a>> : a \in Addrs}, o \in SignOrders}
Admissible(sc) == sc.ins \subseteq sc.coins /\ (IF sc.change = <<>> THEN TRUE ELSE sc.change[1] \notin sc.coins) /\ Cardinality(sc.coins) <= 2
Expect(sc) == [final |-> Len(sc.signed) >= M, valid |-> Len(sc.signed) >= M, is_change |-> ChangeFlags(sc.change)]
Row(sc) == [coins |-> SetToSeq(sc.coins), ins |-> SetToSeq(sc.ins), change |-> sc.change, signed |-> sc.signed, expect |-> Expect(sc)]
ASSUME IOEnv.EXPORT = "0" \/ JsonSerialize(IOEnv.OUT, SetToSeq({Row(sc) : sc \in {x \in Scenarios : Admissible(x)}}))
\* the machine reaches exactly the expected verdict in every terminal state
TerminalAgrees == (stage \in {"final", "refused"}) =>
                     Expect([coins |-> coins, ins |-> ins, change |-> change, signed |-> signed]).final = (stage = "final")
=======================================================================================
