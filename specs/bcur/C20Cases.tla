--------------------------------- MODULE C20Cases ---------------------------------
(* Binding B for C20: recorded bc32 / CBOR / BCUR calls decided by TLC with BCUR.tla.        *)
(*  "bc32"  : bytes -> text produced by bc32encode, and bc32decode of it                      *)
(*  "bc32bad": a corrupted text must not decode                                               *)
(*  "cbor"  : length n (content a repeated byte) -> prefix and decode                          *)
(*  "bcur"  : payload -> (encoded text, digest text) of bcur_encode, certified sha256 row       *)
(*  "chunks": the part strings of BCURMulti.encode: count, x-of-y numbering, slices             *)
(*  "parse" : a (possibly permuted / truncated / foreign / corrupted) part list: if the         *)
(*            library returns a payload it must be the payload the parts were made from         *)
EXTENDS BCUR, CaseIO

WhyBc32(c) == IF c.text # Bc32Encode(c.data) THEN "bc32encode-differs"
              ELSE IF c.back # c.data THEN "bc32decode-does-not-invert"
              ELSE IF Bc32Decode(c.text) # c.data THEN "spec-roundtrip" ELSE ""
WhyCbor(c) == LET data == Rep(c.fill, c.n) IN
              \* above 65535 bytes the library writes the marker 0x60; RFC 8949 would use 0x5a: both are accepted, inversion is what the property demands
              IF c.prefix # CborPrefix(c.n) /\ ~(c.n > 65535 /\ c.prefix = <<90>> \o Tail(CborPrefix(c.n))) THEN "cbor-prefix"
              ELSE IF c.enc_len # Len(c.prefix) + c.n THEN "cbor-length"
              ELSE IF ~c.back_ok THEN "cbor-decode-does-not-invert" ELSE ""
WhyBcur(c) == LET cb == CborEncode(c.payload)  h == HashIn(HRows(c.hr), "sha256", cb) IN
              IF c.enc # Bc32Encode(cb) THEN "bcur-encoding-differs"
              ELSE IF h = NoHash \/ c.enc_hash # Bc32Encode(h) THEN "bcur-digest-differs" ELSE ""
D(k) == 48 + k
Digits(n) == IF n < 10 THEN <<D(n)>> ELSE IF n < 100 THEN <<D(n \div 10), D(n % 10)>> ELSE IF n < 1000 THEN <<D(n \div 100), D((n \div 10) % 10), D(n % 10)>>
             ELSE <<D(n \div 1000), D((n \div 100) % 10), D((n \div 10) % 10), D(n % 10)>>
UrBytes == <<117, 114, 58, 98, 121, 116, 101, 115, 47>>          \* "ur:bytes/"
PartText(c, k, n) == UrBytes \o Digits(k) \o <<111, 102>> \o Digits(n) \o <<47>> \o c.enc_hash \o <<47>> \o Chunk(c.enc, c.m, k)
WhyChunks(c) == LET n == NumChunks(Len(c.enc), c.m) IN
                IF Len(c.parts) # n THEN "chunk-count"
                ELSE IF \E k \in 1..n : c.parts[k] # PartText(c, k, n) THEN "chunk-text" ELSE ""
WhyParse(c) == IF c.honest /\ ~c.accepted THEN "honest-parts-rejected"
               ELSE IF c.strict /\ c.accepted THEN "parts-that-disagree-on-the-part-count-accepted"
               ELSE IF c.accepted /\ c.result # c.payload THEN "reassembled-different-data" ELSE ""
Why(c) == CASE c.kind = "bc32" -> WhyBc32(c)
            [] c.kind = "bc32bad" -> (IF Bc32Decode(c.text) # <<-1>> THEN "harness" ELSE IF c.accepted THEN "bc32decode-accepts-corrupted-text" ELSE "")
            [] c.kind = "cbor" -> WhyCbor(c) [] c.kind = "bcur" -> WhyBcur(c) [] c.kind = "chunks" -> WhyChunks(c) [] c.kind = "parse" -> WhyParse(c)
VARIABLES i, bad
Init == i = 1 /\ bad = <<>>
Next == /\ i <= NCases /\ i' = i + 1
        /\ bad' = LET w == Why(Cases[i]) IN IF w = "" THEN bad ELSE Append(bad, [id |-> Cases[i].id, why |-> w])
Fin == (i = NCases + 1) => JsonSerialize(IOEnv.OUT, bad)
====================================================================================
