SPECIFICATION Spec
CONSTANTS
  Y = 3
  MaxParts = 4
INVARIANT ExactOrLoud
INVARIANT HonestAccepted
