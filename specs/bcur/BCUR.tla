------------------------------------ MODULE BCUR ------------------------------------
(* BCUR air-gap transport (C20): bc32 text encoding, the CBOR byte-string wrapper, the       *)
(* chunking arithmetic of BCURMulti.encode, and reassembly.  Text is a sequence of ASCII      *)
(* codes.                                                                                     *)
EXTENDS Bech32, HashOracle

\* ---- bc32 -----------------------------------------------------------------------------------
Bc32Encode(data) == LET dd == To5(data)  chk == CreateChecksum(<<0>>, dd, Bc32Const) IN [k \in 1..(Len(dd) + 6) |-> CharOf((dd \o chk)[k])]
Bc32Decode(text) ==       \* <<-1>> when the text is not a valid bc32 string
  LET vals == [k \in 1..Len(text) |-> ValOf(text[k])] IN
  IF Len(text) < 6 \/ \E k \in 1..Len(vals) : vals[k] = -1 THEN <<-1>>
  ELSE IF Polymod(<<0>> \o vals) # Bc32Const THEN <<-1>>
  ELSE To8(SubSeq(vals, 1, Len(vals) - 6))
\* ---- CBOR byte string -------------------------------------------------------------------------
CborPrefix(n) == IF n <= 23 THEN <<64 + n>> ELSE IF n <= 255 THEN <<88, n>> ELSE IF n <= 65535 THEN <<89, n \div 256, n % 256>>
                 ELSE <<96, n \div 16777216, (n \div 65536) % 256, (n \div 256) % 256, n % 256>>
CborEncode(data) == CborPrefix(Len(data)) \o data
CborDecode(c) == LET b == c[1] IN
  IF b >= 64 /\ b < 88 THEN Slice(c, 2, 1 + (b - 64))
  ELSE IF b = 88 THEN Slice(c, 3, 2 + c[2])
  ELSE IF b = 89 THEN Slice(c, 4, 3 + c[2] * 256 + c[3])
  ELSE IF b = 96 THEN Slice(c, 6, 5 + c[2] * 16777216 + c[3] * 65536 + c[4] * 256 + c[5]) ELSE <<-1>>
\* ---- chunking ----------------------------------------------------------------------------------
CeilDiv(a, b) == (a + b - 1) \div b
NumChunks(L, m) == CeilDiv(L, m)
ChunkLen(L, m) == CeilDiv(L, NumChunks(L, m))
Chunk(text, m, k) == LET cl == ChunkLen(Len(text), m) IN Slice(text, (k - 1) * cl + 1, IF k * cl > Len(text) THEN Len(text) ELSE k * cl)
ChunkLaw(L, m) == LET n == NumChunks(L, m)  cl == ChunkLen(L, m) IN
   /\ n >= 1 /\ cl <= m /\ n * cl >= L /\ (n - 1) * cl < L            \* every chunk non-empty, at most m, covering exactly
====================================================================================
