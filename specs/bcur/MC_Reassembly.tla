--------------------------------- MODULE MC_Reassembly ---------------------------------
(* C20, binding C: BCURMulti.parse as the code's loop, fed by an adversary who picks parts   *)
(* from two payloads' honest parts (same part count), in any order and multiplicity, with     *)
(* possibly corrupted fragments.  The bc32 checksum and the sha256 digest are ideal.           *)
(* Also the chunking law for every length and chunk size in a range.                           *)
EXTENDS BCUR, FiniteSets, TLC

CONSTANTS Y, MaxParts
Payloads == {"A", "B"}
\* a part: [x, y, sum (payload id of the digest it carries), frag (<<payload, index>> or "junk")]
Parts == {[x |-> x, y |-> Y, sum |-> p, frag |-> <<p, x>>] : p \in Payloads, x \in 1..Y}
         \cup {[x |-> x, y |-> Y, sum |-> "A", frag |-> <<"junk", x>>] : x \in 1..Y}          \* corrupted character in a fragment
         \cup {[x |-> x, y |-> Y + 1, sum |-> "A", frag |-> <<"A", x>>] : x \in 1..Y}          \* lying about the part count
VARIABLES input, cnt, gsum, gy, frags, st
vars == <<input, cnt, gsum, gy, frags, st>>
RECURSIVE SeqsUpTo(_, _)
SeqsUpTo(S, n) == IF n = 0 THEN {<<>>} ELSE LET P == SeqsUpTo(S, n - 1) IN P \cup {Append(p, x) : p \in {q \in P : Len(q) = n - 1}, x \in S}
Init == input \in SeqsUpTo(Parts, MaxParts) /\ cnt = 0 /\ gsum = "none" /\ gy = 0 /\ frags = <<>> /\ st = "loop"
\* one iteration of the for loop in BCURMulti.parse
Iter == /\ st = "loop" /\ cnt < Len(input)
        /\ LET e == input[cnt + 1] IN
           IF cnt + 1 # e.x THEN st' = "reject" /\ UNCHANGED <<cnt, gsum, gy, frags>>
           ELSE IF cnt = 0 THEN gsum' = e.sum /\ gy' = e.y /\ frags' = <<e.frag>> /\ cnt' = 1 /\ st' = "loop"
           ELSE IF e.sum # gsum \/ e.y # gy THEN st' = "reject" /\ UNCHANGED <<cnt, gsum, gy, frags>>
           ELSE frags' = Append(frags, e.frag) /\ cnt' = cnt + 1 /\ UNCHANGED <<gsum, gy>> /\ st' = "loop"
        /\ UNCHANGED input
\* after the loop: bc32 decode of the joined fragments (ideal checksum: only a complete honest fragment list decodes)
\* and comparison of its sha256 with the carried digest
WholeOf(p) == [k \in 1..Y |-> <<p, k>>]
Finish == /\ st = "loop" /\ cnt = Len(input)
          /\ st' = (IF \E p \in Payloads : frags = WholeOf(p) /\ gsum = p THEN "accept" ELSE "reject")
          /\ UNCHANGED <<input, cnt, gsum, gy, frags>>
Next == Iter \/ Finish
Spec == Init /\ [][Next]_vars
\* accepted => the input is exactly the honest, complete, in-order part list of the payload that is returned
ExactOrLoud == st = "accept" => \E p \in Payloads : /\ Len(input) = Y /\ \A k \in 1..Y : input[k].frag = <<p, k>> /\ input[k].sum = p
HonestAccepted == (st \in {"accept", "reject"} /\ \E p \in Payloads : input = [k \in 1..Y |-> [x |-> k, y |-> Y, sum |-> p, frag |-> <<p, k>>]]) => st = "accept"
ASSUME \A L \in 1..300, m \in 1..60 : ChunkLaw(L, m)
====================================================================================
