---------------------------------- MODULE PBKDF2Stream ----------------------------------
(* The vendored PBKDF2 object as a stream state machine (C14): state (buf, blockNum), action  *)
(* Read(n) written like PBKDF2.read.  Blocks T_i are abstract (B bytes <<i, .., i>>).          *)
(* Invariant: the concatenation of everything read so far is a prefix of T_1 || T_2 || ...     *)
(* whatever the sequence of read sizes.                                                         *)
EXTENDS Naturals, Sequences, SequencesExt, TLC
CONSTANTS B, MaxTotal
T(i) == [k \in 1..B |-> i]
RECURSIVE Stream(_)
Stream(n) == IF n = 0 THEN <<>> ELSE Stream(n - 1) \o T(n)
VARIABLES buf, blockNum, out
vars == <<buf, blockNum, out>>
Init == buf = <<>> /\ blockNum = 0 /\ out = <<>>
RECURSIVE Fill(_, _, _)
Fill(b, i, want) == IF Len(b) >= want THEN <<b, i>> ELSE Fill(b \o T(i + 1), i + 1, want)
Read(n) == /\ Len(out) + n <= MaxTotal
           /\ LET f == Fill(buf, blockNum, n) IN
              /\ out' = out \o SubSeq(f[1], 1, n)
              /\ buf' = SubSeq(f[1], n + 1, Len(f[1]))
              /\ blockNum' = f[2]
Next == \E n \in 0..(2 * B + 1) : Read(n)
Spec == Init /\ [][Next]_vars
PrefixOfStream == out = SubSeq(Stream((MaxTotal + B - 1) \div B + 1), 1, Len(out))
BufferIsNextBytes == buf = SubSeq(Stream(blockNum), Len(out) + 1, blockNum * B)
====================================================================================
