--------------------------------- MODULE C14Cases ---------------------------------
(* Binding B for C14: recorded BIP39 / PBKDF2 calls decided by TLC with BIP39.tla.  Words are  *)
(* carried as indexes into the 2048-word list (the harness reads bip39_words.txt itself).       *)
EXTENDS BIP39, CaseIO
HO(c) == HRows(c.hr)
WhyEnc(c) == IF c.res # "ok" THEN "bytes_to_mnemonic-raises" ELSE IF c.idx # Indexes(HO(c), c.ent) THEN "mnemonic-words-differ" ELSE
             IF ~c.back_ok \/ c.back # c.ent THEN "mnemonic_to_bytes-does-not-invert" ELSE ""
WhyDec(c) == LET d == Decode(HO(c), c.idx) IN
  IF d.ent = <<-1>> THEN "harness-row-missing"
  ELSE IF d.ok /\ ~c.accepted THEN "rejects-valid-mnemonic" \o c.form
  ELSE IF ~d.ok /\ c.accepted THEN "accepts-invalid-mnemonic" \o c.form
  ELSE IF d.ok /\ c.bytes # d.ent THEN "decoded-bytes-differ" ELSE ""
WhySeed(c) == LET s == HashIn(HO(c), "pbkdf2-sha512-2048", c.sentence \o <<-3>> \o <<109, 110, 101, 109, 111, 110, 105, 99>> \o c.pass) IN
  IF s = NoHash THEN "harness-row-missing" ELSE IF c.res # "ok" THEN "from_mnemonic-raises" ELSE IF c.seed # s THEN "seed-is-not-pbkdf2-hmac-sha512-2048"
  ELSE IF c.master # c.master_from_seed THEN "master-key-is-not-bip32-master-of-seed" ELSE ""
WhyPbkdf(c) == LET want == PBKDF2(c.hr, c.P, c.S, c.rounds, c.dklen, 64) IN
  IF want = <<-1>> THEN "prf-call-chain-differs-from-rfc8018" ELSE IF c.out # want THEN "derived-key-differs" ELSE ""
Why(c) == CASE c.kind = "enc" -> WhyEnc(c) [] c.kind = "dec" -> WhyDec(c) [] c.kind = "seed" -> WhySeed(c) [] c.kind = "pbkdf" -> WhyPbkdf(c)
            [] c.kind = "eq" -> (IF c.a = c.b THEN "" ELSE c.what)
VARIABLES i, bad
Init == i = 1 /\ bad = <<>>
Next == /\ i <= NCases /\ i' = i + 1
        /\ bad' = LET w == Why(Cases[i]) IN IF w = "" THEN bad ELSE Append(bad, [id |-> Cases[i].id, why |-> w])
Fin == (i = NCases + 1) => JsonSerialize(IOEnv.OUT, bad)
====================================================================================
