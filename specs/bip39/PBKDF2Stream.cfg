SPECIFICATION Spec
CONSTANTS
  B = 3
  MaxTotal = 9
INVARIANT PrefixOfStream
INVARIANT BufferIsNextBytes
