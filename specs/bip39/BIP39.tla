------------------------------------ MODULE BIP39 ------------------------------------
(* BIP39 mnemonics (C14): entropy || first ENT/32 bits of SHA256(entropy) cut into 11-bit     *)
(* word indexes and back, the acceptance predicate for index sequences, and PBKDF2            *)
(* (RFC 8018) over an uninterpreted PRF given as certified rows.                               *)
EXTENDS Bech32, HashOracle, Bitwise

RECURSIVE BitsToInt(_, _, _, _)
BitsToInt(bits, from, n, acc) == IF n = 0 THEN acc ELSE BitsToInt(bits, from + 1, n - 1, 2 * acc + bits[from])
\* entropy bytes -> word indexes
Indexes(ho, ent) ==
  LET cs == Len(ent) \div 4                                      \* ENT/32 checksum bits
      h == HashIn(ho, "sha256", ent)
      bits == BitsOf(ent) \o SubSeq(BitsOf(<<h[1], h[2]>>), 1, cs)
      n == Len(bits) \div 11 IN
  [k \in 1..n |-> BitsToInt(bits, 11 * (k - 1) + 1, 11, 0)]
ElevenBits(v) == [k \in 1..11 |-> (v \div (2 ^ (11 - k))) % 2]
RECURSIVE AllBits(_, _, _)
AllBits(idx, i, acc) == IF i > Len(idx) THEN acc ELSE AllBits(idx, i + 1, acc \o ElevenBits(idx[i]))
\* index sequence -> [ok, ent]
Decode(ho, idx) ==
  IF Len(idx) \notin {12, 15, 18, 21, 24} \/ \E k \in 1..Len(idx) : idx[k] < 0 \/ idx[k] > 2047 THEN [ok |-> FALSE, ent |-> <<>>]
  ELSE LET bits == AllBits(idx, 1, <<>>)  cs == Len(idx) \div 3  nb == (Len(bits) - cs) \div 8
           ent == [k \in 1..nb |-> BitsToInt(bits, 8 * (k - 1) + 1, 8, 0)]
           h == HashIn(ho, "sha256", ent) IN
       IF h = NoHash THEN [ok |-> FALSE, ent |-> <<-1>>]
       ELSE [ok |-> SubSeq(BitsOf(<<h[1]>>), 1, cs) = SubSeq(bits, Len(bits) - cs + 1, Len(bits)), ent |-> ent]

\* PBKDF2: rows are the PRF calls in order of use; block i uses rows off+1 .. off+c
XorB(a, b) == [k \in 1..Len(a) |-> a[k] ^^ b[k]]
RECURSIVE FoldU(_, _, _, _, _, _)
FoldU(rows, P, j, c, prev, acc) ==        \* rows[j] must be PRF(P, prev); returns the xor of U_1..U_c or <<-1>>
  IF c = 0 THEN acc
  ELSE IF j > Len(rows) \/ rows[j].in # P \o <<-3>> \o prev THEN <<-1>>
  ELSE FoldU(rows, P, j + 1, c - 1, rows[j].out, IF acc = <<>> THEN rows[j].out ELSE XorB(acc, rows[j].out))
Int4(i) == <<0, 0, i \div 256, i % 256>>
RECURSIVE PBlocks(_, _, _, _, _, _, _)
PBlocks(rows, P, S, c, i, nblocks, acc) == IF i > nblocks THEN acc
  ELSE LET t == FoldU(rows, P, (i - 1) * c + 1, c, S \o Int4(i), <<>>) IN IF t = <<-1>> THEN <<-1>> ELSE PBlocks(rows, P, S, c, i + 1, nblocks, acc \o t)
PBKDF2(rows, P, S, c, dklen, hlen) == LET nb == (dklen + hlen - 1) \div hlen  all == PBlocks(rows, P, S, c, 1, nb, <<>>) IN
  IF all = <<-1>> THEN <<-1>> ELSE SubSeq(all, 1, dklen)
====================================================================================
