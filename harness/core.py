"""Shared machinery: TLC runner, case-batch validation, table export, verdicts, evidence.

Every property check (harness/props/cNN.py) is a function run(ctx).  It uses
  ctx.mc(...)        model-check a spec configuration (binding C)
  ctx.table(...)     let TLC evaluate spec operators over a finite domain and export the table,
                     which the driver then replays through the real code (binding A)
  ctx.validate(...)  let TLC decide recorded implementation calls / traces (binding B)
  ctx.violation(...) report a disagreement (filtered through known_findings.json)
TLC is the only decision procedure; python drives the implementation and moves data.
"""
import fnmatch
import itertools
import json
import os
import re
import shutil
import subprocess
import sys
import tempfile
import time
from concurrent.futures import ThreadPoolExecutor

ROOT = os.path.dirname(os.path.dirname(os.path.abspath(__file__)))
SPECS = os.path.join(ROOT, "specs")
LIB = os.path.join(SPECS, "lib")
JAR = "/opt/veriftools/tla/tla2tools.jar:/opt/veriftools/tla/CommunityModules-deps.jar"
REPO = os.environ.get("VERIF_REPO", "/repo")
NCPU = min(16, os.cpu_count() or 4)


class MachineryError(Exception):
    pass


class TLCResult:
    def __init__(self, out, rc, wall):
        self.out, self.rc, self.wall = out, rc, wall
        m = re.search(r"(\d+) states generated, (\d+) distinct states found", out)
        self.generated = int(m.group(1)) if m else 0
        self.distinct = int(m.group(2)) if m else 0
        self.ok = "Model checking completed. No error has been found." in out or \
                  ("Finished in" in out and "Error:" not in out and rc == 0)
        self.invariant = None
        m = re.search(r"Error: Invariant (\S+) is violated", out)
        if m:
            self.invariant = m.group(1)
        m = re.search(r"Error: Action property (\S+) is violated", out)
        if m:
            self.invariant = m.group(1)
        self.assume_failed = "Assumption" in out and "is false" in out
        self.eval_error = ("Error:" in out) and not self.invariant and not self.assume_failed

    def trace_text(self):
        i = self.out.find("Error: The behavior up to this point is:")
        if i < 0:
            i = self.out.find("Error:")
        return self.out[i:i + 6000] if i >= 0 else ""

    def printed(self, tag):
        """Values printed with PrintT(<<"tag", ...>>) on one line."""
        res = []
        for line in self.out.splitlines():
            if line.startswith('<<"%s"' % tag):
                res.append(line)
        return res


def _die_with_parent():
    """TLC must not outlive the check that started it (a killed or timed-out check otherwise leaves JVMs burning cores)."""
    try:
        import ctypes
        import signal
        ctypes.CDLL("libc.so.6", use_errno=True).prctl(1, signal.SIGKILL)      # PR_SET_PDEATHSIG
    except Exception:
        pass


def run_tlc(module_path, cfg=None, workers=1, env=None, timeout=600, extra=(), heap="3g", metadir=None,
            deadlock=False):
    d = os.path.dirname(module_path)
    mod = os.path.basename(module_path)
    cfg = cfg or (os.path.splitext(mod)[0] + ".cfg")
    if os.path.isabs(cfg):
        pass
    own = metadir is None
    if own:
        metadir = tempfile.mkdtemp(prefix="tlcmeta_")
    cmd = ["java", "-XX:+UseParallelGC", "-XX:ParallelGCThreads=%d" % max(2, min(int(workers), 8)), "-XX:CICompilerCount=2", "-Xss512m", "-Xmx" + heap, "-DTLA-Library=" + os.pathsep.join([LIB] + sorted(os.path.join(SPECS, x) for x in os.listdir(SPECS) if os.path.isdir(os.path.join(SPECS, x)) and x != "lib")),
           "-cp", JAR, "tlc2.TLC", "-workers", str(workers), "-metadir", metadir, "-noGenerateSpecTE",
           "-config", cfg]
    if not deadlock:
        cmd.append("-deadlock")  # -deadlock == do NOT check deadlock
    cmd += list(extra) + [mod]
    e = dict(os.environ)
    e.update({k: str(v) for k, v in (env or {}).items()})
    t0 = time.time()
    try:
        p = subprocess.run(cmd, cwd=d, env=e, stdout=subprocess.PIPE, stderr=subprocess.STDOUT,
                           timeout=timeout, text=True, preexec_fn=_die_with_parent)
        out, rc = p.stdout, p.returncode
    except subprocess.TimeoutExpired as ex:
        out = (ex.stdout or b"").decode() if isinstance(ex.stdout, bytes) else (ex.stdout or "")
        out += "\nTIMEOUT after %ss" % timeout
        rc = 124
    finally:
        if own:
            shutil.rmtree(metadir, ignore_errors=True)
    return TLCResult(out, rc, time.time() - t0)


def load_known():
    p = os.path.join(ROOT, "known_findings.json")
    if not os.path.exists(p):
        return []
    return json.load(open(p)).get("findings", [])


class Ctx:
    def __init__(self, prop, tier, seed, level="model_checking"):
        self.prop, self.tier, self.seed, self.level = prop, tier, seed, level
        self.t0 = time.time()
        self.tmp = tempfile.mkdtemp(prefix="verif_%s_" % prop)
        self.states = 0
        self.transitions = 0
        self.traces = 0
        self.evaluations = 0
        self.nontrivial = set()
        self.samples = []
        self.violations = []   # (key, detail, replay)
        self.known_hit = {}
        self.notes = []
        self.exhaustive = []
        self.tlc_runs = []
        self.rule = ""
        self.assumptions = []
        self.trusted = ["TLC 1.8.0 (tla2tools.jar) as evaluator of the TLA+ specifications",
                        "CPython hashlib/hmac as the graph of the cryptographic hash primitives"]
        self.known = [k for k in load_known() if k.get("property") == prop]
        self.replay_filter = None
        self.quick = tier == "quick"
        self._ctr = itertools.count()
        self.only = None

    def want(self, part):
        return (self.only is None or part in self.only) and part not in getattr(self, "skip", ())

    def parallel(self, thunks, workers=NCPU):
        """run independent thunks (each typically one TLC invocation) concurrently; returns results in order"""
        with ThreadPoolExecutor(max_workers=workers) as ex:
            futs = [ex.submit(t) for t in thunks]
            return [f.result() for f in futs]

    # ------------------------------------------------------------------ TLC front ends
    def _account(self, name, r):
        self.states += r.distinct
        self.transitions += r.generated
        self.tlc_runs.append({"run": name, "distinct": r.distinct, "generated": r.generated,
                              "wall_s": round(r.wall, 1)})

    def mc(self, relpath, cfg=None, workers=None, timeout=7200, env=None, expect_invariants=(), name=None,
           extra=(), heap="6g"):
        """Model-check specs/<relpath> with cfg.  Returns TLCResult.  An invariant violation is
        returned to the caller (which decides: known finding about the faithful model, or violation)."""
        path = os.path.join(SPECS, relpath)
        r = run_tlc(path, cfg, workers or NCPU, env, timeout, extra, heap=heap)
        self._account(name or (relpath + ":" + (cfg or "")), r)
        if r.rc == 124:
            raise MachineryError("TLC timeout on %s %s" % (relpath, cfg))
        if r.eval_error or (not r.ok and not r.invariant and not r.assume_failed):
            raise MachineryError("TLC failed on %s %s:\n%s" % (relpath, cfg, r.out[-3000:]))
        return r

    def mc_expect_ok(self, relpath, cfg=None, what="", **kw):
        r = self.mc(relpath, cfg, **kw)
        if r.invariant or r.assume_failed:
            self.violation("spec:%s:%s:%s" % (relpath, cfg, r.invariant or "ASSUME"),
                           "model checking of %s (%s) found a counterexample to %s\n%s"
                           % (relpath, what, r.invariant or "an ASSUME", r.trace_text()),
                           {"kind": "tlc-counterexample", "spec": relpath, "cfg": cfg, "text": r.trace_text()})
        return r

    def table(self, relpath, cfg=None, env=None, timeout=7200, workers=1, heap="6g"):
        """TLC evaluates the spec over a finite domain and writes JSON to $OUT; returns parsed JSON."""
        out = os.path.join(self.tmp, "table_%d.json" % next(self._ctr))
        e = dict(env or {})
        e["OUT"] = out
        r = self.mc(relpath, cfg, workers=workers, timeout=timeout, env=e, heap=heap)
        if r.invariant or r.assume_failed:
            self.violation("spec:%s:%s:%s" % (relpath, cfg, r.invariant or "ASSUME"),
                           "law stated in %s fails in TLC: %s" % (relpath, r.trace_text()[:2000]),
                           {"kind": "tlc-law", "spec": relpath, "cfg": cfg, "text": r.trace_text()})
            return []
        if not os.path.exists(out):
            raise MachineryError("TLC wrote no table for %s: %s" % (relpath, r.out[-2000:]))
        data = json.load(open(out))
        os.unlink(out)
        return data

    def validate(self, relpath, cases, cfg=None, shards=None, timeout=7200, env=None, per_shard_min=50,
                 heap="3g"):
        """Binding B: TLC evaluates the spec's verdict on every recorded case.
        cases: list of JSON-able dicts with unique 'id'.  The TLA+ module (cfg) must read
        IOEnv.CASES, and write to IOEnv.OUT a sequence of records [id |-> .., why |-> ..] for the
        cases it rejects.  Returns {id: why} of rejected cases."""
        if not cases:
            return {}
        n = len(cases)
        shards = shards or max(1, min(NCPU, n // per_shard_min))
        chunks = [cases[i::shards] for i in range(shards)]
        path = os.path.join(SPECS, relpath)
        base = next(self._ctr)

        def one(k):
            cf = os.path.join(self.tmp, "cases_%d_%d.json" % (base, k))
            of = os.path.join(self.tmp, "bad_%d_%d.json" % (base, k))
            with open(cf, "w") as f:
                json.dump({"cases": chunks[k]}, f)
            e = dict(env or {})
            e.update({"CASES": cf, "OUT": of})
            r = run_tlc(path, cfg, 1, e, timeout, heap=heap)
            return k, r, cf, of

        bad = {}
        with ThreadPoolExecutor(max_workers=NCPU) as ex:
            for k, r, cf, of in ex.map(one, range(shards)):
                self._account("%s:%s#%d" % (relpath, cfg or "", k), r)
                if r.rc == 124:
                    raise MachineryError("TLC timeout validating %s" % relpath)
                if not r.ok or not os.path.exists(of):
                    raise MachineryError("TLC failed validating %s (shard %d):\n%s" % (relpath, k, r.out[-3000:]))
                for rec in json.load(open(of)):
                    if isinstance(rec, dict) and "id" in rec:
                        bad[rec["id"]] = rec.get("why", "")
                os.unlink(cf)
                os.unlink(of)
        self.traces += n
        self.evaluations += n
        return bad

    # ------------------------------------------------------------------ verdicts
    def sample(self, s):
        if len(self.samples) < 6:
            self.samples.append(s)

    def nontriv(self, key):
        self.nontrivial.add(key)

    def violation(self, key, detail, replay=None):
        """key: stable class of the failing case (used for known-finding matching)."""
        for k in self.known:
            if k.get("status", "known") != "known":
                continue
            if any(fnmatch.fnmatchcase(key, pat) for pat in k.get("match", [])):
                self.known_hit.setdefault(k["id"], {"entry": k, "n": 0, "first": key})
                self.known_hit[k["id"]]["n"] += 1
                return False
        self.violations.append((key, detail, replay))
        return True

    def finish(self, machinery_failed=False):
        os.makedirs(os.path.join(ROOT, "evidence"), exist_ok=True)
        wall = time.time() - self.t0
        for h in self.known_hit.values():
            print("KNOWN-FINDING: property=%s %s [%s] (%d cases, e.g. %s)"
                  % (self.prop, h["entry"]["what"], h["entry"]["id"], h["n"], h["first"]))
        rc = 0
        vdir = os.path.join(ROOT, "violations")
        seen = set()
        for key, detail, replay in self.violations:
            if key in seen:
                continue
            seen.add(key)
            os.makedirs(vdir, exist_ok=True)
            safe = re.sub(r"[^A-Za-z0-9_.-]+", "_", key)[:80]
            path = os.path.join(vdir, "%s_%s.json" % (self.prop, safe))
            with open(path, "w") as f:
                json.dump({"property": self.prop, "seed": self.seed, "tier": self.tier, "key": key,
                           "detail": detail, "replay": replay}, f, indent=1, default=str)
            print("VIOLATION property=%s replay=%s" % (self.prop, path))
            print("  clause: %s\n  %s" % (key, (detail or "")[:1500].replace("\n", "\n  ")))
            rc = 1
            if len(seen) >= 25:
                print("  ... (%d more violation classes suppressed)" % (len({k for k, _, _ in self.violations}) - 25))
                break
        cov = {
            "states": max(self.states, 0), "transitions": max(self.transitions, 0),
            "traces_validated_against_impl": self.traces,
            "samples": self.samples or ["(none recorded)"],
            "evaluations": self.evaluations,
            "distinct_nontrivial": len(self.nontrivial),
            "rule": self.rule,
            "exhaustive": bool(self.exhaustive),
            "exhaustive_spaces": self.exhaustive,
            "tlc_runs": self.tlc_runs[:60],
            "n_tlc_runs": len(self.tlc_runs),
            "trusted_base": self.trusted,
            "known_findings_hit": [{"id": h["entry"]["id"], "cases": h["n"]} for h in self.known_hit.values()],
            "notes": self.notes,
        }
        ev = {"property_id": self.prop, "tier": self.tier, "seed": self.seed, "level": self.level,
              "coverage": cov, "assumptions": self.assumptions, "wall_s": round(wall, 1),
              "violations": len(seen)}
        # X.. = specification growth beyond the listed properties (DESIGN.md section 4): not in MANIFEST.checks
        evdir = os.path.join(ROOT, "evidence" if self.prop.startswith("C") else "evidence_extra")
        os.makedirs(evdir, exist_ok=True)
        with open(os.path.join(evdir, self.prop + ".json"), "w") as f:
            json.dump(ev, f, indent=1, default=str)
        if self.tier == "thorough" and not machinery_failed:
            # keep the deepest run next to the per-change evidence (evidence/<id>.json is rewritten by whichever tier ran last)
            tdir = os.path.join(ROOT, "evidence_thorough")
            os.makedirs(tdir, exist_ok=True)
            with open(os.path.join(tdir, self.prop + ".json"), "w") as f:
                json.dump(ev, f, indent=1, default=str)
        shutil.rmtree(self.tmp, ignore_errors=True)
        print("%s %s tier=%s seed=%d states=%d transitions=%d impl-cases=%d nontrivial=%d wall=%.0fs"
              % ("MACHINERY-ERROR" if machinery_failed else "PASS" if rc == 0 else "FAIL", self.prop, self.tier, self.seed, self.states,
                 self.transitions, self.traces, len(self.nontrivial), wall))
        return rc


def toy_guard(ctx, fn):
    """Run a toy-group binding last (after the real-curve bindings, so that nothing it rebinds can leak into them) and only
    where it applies: if the re-parameterisation fails its self-check on this tree (constants inlined, tables cached at
    module level, ...), the binding is skipped with a note -- the real-curve bindings have already decided the property."""
    try:
        fn()
    except MachineryError as e:
        if "toy" not in str(e):
            raise
        msg = "toy-group binding skipped on this tree: %s" % e
        print("NOTE " + msg)
        ctx.notes.append(msg)


# ---------------------------------------------------------------------- value helpers
def B(b):
    """bytes -> JSON list of ints"""
    return list(b)


def nat_limbs(n, base_bits=13):
    """non-negative int -> little-endian limb list (base 2^13) for specs/lib/Nat256.tla"""
    assert n >= 0
    out = []
    while n:
        out.append(n & ((1 << base_bits) - 1))
        n >>= base_bits
    return out


class CallTimeout(BaseException):
    """an implementation call did not return within CALL_LIMIT seconds (non-termination is a wrong result, not a hang of the check)"""


CALL_LIMIT = float(os.environ.get("VERIF_CALL_LIMIT", "900"))
_depth = [0]


def _on_alarm(signum, frame):
    raise CallTimeout()


def outcome(fn, *a, **kw):
    """Run an implementation call; classify the result as ('ok', value) or ('raise', typename).
    The outermost call on the main thread runs under a wall-clock limit far above any legitimate duration of a library call
    (milliseconds to seconds), so that a change that makes the library loop forever is decided ('raise', 'CallTimeout')
    instead of hanging the check."""
    import signal
    import threading
    armed = False
    if _depth[0] == 0 and threading.current_thread() is threading.main_thread():
        try:
            signal.signal(signal.SIGALRM, _on_alarm)
            signal.setitimer(signal.ITIMER_REAL, CALL_LIMIT)
            armed = True
        except (ValueError, OSError):
            armed = False
    _depth[0] += 1
    try:
        return ("ok", fn(*a, **kw))
    except RecursionError:
        return ("raise", "RecursionError")
    except CallTimeout:
        return ("raise", "CallTimeout")
    except Exception as e:  # noqa
        return ("raise", type(e).__name__)
    finally:
        _depth[0] -= 1
        if armed:
            signal.setitimer(signal.ITIMER_REAL, 0)


def setup_repo_import():
    os.environ.setdefault("BUIDL_VERIF_TRACE", "1")
    if REPO not in sys.path:
        sys.path.insert(0, REPO)
    import buidl  # noqa
    assert os.path.realpath(os.path.dirname(buidl.__file__)) == os.path.realpath(os.path.join(REPO, "buidl")), buidl.__file__


# ---------------------------------------------------------------------- hash terms (DESIGN.md 2.3)
import hashlib as _hl
import hmac as _hm

_FN = {1: "sha256", 2: "hash256", 3: "hash160", 4: "ripemd160", 5: "sha1", 8: "sha512",
       20: "tag:TapSighash", 21: "tag:TapLeaf", 22: "tag:TapBranch", 23: "tag:TapTweak", 24: "tag:BIP0340/aux",
       25: "tag:BIP0340/nonce", 26: "tag:BIP0340/challenge", 27: "tag:KeyAgg list", 28: "tag:KeyAgg coefficient",
       29: "tag:MuSig/noncecoef"}


def hash_prim(fn, data):
    """the primitives of the trusted base; the harness knows primitives, not algorithms"""
    if fn == "sha256":
        return _hl.sha256(data).digest()
    if fn == "hash256":
        return _hl.sha256(_hl.sha256(data).digest()).digest()
    if fn == "hash160":
        return _hl.new("ripemd160", _hl.sha256(data).digest()).digest()
    if fn == "ripemd160":
        return _hl.new("ripemd160", data).digest()
    if fn == "sha1":
        return _hl.sha1(data).digest()
    if fn == "sha512":
        return _hl.sha512(data).digest()
    if fn.startswith("tag:"):
        t = _hl.sha256(fn[4:].encode()).digest()
        return _hl.sha256(t + t + data).digest()
    raise KeyError(fn)


def eval_term(seq):
    """Evaluate a byte-string term exported by TLC in which a hash application under the free-constructor oracle
    appears as  -2, fnid, n, <n elements>  (specs/lib/HashOracle.tla)."""
    out = bytearray()
    i = 0
    n = len(seq)
    while i < n:
        v = seq[i]
        if v == -2:
            fn = _FN[seq[i + 1]]
            ln = seq[i + 2]
            out += hash_prim(fn, eval_term(seq[i + 3:i + 3 + ln]))
            i += 3 + ln
        else:
            out.append(v)
            i += 1
    return bytes(out)


WORDLISTS = {"bip39": ("bip39/english.txt", 2048, "2f5eed53a4727b4bf8880d8f3f199efc90e58503646d9ff8eff3a2ed3b24dbda"),
             "slip39": ("slip39/wordlist.txt", 1024, "bcc4555340332d169718aed8bf31dd9d5248cb7da6e5d355140ef4f1e601eec3")}


def spec_wordlist(ctx, which, lib_words):
    """The word list is part of the specification (BIP39 english.txt / the SLIP39 list): the copy under specs/ is what the checks
    use as oracle, and the list the library loaded must be that list."""
    import hashlib
    rel, n, digest = WORDLISTS[which]
    raw = open(os.path.join(SPECS, rel), "rb").read()
    words = raw.decode().split()
    if hashlib.sha256(raw).hexdigest() != digest or len(words) != n or words != sorted(words) or len({w[:4] for w in words}) != n:
        raise MachineryError("the specification's copy of the %s word list is damaged" % which)
    lib = list(lib_words)
    if lib != words:
        k = next((i for i in range(min(len(lib), n)) if lib[i] != words[i]), min(len(lib), n))
        ctx.violation("wordlist:%s-list-differs" % which, "the %s word list loaded by the library differs from the standard list at index %d: %r (standard: %r)"
                      % (which, k, lib[k] if k < len(lib) else None, words[k] if k < n else None), {"kind": "wordlist", "which": which, "index": k})
    return words


# ---- process pools whose workers run library code: an exception that escapes from the library inside a worker is the library
# failing on an in-domain input (a violation with a stable key), not a failure of the machinery
def _guarded_job(t):
    import importlib
    import traceback
    modname, fname, job = t
    try:
        return getattr(importlib.import_module(modname), fname)(job)
    except MachineryError:
        raise
    except Exception as e:
        frames = traceback.extract_tb(e.__traceback__)
        lib = os.path.realpath(os.path.join(REPO, "buidl")) + os.sep
        last = frames[-1] if frames else None
        in_lib = last is not None and os.path.realpath(last.filename).startswith(lib) and os.sep + "test" + os.sep not in last.filename
        where = "%s.%s" % (os.path.splitext(os.path.basename(last.filename))[0], last.name) if last is not None else "?"
        return {"__raised__": True, "in_library": in_lib, "type": type(e).__name__, "msg": str(e)[:200], "where": where,
                "traceback": traceback.format_exc()[-3000:]}


def pool_map(ctx, fn, jobs, workers=None):
    from concurrent.futures import ProcessPoolExecutor
    with ProcessPoolExecutor(max_workers=workers or NCPU) as ex:
        for res in ex.map(_guarded_job, [(fn.__module__, fn.__name__, j) for j in jobs]):
            if isinstance(res, dict) and res.get("__raised__"):
                if res["in_library"]:
                    ctx.violation("library-raises:%s:%s" % (res["type"], res["where"]),
                                  "the library raised %s(%s) in %s on an input of the property's domain (worker of %s)" % (res["type"], res["msg"], res["where"], fn.__name__),
                                  {"kind": "library-exception", "traceback": res["traceback"]})
                    continue
                raise MachineryError("worker %s failed outside the library: %s" % (fn.__name__, res["traceback"][-800:]))
            yield res
