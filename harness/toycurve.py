"""Toy-parameter instantiation of the unmodified elliptic-curve code (DESIGN.md 2.2): the module constants
A, B, P, N, G of buidl.pecc (and the names re-imported by other modules) are rebound inside the harness process
to a small curve with prime group order n > p, p = 3 (mod 4).  The same code then runs on a group small enough
for TLC to enumerate completely."""
import contextlib

# (p, a, b): prime order n > p, p = 3 mod 4 (found by search; n and a generator are recomputed and checked by TLC)
TOY_CURVES = [(7, 0, 3), (11, 1, 6), (19, 2, 9), (31, 0, 3), (67, 0, 7)]


def curve_points(p, a, b):
    pts = []
    for x in range(p):
        for y in range(p):
            if (y * y - (x * x * x + a * x + b)) % p == 0:
                pts.append((x, y))
    return pts


def curve_params(p, a, b):
    pts = curve_points(p, a, b)
    n = len(pts) + 1
    g = min(pts)
    return n, g


@contextlib.contextmanager
def toy(p, a, b, n, g, toy_hash=False, toy_hmac=False):
    import buidl.pecc as pecc
    import buidl.ecc as ecc
    import buidl.hd as hd
    import buidl.taproot as taproot
    saved = {}
    mods = [pecc, ecc, hd, taproot]

    def setall(name, val):
        for m in mods:
            if hasattr(m, name):
                saved.setdefault((m, name), getattr(m, name))
                setattr(m, name, val)
    try:
        setall("A", a)
        setall("B", b)
        setall("P", p)
        setall("N", n)
        G = pecc.S256Point(g[0], g[1])
        setall("G", G)
        if toy_hash:
            for tag, name in ((1, "hash_aux"), (2, "hash_nonce"), (3, "hash_challenge")):
                saved.setdefault((pecc, name), getattr(pecc, name))
                setattr(pecc, name, (lambda t: (lambda msg: toy_h(t, msg)))(tag))
        if toy_hmac:
            saved.setdefault((hd, "hmac_sha512"), hd.hmac_sha512)
            hd.hmac_sha512 = toy_hmac512
        _selfcheck(pecc, hd, p, a, b, n, g, toy_hash, toy_hmac)
        yield pecc
    finally:
        for (m, name), val in saved.items():
            setattr(m, name, val)


def _selfcheck(pecc, hd, p, a, b, n, g, toy_hash, toy_hmac):
    """The toy replay is only meaningful while rebinding the module constants really re-parameterises the library's code.  If a
    (perfectly legitimate) refactor inlines a constant or imports a hash under another name, the rebinding silently stops working
    and every table row would 'disagree': that is a limitation of this binding, not a defect of the library, so it is reported
    as a machinery failure (exit 2), never as a violation."""
    from .core import MachineryError
    try:
        G = pecc.G
        # only what shows that the constants are picked up -- never the correctness of the arithmetic, which is what the replay decides
        ok = (G.x.num, G.y.num) == tuple(g) and G.x.prime == p and G.a.num == a and G.b.num == b and G.a.prime == p
        ok = ok and pecc.N == n and pecc.P == p
        ok = ok and pecc.S256Field(1).prime == p
        one = pecc.PrivateKey(1).point
        ok = ok and one.x is not None and one.x.prime == p
        # the library must agree WITH ITSELF on the toy group: k*G against repeated G + G + ... (a table or cache filled under other
        # parameters shows here; a wrong group law does not, both sides would share it)
        acc = G
        for k_ in (2, 3, 4, 5):
            acc = acc + G
            ok = ok and (k_ * G) == acc
        if toy_hash:
            ok = ok and pecc.hash_challenge(b"\x01\x02") == toy_h(3, b"\x01\x02")
        if toy_hmac:
            ok = ok and hd.hmac_sha512(b"k", b"d") == toy_hmac512(b"k", b"d")
    except Exception as e:         # noqa: BLE001
        raise MachineryError("toy re-parameterisation of buidl.pecc failed its self-check (%s: %s): the toy binding does not apply to this tree" % (type(e).__name__, e))
    if not ok:
        raise MachineryError("toy re-parameterisation of buidl.pecc no longer takes effect (constants inlined or renamed?): the toy binding does not apply to this tree")


def toy_h(tag, b):
    """ToyH of specs/curve/Sigs.tla"""
    w = 0
    for i, x in enumerate(b):
        w = (w + (i + 1) * x) % 65521
    v = ((37 + 2 * tag) * w + 11 * tag) % 65521
    return v.to_bytes(32, "big")


def _wsum(b):
    w = 0
    for i, x in enumerate(b):
        w = (w + (i + 1) * x) % 65521
    return w


def toy_hmac512(key, data):
    """ToyHmacL / ToyHmacR of specs/bip32/BIP32Toy.tla"""
    l = (41 * _wsum(key + data) + 3) % 65521
    r = (43 * _wsum(data + key) + 5) % 65521
    return l.to_bytes(32, "big") + r.to_bytes(32, "big")
