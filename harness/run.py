import argparse
import importlib
import os
import sys
import traceback

from .core import Ctx, MachineryError, setup_repo_import


def main():
    ap = argparse.ArgumentParser()
    ap.add_argument("prop")
    ap.add_argument("--tier", default=os.environ.get("VERIF_TIER", "quick"), choices=["quick", "thorough"])
    ap.add_argument("--seed", type=int, default=int(os.environ.get("VERIF_SEED", "20260922")))
    ap.add_argument("--replay", default=None)
    ap.add_argument("--selftest", action="store_true")
    ap.add_argument("--only", default=None, help="comma separated part names (debugging)")
    a = ap.parse_args()
    prop = a.prop.upper()
    try:
        setup_repo_import()
        mod = importlib.import_module("harness.props.%s" % prop.lower())
    except Exception:
        traceback.print_exc()
        print("MACHINERY-FAILURE property=%s (import)" % prop)
        return 2
    rp = None
    if a.replay:
        # a replay file is what a VIOLATION line points to: the check is re-run with the recorded tier and seed (everything a check
        # does is a function of those two and of the tree) and the verdict is restricted to the recorded violation class
        import json
        rp = json.load(open(a.replay))
        a.tier, a.seed = rp.get("tier", a.tier), int(rp.get("seed", a.seed))
    ctx = Ctx(prop, a.tier, a.seed)
    ctx.only = set(a.only.split(",")) if a.only else None
    ctx.selftest = a.selftest
    ctx.replay = rp
    try:
        mod.run(ctx)
        if a.tier == "thorough" and not a.replay and not a.only:
            # deepen the randomised bindings: the parts that do not depend on the seed (bounded models, exported tables) ran once
            # above; the recorded-call / history / replay parts are repeated under fresh seeds until the time budget is used
            import time
            budget = float(os.environ.get("VERIF_THOROUGH_BUDGET", "1500"))
            max_rounds = int(os.environ.get("VERIF_THOROUGH_ROUNDS", "24"))
            ctx.skip = {"mc", "toy", "tables", "table", "fetcher", "histories"}
            rounds = 0
            t_first = time.time() - ctx.t0
            while rounds < max_rounds and not ctx.violations and (time.time() - ctx.t0) + t_first * 0.6 < budget:
                rounds += 1
                ctx.seed = a.seed + 1000003 * rounds
                mod.run(ctx)
            ctx.seed = a.seed
            ctx.notes.append("thorough tier: %d additional rounds of the randomised parts under seeds seed + 1000003*r (time budget %ds)" % (rounds, budget))
    except MachineryError as e:
        print("MACHINERY-FAILURE property=%s: %s" % (prop, e))
        if "toy" in str(e) and not a.only:
            # the toy-group binding does not apply to this tree (e.g. a module-level cache keyed by coordinates survives the
            # re-parameterisation): the bindings on the real curve still decide the property; without a violation from them the
            # run stays a machinery failure
            try:
                ctx.skip = {"toy", "tables", "mc"}
                mod.run(ctx)
            except Exception:
                traceback.print_exc()
            if ctx.violations:
                ctx.notes.append("toy-group binding inapplicable on this tree: %s" % e)
                return ctx.finish()
        ctx.finish(machinery_failed=True)
        return 2
    except Exception as e:
        traceback.print_exc()
        # An exception that escapes from library code on an input the driver feeds unguarded (inputs of the property's domain that
        # the unchanged library handles) is the library failing on that input, not a failure of the machinery.
        frames = traceback.extract_tb(e.__traceback__)
        from .core import REPO
        lib = os.path.realpath(os.path.join(REPO, "buidl")) + os.sep
        last = frames[-1] if frames else None
        if last is not None and os.path.realpath(last.filename).startswith(lib) and os.sep + "test" + os.sep not in last.filename:
            where = "%s.%s" % (os.path.splitext(os.path.basename(last.filename))[0], last.name)
            caller = next((f for f in reversed(frames) if not os.path.realpath(f.filename).startswith(lib)), None)
            ctx.violation("library-raises:%s:%s" % (type(e).__name__, where),
                          "the library raised %s(%s) in %s on an input of the property's domain (driver line: %s:%s %s)"
                          % (type(e).__name__, str(e)[:200], where, os.path.basename(caller.filename) if caller else "?", caller.lineno if caller else "?",
                             (caller.line or "")[:160] if caller else ""),
                          {"kind": "library-exception", "traceback": traceback.format_exc()[-3000:]})
            return ctx.finish()
        print("MACHINERY-FAILURE property=%s (driver exception)" % prop)
        ctx.finish(machinery_failed=True)
        return 2
    if rp is not None:
        hit = [v for v in ctx.violations if v[0] == rp.get("key")]
        print("REPLAY %s: the recorded violation class %s %s on this tree" % (a.replay, rp.get("key"), "REPRODUCES" if hit else "does not reproduce"))
        ctx.violations = hit
    return ctx.finish()


if __name__ == "__main__":
    sys.exit(main())
