"""C15 — SLIP39 (specs/slip39/*).

(C) MC_Shamir: the threshold scheme over GF(256) with one-byte secrets for every (k, n) up to a bound, dealt exactly as
    split_secret deals it: every set of >= k shares recovers the secret and the digest share, fewer refuse, the result
    is independent of the subset; GF(256) axioms and the generator table.
(B/A) with randbits rebound to a recorded stream, TLC re-derives every share mnemonic of generate_shares byte for byte
    (Feistel encryption from certified PBKDF2 rows, digest share from a certified HMAC row, interpolation, header bit
    packing, RS1024); every subset class is run through recover_mnemonic (>= k recover, < k and mixed splits refuse);
    1..3-word corruptions must be rejected; tables, interpolation, share codec and encryption on random inputs,
    including wrong-passphrase-then-right sequences in one process.
"""
import hashlib
import hmac as pyhmac
import itertools
import os
import random

from ..core import B, outcome, REPO, spec_wordlist


def run(ctx):
    from buidl import shamir as SH, mnemonic as MN
    rng = random.Random(ctx.seed)
    q = ctx.quick
    words = spec_wordlist(ctx, "slip39", SH.SLIP39)
    widx = {w: i for i, w in enumerate(words)}
    ctx.rule = ("cases = recorded SLIP39 calls decided by TLC; distinct = (k, n, secret size, exponent), subset class x outcome, corruption weight, "
                "codec field boundary classes")
    ctx.assumptions = ["PBKDF2-HMAC-SHA256 and HMAC-SHA256 rows certified with hashlib; RS1024 detection of 2- and 3-word errors is sampled (5.8e12 patterns)"]
    if ctx.want("mc"):
        r = ctx.mc_expect_ok("slip39/MC_Shamir.tla", "MC_Shamir.cfg", what="threshold scheme over GF(256)", env={"NMAX": 4 if q else 6}, timeout=7200)
        ctx.exhaustive.append("MC_Shamir: every (k, n) with n <= %d, 4 secrets x 2 digest bytes x 8 random assignments, every collection order (%d states)" % (4 if q else 6, r.distinct))
    if not ctx.want("cases"):
        return
    cases = []

    def rb(n):
        return bytes(rng.randrange(256) for _ in range(n))

    def pb_row(exp, i, pw, salt):
        key = bytes([i]) + pw
        return {"fn": "pbkdf2-sha256-e%d" % exp, "in": B(key) + [-3] + B(salt), "out": B(hashlib.pbkdf2_hmac("sha256", key, salt, 2500 << exp, dklen=len(salt) - 8))}

    def crypt_rows(payload, id_, exp, pw):
        """rows for the four Feistel rounds of encrypting payload (and of decrypting the result), by running the Feistel here with hashlib"""
        rows = []
        half = len(payload) // 2
        salt = b"shamir" + id_.to_bytes(2, "big")
        l, r = payload[:half], payload[half:]
        for i in range(4):
            rows.append(pb_row(exp, i, pw, salt + r))
            f = hashlib.pbkdf2_hmac("sha256", bytes([i]) + pw, salt + r, 2500 << exp, dklen=half)
            l, r = r, bytes(x ^ y for x, y in zip(l, f))
        return rows, r + l
    cases.append({"id": "gf", "kind": "gf", "exp": list(SH.ShareSet.exp), "log": list(SH.ShareSet.log2)})
    # interpolation on random data
    for i in range(4 if q else 20):
        k = rng.choice([1, 2, 3, 5, 16])
        xs = rng.sample(range(256), k)
        nb = rng.choice([16, 32])
        pts = [(x, rb(nb)) for x in xs]
        x = rng.choice([255, 254, 0, 15, rng.randrange(256)])
        while x in xs:
            x = (x + 1) % 256
        out = outcome(SH.ShareSet.interpolate, x, pts)
        cases.append({"id": "ip%d" % i, "kind": "interp", "x": x, "pts": [{"x": px, "y": B(py)} for px, py in pts], "out": B(out[1]) if out[0] == "ok" else []})
        ctx.nontriv(("interp", k, nb))
    # share codec
    for i in range(6 if q else 40):
        nb = rng.choice([16, 32])
        f = {"id": rng.choice([0, 1, 32767, rng.randrange(32768)]), "exp": rng.choice([0, 1, 31]), "gi": rng.choice([0, 15, rng.randrange(16)]), "gc": rng.choice([1, 16, rng.randrange(1, 17)]),
             "mi": rng.choice([0, 15]), "mt": rng.choice([1, 16, rng.randrange(1, 17)]), "value": rb(nb)}
        f["gt"] = rng.choice([1, f["gc"], rng.randrange(1, f["gc"] + 1)])
        sh = outcome(SH.Share, nb * 8, f["id"], f["exp"], f["gi"], f["gt"], f["gc"], f["mi"], f["mt"], int.from_bytes(f["value"], "big"))
        mn = outcome(sh[1].mnemonic) if sh[0] == "ok" else ("raise", "")
        back = outcome(SH.Share.parse, mn[1]) if mn[0] == "ok" else ("raise", None)
        jf = dict(f, value=B(f["value"]))
        cases.append({"id": "sh%d" % i, "kind": "share", "f": jf, "res": "ok" if mn[0] == "ok" else "raise", "words": [widx[w] for w in mn[1].split()] if mn[0] == "ok" else [],
                      "parse_ok": back[0] == "ok", "parsed": [back[1].id, back[1].exponent, back[1].group_index, back[1].group_threshold, back[1].group_count, back[1].member_index, back[1].member_threshold] if back[0] == "ok" else [],
                      "parsed_value": B(back[1].bytes) if back[0] == "ok" else []})
        ctx.nontriv(("share", nb, f["gc"] == 16, f["mt"] == 16))
    # encryption, incl. the same (payload, id, exponent) under different passphrases in one process
    payload, id_ = rb(16), rng.randrange(32768)
    for j, (pl, idv, exp, pw) in enumerate([(payload, id_, 0, b"TREZOR"), (payload, id_, 0, b""), (payload, id_, 0, b"other"), (rb(32), rng.randrange(32768), 1, bytes([0xE2, 0x82, 0xAC])), (rb(16), 0, 2 if not q else 0, b"x")]):
        enc = outcome(SH.ShareSet.encrypt, pl, idv, exp, pw)
        rows, _ = crypt_rows(pl, idv, exp, pw)

        t = SH.ShareSet.__new__(SH.ShareSet)
        t.id, t.exponent = idv, exp
        dec = outcome(SH.ShareSet.decrypt, t, enc[1], pw) if enc[0] == "ok" else ("raise", b"")
        # decrypt rows: rounds 3..0 on the ciphertext
        half = len(pl) // 2
        if enc[0] == "ok":
            salt = b"shamir" + idv.to_bytes(2, "big")
            l, r = enc[1][:half], enc[1][half:]
            for ii in (3, 2, 1, 0):
                rows.append(pb_row(exp, ii, pw, salt + r))
                fo = hashlib.pbkdf2_hmac("sha256", bytes([ii]) + pw, salt + r, 2500 << exp, dklen=half)
                l, r = r, bytes(x ^ y for x, y in zip(l, fo))
        cases.append({"id": "cr%d" % j, "kind": "crypt", "payload": B(pl), "id_": 0, "exp": exp, "pass": B(pw), "hr": rows, "enc": B(enc[1]) if enc[0] == "ok" else [], "dec": B(dec[1]) if dec[0] == "ok" else []})
        cases[-1]["id"] = "cr%d" % j
        cases[-1]["idv"] = idv
        ctx.nontriv(("crypt", len(pl), exp, len(pw)))
    for c in cases:
        if c["kind"] == "crypt":
            c["id_case"] = c["id"]
    # generate_shares with a recorded random stream; recover from subsets
    kn = [(1, 1), (1, 3), (2, 2), (2, 3), (3, 5), (16, 16), (2, 16)] if q else [(k, n) for n in range(1, 17) for k in range(1, n + 1)]
    for si, (k, n) in enumerate(kn):
        nb = 16 if si % 2 == 0 else 32
        secret = rb(nb)
        mnemonic = MN.bytes_to_mnemonic(secret, nb * 8)
        pw = [b"", b"TREZOR", bytes([0xC3, 0xA9]), b"pw ", b" pw", b"pw\n", b"   ", b"a b"][si % 8] if si < 16 else rng.choice([b"", b"TREZOR", b"pw \t"])
        exp = 0 if (q or si % 5) else rng.choice([1, 2])
        stream = []
        orig = SH.randbits

        def rec(nbits):
            v = rng.getrandbits(nbits)
            stream.append((nbits, v))
            return v
        SH.randbits = rec
        try:
            shares = outcome(SH.ShareSet.generate_shares, mnemonic, k, n, pw, exp)
        finally:
            SH.randbits = orig
        if shares[0] != "ok":
            ctx.violation("split:generate_shares-raises:k%d-n%d" % (k, n), "generate_shares(k=%d, n=%d) raised %s" % (k, n, shares), {"kind": "split", "k": k, "n": n})
            continue
        if not stream or not hasattr(SH, "randbits"):
            from ..core import MachineryError
            raise MachineryError("shamir.randbits is no longer the library's source of randomness: the byte-exact re-derivation of generate_shares does not apply to this tree")
        idv = stream[0][1]
        rest = [v for _, v in stream[1:]]
        drandom = bytes(rest[:nb - 4]) if k > 1 else b""
        rsh = [bytes(rest[nb - 4 + j * nb: nb - 4 + (j + 1) * nb]) for j in range(max(0, k - 2))]
        rows, enc = crypt_rows(secret, idv, exp, pw)
        if k > 1:
            rows.append({"fn": "hmac256", "in": B(drandom) + [-3] + B(enc), "out": B(pyhmac.new(drandom, enc, hashlib.sha256).digest())})
        if n <= 6 or (k, n) in ((16, 16), (2, 16)) or si % 7 == 0:
            cases.append({"id": "sp%d" % si, "kind": "split", "secret": B(secret), "idv": idv, "exp": exp, "pass": B(pw), "k": k, "n": n, "drandom": B(drandom), "rshares": [B(x) for x in rsh],
                          "hr": rows, "shares": [[widx[w] for w in s.split()] for s in shares[1]]})
        ctx.nontriv(("split", k, n, nb, exp))
        sl = shares[1]
        # subsets
        trials = []
        if len(sl) <= 5:
            for r_ in range(1, len(sl) + 1):
                for sub in itertools.combinations(range(len(sl)), r_):
                    trials.append(("secret" if r_ >= k else "fewer-than-k", [sl[i] for i in sub]))
        else:
            idx = list(range(len(sl)))
            for _ in range(3):
                rng.shuffle(idx)
                trials.append(("secret", [sl[i] for i in idx[:k]]))
                trials.append(("secret", [sl[i] for i in idx[:min(len(sl), k + 1)]]))
                if k > 1:
                    trials.append(("fewer-than-k", [sl[i] for i in idx[:k - 1]]))
        if k > 1:
            trials.append(("wrong-passphrase", None))
        for tj, (expect, sub) in enumerate(trials):
            if expect == "wrong-passphrase":
                # a wrong passphrase yields another secret (no authentication in SLIP39): then the right one must still work
                outcome(SH.ShareSet.recover_mnemonic, sl[:k], pw + b"!")
                got = outcome(SH.ShareSet.recover_mnemonic, sl[:k], pw)
                expect2 = "secret"
            else:
                got = outcome(SH.ShareSet.recover_mnemonic, sub, pw)
                expect2 = expect
            cases.append({"id": "rc%d.%d" % (si, tj), "kind": "recover", "expect": expect2, "res": got[0], "got": [ord(ch) for ch in got[1]] if got[0] == "ok" else [], "mnemonic": [ord(ch) for ch in mnemonic], "cls": expect})
            ctx.nontriv(("recover", expect, got[0]))
        # mixed splits: shares of another split of another secret with the same parameters
        if k > 1 and si < 12:
            other = SH.ShareSet.generate_shares(MN.bytes_to_mnemonic(rb(nb), nb * 8), k, n, pw, exp)
            got = outcome(SH.ShareSet.recover_mnemonic, sl[:k - 1] + [other[k - 1]], pw)
            cases.append({"id": "mx%d" % si, "kind": "recover", "expect": "mixed-splits", "res": got[0], "got": [], "mnemonic": [], "cls": "mixed"})
            # the same with a foreign split that carries the SAME identifier, exponent, k and n (only the digest can tell):
            # exactly k shares with one foreign, and k genuine shares plus one foreign at a lower / higher member index, in both list orders
            first = [True]

            def same_id(nbits):
                if first[0]:
                    first[0] = False
                    return idv
                return rng.getrandbits(nbits)
            SH.randbits = same_id
            try:
                twin = outcome(SH.ShareSet.generate_shares, MN.bytes_to_mnemonic(rb(nb), nb * 8), k, n, pw, exp)
            finally:
                SH.randbits = orig
            if twin[0] == "ok":
                tw = twin[1]
                mixes = [("k-with-one-foreign", sl[:k - 1] + [tw[k - 1]])]
                if n > k:
                    mixes += [("k-genuine-plus-foreign-above", sl[:k] + [tw[n - 1]]), ("foreign-above-listed-first", [tw[n - 1]] + sl[:k]),
                              ("k-genuine-plus-foreign-below", sl[n - k:] + [tw[0]]), ("foreign-in-the-middle", sl[:1] + [tw[n - 1]] + sl[1:k])]
                for mj, (mname, subset) in enumerate(mixes):
                    got = outcome(SH.ShareSet.recover_mnemonic, subset, pw)
                    cases.append({"id": "mxt%d.%d" % (si, mj), "kind": "recover", "expect": "mixed-splits", "res": got[0], "got": [], "mnemonic": [], "cls": "mixed-same-id:" + mname})
                    ctx.nontriv(("recover-mixed-same-id", mname, got[0]))
        # corruptions of 1..3 words
        if si < (4 if q else 30):
            base = sl[0].split()
            for w in (1, 2, 3):
                for rep in range(6 if q else 30):
                    ws = list(base)
                    for pos in rng.sample(range(len(ws)), w):
                        ws[pos] = words[(widx[ws[pos]] + rng.randrange(1, 1024)) % 1024]
                    got = outcome(SH.Share.parse, " ".join(ws))
                    cases.append({"id": "co%d.%d.%d" % (si, w, rep), "kind": "corrupt", "words": [widx[x] for x in ws], "accepted": got[0] == "ok", "w": w})
                ctx.nontriv(("corrupt", w))
    send = []
    for c in cases:
        c2 = {k_: v for k_, v in c.items() if k_ not in ("cls", "w", "id_case", "id_")}
        if c["kind"] in ("crypt", "split"):
            c2["id"] = c["id"]
            c2["id_"] = None
        c2.setdefault("hr", [])
        send.append(c2)
    # TLA+ records use field "id" both for the case id and the share-set identifier: carry the identifier as "sid"
    for c2 in send:
        c2.pop("id_", None)
        if "idv" in c2:
            c2["sid"] = c2.pop("idv")
    byid = {c["id"]: c for c in cases}
    ctx.sample({k_: v for k_, v in send[2].items() if k_ in ("id", "kind", "x")})
    bad = ctx.validate("slip39/C15Cases.tla", send, "C15Cases.cfg", timeout=7200, per_shard_min=10)
    for cid, why in bad.items():
        c = byid[cid]
        ctx.violation("%s:%s:%s" % (c["kind"], why, c.get("cls", c.get("w", ""))), "%s case %s: %s" % (c["kind"], cid, why),
                      {"kind": "case", "case": {k_: (v if not isinstance(v, list) or len(v) < 200 else "...") for k_, v in c.items() if k_ != "hr"}})
