"""X02 — psbt_helper.create_multisig_psbt as a guarded constructor, composed with the review summary (specs/psbt/Create.tla).

(C) MC_Create: every request of a catalogue (record sets, a foreign xpub under a cosigner's fingerprint, per input: wrong hash,
    wrong amount, wrong quorum, wrong / missing path, a coin locked to a foreign key; per output: false and true-but-unusual
    change claims, unclaimed change) goes through the stage machine Records / Input / Output / Fee / Build / Describe:
    a PSBT is built iff every claim is true, whatever is labelled change afterwards is real change, the honest request is
    summarised; a helper that trusts change claims must be refuted.
(B) CreateCases: the same request space (single and double deviations from honest requests, several m-of-n) concretised to
    real HD wallets, previous transactions and P2SH addresses, run through create_multisig_psbt and describe_basic_multisig;
    TLC decides every recorded run with the model's predicates.
"""
import contextlib
import copy
import io
import random

from ..core import outcome


def wallet(rng, n, m):
    from buidl import hd
    from buidl.tx import Tx, TxIn, TxOut
    from buidl.script import RedeemScript

    def rb(k):
        return bytes(rng.randrange(256) for _ in range(k))
    base = "m/45'/0"
    roots = [hd.HDPrivateKey.from_seed(rb(32), network="testnet") for _ in range(n)]
    atk = hd.HDPrivateKey.from_seed(rb(32), network="testnet")
    W = {"n": n, "m": m, "base": base, "roots": roots, "atk": atk}
    W["xfp"] = {c + 1: roots[c].fingerprint().hex() for c in range(n)}
    W["tags"] = {"rcv": "/0/%d", "alt": "/0/%d7", "chg": "/1/3", "altchg": "/1/9"}

    def key(c, tag, j=0):
        """the concrete public key (SEC hex) of abstract key <<c, tag>>; c = 0: the outsider"""
        root = atk if c == 0 else roots[c - 1]
        suffix = {"rcv": "/0/%d" % j, "alt": "/0/%d" % (70 + j), "chg": "/1/3", "ext": "/5/5"}[tag]
        return root.traverse(base + suffix).pub.sec().hex()

    def p2sh(mm, keys, j=0):
        rs = RedeemScript.create_p2sh_multisig(quorum_m=mm, pubkey_hexes=[key(c, t, j) for c, t in keys], sort_keys=True)
        return rs
    W["key"], W["p2sh"] = key, p2sh
    return W


def honest(W, nin):
    n, m = W["n"], W["m"]
    own = lambda tag: [[c, tag] for c in range(1, n + 1)]      # noqa: E731
    ins = [{"hash_ok": True, "sats_ok": True, "m_claim": m, "paths": own("rcv"), "utxo": {"m": m, "keys": own("rcv")}} for _ in range(nin)]
    outs = [{"claims_change": False, "m_claim": 0, "paths": [], "addr": {"m": 1, "keys": [[0, "ext"]]}},
            {"claims_change": True, "m_claim": m, "paths": own("chg"), "addr": {"m": m, "keys": own("chg")}}]
    return {"records": list(range(1, n + 1)), "wrongrec": 0, "ins": ins, "outs": outs, "fee_ok": True}


def deviations(W, req, rng):
    """every single deviation of the catalogue applicable to req (returns list of (name, new request))"""
    n, m = W["n"], W["m"]
    out = []

    def dv(name, fn):
        r = copy.deepcopy(req)
        try:
            fn(r)
        except (ValueError, IndexError, KeyError):
            return                      # not applicable to this request (the slot was already edited away)
        out.append((name, r))
    dv("missing-record", lambda r: r["records"].remove(n))
    dv("foreign-xpub-record", lambda r: r.__setitem__("wrongrec", 1))
    for i in range(len(req["ins"])):
        dv("in%d-hash" % i, lambda r: r["ins"][i].__setitem__("hash_ok", False))
        dv("in%d-sats" % i, lambda r: r["ins"][i].__setitem__("sats_ok", False))
        if m >= 2:
            dv("in%d-quorum" % i, lambda r: r["ins"][i].__setitem__("m_claim", m - 1))
        dv("in%d-path" % i, lambda r: r["ins"][i]["paths"].__setitem__(0, [1, "alt"]))
        if n >= 2:
            dv("in%d-missing-cosigner" % i, lambda r: r["ins"][i]["paths"].pop())
        dv("in%d-foreign-coin" % i, lambda r: r["ins"][i]["utxo"]["keys"].__setitem__(0, [0, "rcv"]))
    k = 1
    if m >= 2:
        dv("chg-false-quorum", lambda r: r["outs"][k].__setitem__("m_claim", m - 1))
        dv("chg-other-quorum", lambda r: (r["outs"][k].__setitem__("m_claim", m - 1), r["outs"][k]["addr"].__setitem__("m", m - 1)))
    dv("chg-false-path", lambda r: r["outs"][k]["paths"].__setitem__(0, [1, "alt"]))
    dv("chg-other-path", lambda r: (r["outs"][k]["paths"].__setitem__(0, [1, "alt"]), r["outs"][k]["addr"]["keys"].__setitem__(0, [1, "alt"])))
    dv("chg-foreign-address", lambda r: r["outs"][k]["addr"]["keys"].__setitem__(0, [0, "chg"]))
    if n >= 2:
        dv("chg-fewer-cosigners", lambda r: (r["outs"][k]["paths"].pop(), r["outs"][k]["addr"]["keys"].pop()))
    dv("chg-unclaimed", lambda r: (r["outs"][k].__setitem__("claims_change", False), r["outs"][k].__setitem__("paths", []), r["outs"][k].__setitem__("m_claim", 0)))
    dv("chg-first", lambda r: r["outs"].reverse())
    dv("no-change", lambda r: r["outs"].pop())
    dv("fee", lambda r: r.__setitem__("fee_ok", False))
    return out


def concretise_and_run(W, req, rng):
    """abstract request -> real arguments; returns the recorded outcome"""
    from buidl.tx import Tx, TxIn, TxOut
    from buidl.script import P2PKHScriptPubKey
    from buidl.psbt_helper import create_multisig_psbt
    base, n, m = W["base"], W["n"], W["m"]

    def suffix(tag, j):
        return {"rcv": "/0/%d" % j, "alt": "/0/%d" % (70 + j), "chg": "/1/3"}[tag]
    recs = []
    for c in req["records"]:
        node = (W["atk"] if c == req["wrongrec"] else W["roots"][c - 1]).traverse(base)
        recs.append([W["xfp"][c], node.xpub(), base])
    in_sats = [40000 + 1000 * j + rng.randrange(500) for j in range(len(req["ins"]))]
    input_dicts = []
    for j, x in enumerate(req["ins"]):
        rs = W["p2sh"](x["utxo"]["m"], [tuple(k) for k in x["utxo"]["keys"]], j)
        from buidl.script import P2SHScriptPubKey
        prev = Tx(1, [TxIn(bytes([j + 1]) * 32, 0)], [TxOut(777, P2PKHScriptPubKey(bytes(20))), TxOut(in_sats[j], P2SHScriptPubKey(rs.hash160()))], 0, network="testnet")
        h = prev.hash().hex()
        if not x["hash_ok"]:
            h = h[:-2] + ("00" if h[-2:] != "00" else "01")
        input_dicts.append({"quorum_m": x["m_claim"], "path_dict": {W["xfp"][c]: base + suffix(t, j) for c, t in x["paths"]},
                            "prev_tx_dict": {"hex": prev.serialize().hex(), "hash_hex": h, "output_idx": 1, "output_sats": in_sats[j] + (0 if x["sats_ok"] else 1)}})
    total_in = sum(in_sats)
    out_sats, output_dicts = [], []
    for k, o in enumerate(req["outs"]):
        sats = total_in // (3 + k)
        out_sats.append(sats)
        if o["addr"]["keys"] == [[0, "ext"]]:
            addr = P2PKHScriptPubKey(W["atk"].traverse(base + "/5/5").pub.hash160()).address(network="testnet")
        else:
            addr = W["p2sh"](o["addr"]["m"], [tuple(kk) for kk in o["addr"]["keys"]]).address(network="testnet")
        d = {"sats": sats, "address": addr}
        if o["claims_change"]:
            d["quorum_m"] = o["m_claim"]
            d["path_dict"] = {W["xfp"][c]: base + suffix(t, 0) for c, t in o["paths"]}
        output_dicts.append(d)
    fee = total_in - sum(out_sats)
    res = outcome(create_multisig_psbt, recs, input_dicts, output_dicts, fee + (0 if req["fee_ok"] else 1), "p2sh")
    rec = {"result": "psbt" if res[0] == "ok" else "rejected", "raised": "" if res[0] == "ok" else res[1], "summarised": False, "is_change": [], "fee": 0, "spend": 0,
           "change": 0, "total_in": 0, "in_sats": in_sats, "out_sats": out_sats}
    if res[0] == "ok":
        hdmap = {W["xfp"][c]: W["roots"][c - 1].traverse(base).pub for c in range(1, n + 1)}
        with contextlib.redirect_stdout(io.StringIO()):
            d = outcome(res[1].describe_basic_multisig, hdmap)
        if d[0] == "ok":
            s = d[1]
            isch = [bool(o["is_change"]) for o in s["outputs_desc"]]
            rec.update({"summarised": True, "is_change": (isch + [False] * len(out_sats))[:len(out_sats)], "fee": s["tx_fee_sats"], "spend": s["spend_sats"],
                        "change": s["change_sats"], "total_in": s["total_input_sats"]})
            # the PSBT also survives its own serialisation
            rt = outcome(lambda: type(res[1]).parse_base64(res[1].serialize_base64(), network="testnet").serialize_base64() == res[1].serialize_base64())
            rec["roundtrip"] = rt == ("ok", True)
        else:
            rec["describe_raised"] = d[1]
    return rec


def run(ctx):
    ctx.level = "model_checking"
    ctx.rule = ("a case is one request run through create_multisig_psbt (and describe_basic_multisig when a PSBT is built); distinct by "
                "(m-of-n, inputs, deviation names, built / rejected, summarised)")
    ctx.trusted += ["Create.tla as the statement of what create_multisig_psbt must accept", "the harness' concretisation: which key of which cosigner sits where is known by construction"]
    ctx.assumptions += ["P2SH only (the helper implements nothing else)", "amounts below 2^31 so that TLC's integers carry the sums"]
    q = ctx.quick
    if ctx.want("mc"):
        for (nn, mm) in ([(3, 2)] if q else [(2, 1), (2, 2), (3, 2), (3, 3)]):
            def cfg(chk):
                path = "%s/create_%d%d_%s.cfg" % (ctx.tmp, nn, mm, chk)
                with open(path, "w") as f:
                    f.write("SPECIFICATION Spec\nCONSTANTS\n  N = %d\n  M = %d\n  CheckOutputs = %s\nINVARIANT BuiltOnlyIfConsistent\nINVARIANT ConsistentIsBuilt\n"
                            "INVARIANT ChangeIsReal\nINVARIANT HonestSummarised\nPROPERTY Terminates\n" % (nn, mm, chk))
                return path
            r0 = ctx.mc("psbt/MC_Create.tla", cfg("FALSE"), workers=2)
            if not r0.invariant:
                raise Exception("vacuity: a helper that trusts change claims was expected to violate BuiltOnlyIfConsistent")
            r = ctx.mc_expect_ok("psbt/MC_Create.tla", cfg("TRUE"), what="guarded constructor + review, %d-of-%d" % (mm, nn), workers=4)
            ctx.exhaustive.append("MC_Create %d-of-%d: every request of the catalogue (%d states); trusting variant refuted" % (mm, nn, r.distinct))
    if not ctx.want("cases"):
        return
    rng = random.Random(ctx.seed)
    cases = []
    groups = {}
    for wi, (n, m, nin) in enumerate([(2, 1, 1), (3, 2, 2)] if q else [(2, 1, 1), (2, 2, 2), (3, 2, 1), (3, 2, 2), (3, 3, 1), (4, 2, 2), (5, 3, 1)]):
        W = wallet(rng, n, m)
        h = honest(W, nin)
        reqs = [("honest", h)]
        singles = deviations(W, h, rng)
        reqs += singles
        doubles = []
        for name, r1 in singles:
            for name2, r2 in deviations(W, r1, rng):
                if name2.split("-")[0] != name.split("-")[0] or name2 != name:
                    doubles.append((name + "+" + name2, r2))
        rng.shuffle(doubles)
        reqs += doubles[:(25 if q else 100)]
        for ri, (name, r) in enumerate(reqs):
            got = outcome(concretise_and_run, W, r, rng)
            if got[0] != "ok":
                continue        # a deviation pair that cannot be concretised (e.g. two edits of the same slot)
            rec = got[1]
            c = dict(r)
            c.update({"id": "w%d.%d" % (wi, ri), "name": name, "honest": name in ("honest", "chg-first", "no-change"), "n": n, "m": m})
            c.update({k: rec[k] for k in ("result", "summarised", "is_change", "fee", "spend", "change", "total_in", "in_sats", "out_sats")})
            if not c["is_change"]:
                c["is_change"] = [False] * len(r["outs"])
            cases.append(c)
            groups.setdefault((n, m), []).append(c)
            ctx.nontriv((n, m, nin, name if "+" not in name else "double", rec["result"], rec["summarised"]))
            if rec["result"] == "psbt" and rec.get("roundtrip") is False:
                ctx.violation("create:psbt-does-not-survive-serialisation", "request %s (%d-of-%d): serialise/parse/serialise of the built PSBT is not the identity" % (name, m, n),
                              {"kind": "create-run", "case": c})
    byid = {c["id"]: c for c in cases}
    ctx.sample({k: cases[0][k] for k in ("id", "name", "result", "summarised", "is_change")})
    ctx.sample({k: cases[3][k] for k in ("id", "name", "result", "ins")})
    for (n, m), cs in groups.items():
        path = "%s/createcases_%d%d.cfg" % (ctx.tmp, n, m)
        with open(path, "w") as f:
            f.write("INIT Init\nNEXT Next\nCONSTANTS\n  N = %d\n  M = %d\nINVARIANT Fin\n" % (n, m))
        send = [{k: v for k, v in c.items() if k not in ("name",)} for c in cs]
        bad = ctx.validate("psbt/CreateCases.tla", send, path, per_shard_min=40)
        for cid, why in bad.items():
            c = byid[cid]
            ctx.violation("create:%s" % why, "request %s (%d-of-%d) decided by Create.tla: %s; library: %s" % (c["name"], m, n, why, {k: c[k] for k in ("result", "summarised", "is_change")}),
                          {"kind": "create-run", "case": c, "why": why})
