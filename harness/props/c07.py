"""C07 — Script interpreter vs consensus semantics (specs/script/*).

(C) MC_Machine: reference machine + implementation-shaped evaluator, all programs <= MaxLen.
(A) C07Tables: TLC evaluates Consensus.OpResult / timelock grid / number codec over finite domains;
    every row is replayed through buidl.op.
(B) C07Cases: random structured programs run by Script.evaluate with every executed opcode recorded;
    TLC decides each opcode event and each program verdict with the reference semantics.
"""
import hashlib
import random

from ..core import B, outcome

HASHFN = {1: "sha256", 2: "hash256", 3: "hash160", 4: "ripemd160", 5: "sha1"}


def hcalc(fn, data):
    if fn == "sha256":
        return hashlib.sha256(data).digest()
    if fn == "hash256":
        return hashlib.sha256(hashlib.sha256(data).digest()).digest()
    if fn == "hash160":
        return hashlib.new("ripemd160", hashlib.sha256(data).digest()).digest()
    if fn == "ripemd160":
        return hashlib.new("ripemd160", data).digest()
    if fn == "sha1":
        return hashlib.sha1(data).digest()
    raise KeyError(fn)


def item_from_tla(x):
    """byte string exported by TLC; free-constructor hash terms <<-2, fnid>> \\o x are evaluated here"""
    if len(x) >= 3 and x[0] == -2:
        return hcalc(HASHFN[x[1]], bytes(x[3:]))
    return bytes(x)


def mk_tx(version, locktime, sequence, before=(), after=()):
    """the transaction context of an evaluation: the checked input (index len(before)) carries `sequence`; the consensus rules of
    both timelock opcodes look at that input only, whatever the sequences of the inputs around it"""
    from buidl.tx import Tx, TxIn
    ins = [TxIn(bytes([k + 1]) * 32, k, sequence=sq) for k, sq in enumerate(before)] + [TxIn(b"\x00" * 32, 0, sequence=sequence)]
    ins += [TxIn(bytes([k + 101]) * 32, k, sequence=sq) for k, sq in enumerate(after)]
    return Tx(version, ins, [], locktime)


def other_sequences(sequence, rng=None):
    """sequences for the neighbouring inputs that differ from the checked one in everything the two opcodes look at"""
    opposite = 0 if sequence == 0xFFFFFFFF else 0xFFFFFFFF
    flipped = sequence ^ 0x80400000                        # disable flag and type flag flipped, same value
    return (opposite, flipped & 0xFFFFFFFF)


# ------------------------------------------------------------------ (A) table replay
def replay_ops(ctx, rows):
    from buidl import op as OP
    n = 0
    for r in rows:
        if r["oos"]:
            continue
        code = r["op"]
        st = [bytes(x) for x in r["st"]]
        alt = [bytes(x) for x in r["alt"]]
        fn = OP.OP_CODE_FUNCTIONS[code]
        st2, alt2 = list(st), list(alt)
        if code in (107, 108):
            res = outcome(fn, st2, alt2)
        else:
            res = outcome(fn, st2)
        ok = res[0] == "ok" and res[1] is True
        n += 1
        exp_st = [item_from_tla(x) for x in r["rst"]]
        exp_alt = [item_from_tla(x) for x in r["ralt"]]
        key = None
        if ok != r["ok"]:
            key = "table-op:%s:%s" % (OP.OP_CODE_NAMES.get(code, code), "accepts" if ok else "fails")
        elif ok and (st2 != exp_st or alt2 != exp_alt):
            key = "table-op:%s:wrong-stack" % OP.OP_CODE_NAMES.get(code, code)
        ctx.nontriv(("op", code, len(st), r["ok"]))
        if key:
            ctx.violation(key, "opcode %s on stack %s: implementation %s -> %s, specification %s -> %s"
                          % (code, [x.hex() for x in st], res, [x.hex() for x in st2], r["ok"],
                             [x.hex() for x in exp_st]),
                          {"kind": "op-row", "row": r})
    ctx.evaluations += n
    ctx.traces += n
    if rows:
        ctx.sample({"table": "ops", "row": rows[len(rows) // 2]})
    return n


def replay_time(ctx, rows):
    from buidl import op as OP
    n = 0
    for r in rows:
        if r["oos"]:
            continue
        lt = int.from_bytes(bytes(r["locktime"]), "little")
        sq = int.from_bytes(bytes(r["sequence"]), "little")
        ver = int.from_bytes(bytes(r["version"]), "little")
        item = bytes(r["item"])
        tx = mk_tx(ver, lt, sq)
        st = [item]
        fn = OP.OP_CODE_FUNCTIONS[r["op"]]
        res = outcome(fn, st, tx, 0)
        ok = res[0] == "ok" and res[1] is True
        n += 1
        # the same row with the checked input between two inputs whose sequences say the opposite
        o1, o2 = other_sequences(sq)
        st2 = [item]
        res2 = outcome(fn, st2, mk_tx(ver, lt, sq, before=(o1,), after=(o2,)), 1)
        ok2 = res2[0] == "ok" and res2[1] is True
        if ok2 != r["ok"] or (ok2 and st2 != [item]):
            ctx.violation("table-time:%s:neighbouring-inputs:%s" % ("CLTV" if r["op"] == 177 else "CSV", "accepts" if ok2 else "fails"),
                          "operand=%s locktime=%d version=%d, checked input 1 of 3 with sequence %#x between inputs with sequences %#x, %#x: implementation %s, consensus %s"
                          % (item.hex(), lt, ver, sq, o1, o2, res2, r["ok"]), {"kind": "time-row", "row": r})
        name = "CLTV" if r["op"] == 177 else "CSV"
        if r["op"] == 178:
            cls = "disable-flag-operand" if (len(item) >= 4 and len(item) <= 5 and (int.from_bytes(item[:4], "little") >> 31) & 1 and not item[-1] & 0x80) else "plain"
        else:
            cls = "plain"
        ctx.nontriv(("time", r["op"], cls, r["ok"], lt >= 500000000, sq >> 31, (sq >> 22) & 1))
        if ok != r["ok"] or (ok and st != [item]):
            ctx.violation("table-time:%s:%s:%s" % (name, cls, "accepts" if ok else "fails"),
                          "%s operand=%s locktime=%d sequence=%#x version=%d: implementation %s, consensus %s"
                          % (name, item.hex(), lt, sq, ver, res, r["ok"]), {"kind": "time-row", "row": r})
    ctx.evaluations += n
    ctx.traces += n
    if rows:
        ctx.sample({"table": "timelock", "row": rows[len(rows) // 3]})


def replay_num(ctx, rows):
    from buidl.op import encode_num, decode_num
    for r in rows:
        v, e = r["v"], bytes(r["e"])
        got = outcome(encode_num, v)
        if got != ("ok", e):
            ctx.violation("table-num:encode", "encode_num(%d) = %s, specification %s" % (v, got, e.hex()),
                          {"kind": "num-row", "row": r})
        back = outcome(decode_num, e)
        if back != ("ok", v):
            ctx.violation("table-num:decode", "decode_num(%s) = %s, specification %d" % (e.hex(), back, v),
                          {"kind": "num-row", "row": r})
        ctx.nontriv(("num", len(e), v < 0))
    ctx.evaluations += len(rows)
    ctx.traces += len(rows)


def replay_str(ctx, rows):
    from buidl.op import decode_num
    for r in rows:
        s, v = bytes(r["s"]), r["v"]
        got = outcome(decode_num, s)
        if got != ("ok", v):
            ctx.violation("table-num:decode-str", "decode_num(%s) = %s, specification %d" % (s.hex(), got, v),
                          {"kind": "str-row", "row": r})
    ctx.nontriv(("str", len(rows) > 0))
    ctx.evaluations += len(rows)
    ctx.traces += len(rows)


# ------------------------------------------------------------------ (B) recorded runs
ARITY = {0: (0, 1), 79: (0, 1), 97: (0, 0), 105: (1, 0), 106: (0, 0), 107: (1, 0), 108: (0, 1), 109: (2, 0),
         110: (2, 4), 111: (3, 6), 112: (4, 6), 113: (6, 6), 114: (4, 4), 115: (1, 1), 116: (0, 1), 117: (1, 0),
         118: (1, 2), 119: (2, 1), 120: (2, 3), 121: (2, 2), 122: (2, 1), 123: (3, 3), 124: (2, 2), 125: (2, 3),
         130: (1, 2), 135: (2, 1), 136: (2, 0), 139: (1, 1), 140: (1, 1), 143: (1, 1), 144: (1, 1), 145: (1, 1),
         146: (1, 1), 147: (2, 1), 148: (2, 1), 154: (2, 1), 155: (2, 1), 156: (2, 1), 157: (2, 0), 158: (2, 1),
         159: (2, 1), 160: (2, 1), 161: (2, 1), 162: (2, 1), 163: (2, 1), 164: (2, 1), 165: (3, 1), 166: (1, 1),
         167: (1, 1), 168: (1, 1), 169: (1, 1), 170: (1, 1), 176: (0, 0), 177: (1, 1), 178: (1, 1)}
for _k in range(81, 97):
    ARITY[_k] = (0, 1)
for _k in range(179, 186):
    ARITY[_k] = (0, 0)
OPS = sorted(ARITY)


def rand_num_item(rng):
    from_choices = [0, 1, -1, 2, 3, 5, 16, 17, 127, 128, 129, 255, 256, 32767, 32768, 65535, 65536, 8388607, 8388608,
                    2147483647, -2147483647, 2147483646, rng.randrange(-2 ** 31 + 1, 2 ** 31), rng.randrange(-300, 300)]
    v = rng.choice(from_choices)
    if rng.random() < 0.5:
        v = rng.choice([v, -v])
    mag = abs(v)
    b = bytearray()
    while mag:
        b.append(mag & 255)
        mag >>= 8
    if b and b[-1] & 0x80:
        b.append(0x80 if v < 0 else 0)
    elif v < 0:
        b[-1] |= 0x80
    b = bytes(b)
    r = rng.random()
    if r < 0.08 and len(b) < 4:          # non-minimal encodings, negative zero
        pad = rng.randrange(1, 5 - len(b))
        if b and b[-1] & 0x80:
            b = b[:-1] + bytes([b[-1] & 0x7F]) + b"\x00" * (pad - 1) + b"\x80"
        else:
            b = b + b"\x00" * (pad - 1) + rng.choice([b"\x00", b"\x80"])
    return b


def rand_data(rng):
    r = rng.random()
    if r < 0.62:
        return rand_num_item(rng)
    if r < 0.8:
        return rng.choice([b"", b"\x00", b"\x80", b"\x00\x00", b"\x00\x80", b"\x01", b"\x81", b"\x00\x00\x00\x00\x80"])
    n = rng.choice([1, 2, 3, 4, 5, 6, 8, 19, 21, 31, 33, 64, 75, 76, 255, 256, 520, rng.randrange(1, 80)])
    if n in (20, 32):
        n += 1
    return bytes(rng.randrange(256) for _ in range(n))


def gen_block(rng, depth, budget, nest):
    """returns (commands, new_depth, ops_used)"""
    cmds = []
    used = 0
    while used < budget:
        r = rng.random()
        if r < 0.30 or depth == 0 and r < 0.6:
            cmds.append(rand_data(rng))
            depth += 1
            used += 1
        elif r < 0.40 and nest < 3 and budget - used >= 4:
            # conditional: [cond] IF/NOTIF block [ELSE block] ENDIF
            if depth == 0 or rng.random() < 0.7:
                cmds.append(rng.choice([b"", b"\x01", b"\x80", b"\x00", b"\x02", rand_num_item(rng)]))
                depth += 1
                used += 1
            cmds.append(rng.choice([99, 100]))
            depth -= 1
            sub = rng.randrange(0, max(1, (budget - used) // 2))
            tb, d1, u1 = gen_block(rng, depth, sub, nest + 1)
            cmds += tb
            used += u1 + 2
            d2 = depth
            if rng.random() < 0.6:
                cmds.append(103)
                eb, d2, u2 = gen_block(rng, depth, rng.randrange(0, max(1, (budget - used) // 2 + 1)), nest + 1)
                cmds += eb
                used += u2 + 1
            cmds.append(104)
            depth = max(0, min(d1, d2))
        else:
            cands = OPS if rng.random() < 0.07 else [o for o in OPS if ARITY[o][0] <= depth]
            o = rng.choice(cands)
            if o == 106 and rng.random() < 0.8:
                continue
            if o in (121, 122) and depth >= 2 and rng.random() < 0.85:
                cmds.append(bytes([rng.randrange(0, depth)]) if rng.random() < 0.8 else rng.choice([b"", b"\x81", b"\x10"]))
                used += 1
                depth += 1
            if o in (136, 157, 105) and rng.random() < 0.6:
                # make the verify likely to pass: duplicate the top first
                if o == 105:
                    cmds.append(b"\x01")
                    depth += 1
                else:
                    cmds.append(118)
                    depth += 1
                used += 1
            cmds.append(o)
            used += 1
            a = ARITY[o]
            depth = max(0, depth - a[0]) + a[1] if o not in (110, 111, 112, 113, 114, 118, 120, 121, 123, 124, 125, 130, 115, 177, 178) \
                else max(0, depth + a[1] - a[0])
    return cmds, depth, used


def gen_program(rng, maxops):
    budget = rng.choice([3, 5, 8, 12, 20, 30, maxops])
    cmds, depth, _ = gen_block(rng, 0, budget, 0)
    r = rng.random()
    if r < 0.35:
        cmds.append(rng.choice([b"\x01", b"", b"\x80", b"\x00", b"\x00\x80", b"\x02", b"\x00\x01"]))
    elif r < 0.5:
        cmds.append(rng.choice([81, 0, 79, 116]))
    return cmds[:maxops + 8]


def jcmd(c):
    return {"op": c, "d": []} if isinstance(c, int) else {"op": -1, "d": B(c)}


def record_runs(ctx, rng, nprog):
    """Run random programs through the real Script.evaluate with every opcode call recorded."""
    import contextlib
    import io
    from buidl import op as OP
    from buidl.script import Script
    events = []

    def wrap(code, fn):
        def w(stack, *rest):
            before = [bytes(x) for x in stack]
            altb = [bytes(x) for x in rest[0]] if code in (107, 108) else []
            res = "raise"
            try:
                r = fn(stack, *rest)
                res = "ok" if r is True else "fail"
                return r
            finally:
                alta = [bytes(x) for x in rest[0]] if code in (107, 108) else []
                events.append((code, before, altb, res, [bytes(x) for x in stack] if res == "ok" else [], alta if res == "ok" else []))
        return w

    saved = dict(OP.OP_CODE_FUNCTIONS)
    for code, fn in saved.items():
        OP.OP_CODE_FUNCTIONS[code] = wrap(code, fn)
    cases = []
    seen_ops = set()
    try:
        # unbalanced conditionals (an IF / NOTIF that is never closed, a stray ELSE / ENDIF): consensus fails them whatever branch is taken
        T_, F_ = b"\x01", b""
        unbalanced = [[T_, T_, 100], [T_, F_, 100, 103], [T_, T_, 99], [T_, F_, 99], [T_, F_, 99, 103], [T_, T_, 100, 103], [T_, 103], [T_, 104], [T_, T_, 99, 104, 104],
                      [T_, T_, T_, 100, 99, 104], [T_, F_, F_, 100, 100, 104], [T_, T_, 99, T_, 99, 104], [b"\x21" * 5, T_, T_, 100], [T_, T_, 100, b"\x02" * 33, 172],
                      [T_, 99, 103, 104, 103], [F_, 100, 104, 104]]
        # (a second OP_ELSE inside one conditional is valid under consensus but not "properly nested" in the property's sense: no such programs)
        for pi in range(nprog):
            cmds = gen_program(rng, 40)
            if pi < len(unbalanced):
                cmds = list(unbalanced[pi])
            elif rng.random() < 0.06:
                # break the balance of a generated program: drop one ENDIF / IF, or add a stray ELSE / ENDIF / unterminated opener
                depth_, top_pos, top_endifs = 0, [0], []
                for k_, c_ in enumerate(cmds):
                    if c_ in (99, 100):
                        depth_ += 1
                    elif c_ == 104:
                        depth_ -= 1
                        if depth_ == 0:
                            top_endifs.append(k_)
                    if depth_ == 0:
                        top_pos.append(k_ + 1)
                how = rng.choice(["drop", "stray", "open"])
                if how == "drop" and top_endifs:
                    del cmds[rng.choice(top_endifs)]                       # the ENDIF of a top-level conditional
                elif how == "stray":
                    cmds.insert(rng.choice(top_pos), rng.choice([103, 104]))    # an ELSE / ENDIF outside every conditional
                else:
                    cmds += [rng.choice([T_, F_]), rng.choice([99, 100])] + ([103] if rng.random() < 0.4 else [])
            version = rng.choice([1, 2, 2, 3])
            locktime = rng.choice([0, 0, 100, 499999999, 500000000, 500000001, 1700000000, 2 ** 32 - 1])
            sequence = rng.choice([0xFFFFFFFF, 0xFFFFFFFE, 0, 5, 0x400005, 0x80000000, 0x80400001, 0xFFFF, 0x40FFFF])
            # the evaluated input sits among 0..2 other inputs whose sequences say the opposite of its own
            o1, o2 = other_sequences(sequence)
            shape = rng.choice([((), ()), ((), ()), ((o1,), ()), ((), (o2,)), ((o1,), (o2,)), ((o2, o1), ())])
            tx = mk_tx(version, locktime, sequence, before=shape[0], after=shape[1])
            del events[:]
            with contextlib.redirect_stdout(io.StringIO()):
                res = outcome(Script(list(cmds)).evaluate, tx, len(shape[0]))
            verdict = "accept" if res == ("ok", True) else "reject"
            ctxj = {"locktime": B(locktime.to_bytes(4, "little")), "sequence": B(sequence.to_bytes(4, "little")),
                    "version": B(version.to_bytes(4, "little"))}
            hr = {}
            for (code, before, altb, r, after, alta) in events:
                if code in (166, 167, 168, 169, 170) and before:
                    fn = {166: "ripemd160", 167: "sha1", 168: "sha256", 169: "hash160", 170: "hash256"}[code]
                    hr[(fn, before[-1])] = hcalc(fn, before[-1])
            hrj = [{"fn": k[0], "in": B(k[1]), "out": B(v)} for k, v in hr.items()]
            c = dict(ctxj)
            c.update({"id": "p%d" % pi, "kind": "prog", "prog": [jcmd(x) for x in cmds], "verdict": verdict, "hr": hrj,
                      "via": sorted({e[0] for e in events if e[3] == "ok" and e[0] in KNOWN_DEFECTIVE_OPS})})
            cases.append(c)
            executed = tuple(sorted({e[0] for e in events}))
            ctx.nontriv(("prog", executed, verdict))
            if pi < 2:
                ctx.sample({"program": [x if isinstance(x, int) else x.hex() for x in cmds], "verdict": verdict,
                            "locktime": locktime, "sequence": sequence, "version": version})
            for ei, (code, before, altb, r, after, alta) in enumerate(events):
                if code in (99, 100):
                    continue      # flow control is checked through the program verdict (exec-stack vs splicing)
                key = (code, tuple(before), tuple(altb), locktime, sequence, version) if code in (177, 178) else (code, tuple(before), tuple(altb))
                if key in seen_ops:
                    continue
                seen_ops.add(key)
                e = dict(ctxj)
                myhr = []
                if code in (166, 167, 168, 169, 170) and before:
                    fn = {166: "ripemd160", 167: "sha1", 168: "sha256", 169: "hash160", 170: "hash256"}[code]
                    myhr = [{"fn": fn, "in": B(before[-1]), "out": B(hr[(fn, before[-1])])}]
                e.update({"id": "p%d.e%d" % (pi, ei), "kind": "op", "op": code, "st": [B(x) for x in before],
                          "alt": [B(x) for x in altb], "res": "ok" if r == "ok" else "fail",
                          "rst": [B(x) for x in after], "ralt": [B(x) for x in alta], "hr": myhr})
                cases.append(e)
                ctx.nontriv(("opev", code, min(len(before), 7), r))
    finally:
        OP.OP_CODE_FUNCTIONS.update(saved)
    return cases


def num_cases(ctx, rng, n):
    from buidl.op import encode_num, decode_num
    cases = []
    vals = [0, 1, -1, 127, 128, -128, 255, 256, 32767, 32768, 8388607, 8388608, 2 ** 31 - 1, -(2 ** 31) + 1]
    vals += [rng.randrange(-2 ** 31 + 1, 2 ** 31) for _ in range(n)]
    for i, v in enumerate(vals):
        e = encode_num(v)
        d = decode_num(e)
        cases.append({"id": "n%d" % i, "kind": "num", "neg": v < 0, "mag": B(abs(v).to_bytes(8, "little").rstrip(b"\x00")),
                      "enc": B(e), "dec_neg": d < 0, "dec_mag": B(abs(d).to_bytes(8, "little").rstrip(b"\x00"))})
    return cases


KNOWN_DEFECTIVE_OPS = {113}     # opcodes with a recorded known finding: program verdicts that executed them are keyed "via-<op>"


def classify_bad(case):
    k = case["kind"]
    if k == "prog" and case.get("via"):
        from buidl.op import OP_CODE_NAMES
        return "event:prog-via-%s" % "+".join(OP_CODE_NAMES.get(o, str(o)) for o in case["via"])
    if k == "op":
        from buidl.op import OP_CODE_NAMES
        return "event:%s" % OP_CODE_NAMES.get(case["op"], case["op"])
    return "event:%s" % k


def run(ctx):
    rng = random.Random(ctx.seed)
    q = ctx.quick
    ctx.rule = ("cases = rows of TLC-exported tables (opcode x stack, timelock grid, number codec) replayed through "
                "buidl.op, plus recorded opcode events/programs decided by TLC; distinct = (opcode, stack depth, "
                "outcome) for table rows and events, (set of executed opcodes, verdict) for programs; non-trivial = "
                "the opcode function was actually executed")
    ctx.assumptions = ["programs: conditionals properly nested with at most one ELSE per IF; arithmetic operands <= 4 "
                       "bytes (cases where the reference meets a longer operand are out of scope); pushes that form "
                       "P2SH / witness-program patterns excluded (property text)",
                       "exception == reject (the property only distinguishes accept from not-accept)"]
    # (C) model checking
    if ctx.want("mc"):
        r = ctx.mc_expect_ok("script/MC_Machine.tla", "MC_Machine.cfg", what="reference machine vs implementation-shaped evaluator",
                             env={"MAXLEN": 3 if q else 4}, timeout=7200)
        ctx.exhaustive.append("all programs of <= %d commands over an 18-command alphabet: Refinement, NoFalseAccept, "
                              "RunAgrees, SkippedInert (%d distinct states)" % (3 if q else 4, r.distinct))
    # (A) tables
    if ctx.want("tables"):
        shallow, deep = (2, 6) if q else (3, 7)
        jobs = [("ops", {"MODE": "ops"}), ("time", {"MODE": "time"}), ("num", {"MODE": "num"}), ("str", {"MODE": "str"})]
        if not q:
            step = 16384
            for lo in range(-2 ** 17, 2 ** 17, step):
                jobs.append(("num", {"MODE": "numwide", "SWEEPLO": lo, "SWEEPHI": lo + step - 1}))
            for lo in range(0, 256, 8):       # 8 x 256 x 256 strings per job (TLC refuses to build sets above 10^6 elements)
                jobs.append(("str", {"MODE": "strwide", "SWEEPLO": lo, "SWEEPHI": lo + 7}))

        def mk(kind, env):
            e = {"SHALLOW": shallow, "DEEP": deep, "SWEEPLO": 0, "SWEEPHI": 0}
            e.update(env)
            return lambda: (kind, ctx.table("script/C07Tables.tla", "C07Tables.cfg", env=e, timeout=7200))
        for kind, rows in ctx.parallel([mk(k, e) for k, e in jobs]):
            {"ops": replay_ops, "time": replay_time, "num": replay_num, "str": replay_str}[kind](ctx, rows)
        ctx.exhaustive.append("single-opcode table: every implemented non-flow opcode x every stack of depth <= %d over a "
                              "12-element alphabet and depth <= %d over a 4-element alphabet for the deep-stack opcodes; "
                              "timelock grid; number codec sweep" % (shallow, deep))
    # (B) recorded runs
    if ctx.want("runs"):
        nprog = 1500 if q else 30000
        cases = record_runs(ctx, rng, nprog) + num_cases(ctx, rng, 300 if q else 5000)
        byid = {c["id"]: c for c in cases}
        bad = ctx.validate("script/C07Cases.tla", cases, "C07Cases.cfg", timeout=7200)
        for cid, why in bad.items():
            c = byid[cid]
            ctx.violation("%s:%s" % (classify_bad(c), why), "recorded %s rejected by specs/script/Consensus.tla: %s\n%s"
                          % (c["kind"], why, str({k: v for k, v in c.items() if k != "hr"})[:1200]),
                          {"kind": "case", "case": c})
