"""C18 — BIP158 compact filters and BIP37 bloom filters (specs/filters/*).

(C) MC_Filter: the compact-filter object over a toy universe whose hash has collisions: deriving F from the number of
    distinct hash values is refuted (false negative), deriving it from the element count satisfies NoFalseNegative;
    Golomb-Rice and bit-packing laws.
(B) TLC evaluates the transcribed SipHash-2-4 and MurmurHash3 on every message length 0..70 (and long elements) with
    random keys / boundary seeds and compares with the library; GCS encodings of element sets are rebuilt by TLC
    (range mapping, sort, deltas, Golomb-Rice P=19, packing) from the validated hashes; membership of every inserted
    element (incl. sets constructed to contain a range collision); bloom bit positions, bit field and filterload.
"""
import random

from ..core import B, outcome
from .c03 import le


def run(ctx):
    from buidl import compactfilter as CF, helper as H
    from buidl.siphash import SipHash_2_4
    from buidl.bloomfilter import BloomFilter
    from buidl.script import Script
    rng = random.Random(ctx.seed)
    q = ctx.quick
    ctx.rule = ("cases = library hash / encoding / membership calls decided by TLC; distinct = (hash, message length), (set size class), "
                "(bloom size, function count class)")
    ctx.assumptions = ["SipHash-2-4 and MurmurHash3 are transcribed in Filters.tla (not trusted library code); set sizes above 200 elements only in the thorough tier"]
    if ctx.want("mc"):
        r0 = ctx.mc("filters/MC_Filter.tla", "MC_FilterDedup.cfg", workers=2)
        if not r0.invariant:
            raise Exception("vacuity: the dedup policy was expected to violate NoFalseNegative")
        r = ctx.mc_expect_ok("filters/MC_Filter.tla", "MC_FilterCount.cfg", what="compact filter object: no false negatives", workers=2)
        ctx.exhaustive.append("MC_Filter: every non-empty element subset of a 5-element universe with a colliding toy hash; Golomb laws for P in {2,3,5} x 0..600 and P=19 boundaries; packing 0..20 bits")
    if not ctx.want("cases"):
        return
    cases = []

    def rb(n):
        return bytes(rng.randrange(256) for _ in range(n))
    # SipHash: every length 0..70 (+ long elements)
    lens = list(range(0, 71)) + [254, 255, 256, 257, 511, 600]
    if q:
        lens = sorted(set(list(range(0, 18)) + [23, 24, 31, 32, 33, 63, 64, 65, 70, 255, 256, 600]))
    for n in lens:
        key, msg = rb(16), rb(n)
        r = outcome(lambda: SipHash_2_4(key, msg).hash())
        cases.append({"id": "sip%d" % n, "kind": "sip", "key": B(key), "msg": B(msg), "out": B(r[1].to_bytes(8, "little")) if r[0] == "ok" else []})
        ctx.nontriv(("sip", n))
    # incremental update must equal one-shot
    for n in (9, 17, 40):
        key, msg = rb(16), rb(n)
        s = SipHash_2_4(key)
        cut = rng.randrange(n)
        s.update(msg[:cut]); s.update(msg[cut:])
        r = outcome(s.hash)
        cases.append({"id": "sipinc%d" % n, "kind": "sip", "key": B(key), "msg": B(msg), "out": B(r[1].to_bytes(8, "little")) if r[0] == "ok" else []})
    # Murmur3
    seeds = [0, 1, 0x7FFFFFFF, 0x80000000, 0xFFFFFFFF, 0xFBA4C795, 0xFBA4C795 * 2, 0xFBA4C795 * 49 + 0xFFFFFFFF]
    for n in (list(range(0, 71)) if not q else list(range(0, 13)) + [15, 16, 31, 32, 33, 64, 70]):
        seed = rng.choice(seeds) if n > 3 else seeds[n % len(seeds)] if n else 0xFBA4C795 * 3 + 5
        data = rb(n)
        r = outcome(H.murmur3, data, seed)
        cases.append({"id": "mur%d" % n, "kind": "murmur", "data": B(data), "seed4": B((seed % 2 ** 32).to_bytes(4, "little")), "out": B(r[1].to_bytes(4, "little")) if r[0] == "ok" else []})
        ctx.nontriv(("murmur", n % 4, seed >= 2 ** 32))
    for k, seed in enumerate(seeds):
        for n in (0, 1, 2, 3, 5):
            data = rb(n)
            r = outcome(H.murmur3, data, seed)
            cases.append({"id": "murs%d.%d" % (k, n), "kind": "murmur", "data": B(data), "seed4": B((seed % 2 ** 32).to_bytes(4, "little")), "out": B(r[1].to_bytes(4, "little")) if r[0] == "ok" else []})
    # GCS encodings and membership
    sizes = [0, 1, 2, 3, 10, 50] + ([200, 1000] if q else [200, 800, 1000, 2000])   # >= 16384 bits of Golomb codes from about 760 elements
    for i, n in enumerate(sizes):
        key = rb(16)
        items = [rb(rng.choice([0, 1, 20, 22, 25, 34, 67, 255, 256, 600]) if rng.random() < 0.3 else rng.randrange(0, 80)) for _ in range(n)]
        items = list(dict.fromkeys(items))
        n = len(items)
        enc = outcome(CF.encode_gcs, key, items)
        dec = outcome(CF.decode_gcs, key, enc[1]) if enc[0] == "ok" else ("raise", [])
        hashes = [SipHash_2_4(key, it).hash().to_bytes(8, "little") for it in items]
        if n <= 1000:
            cases.append({"id": "g%d" % i, "kind": "gcs", "hashes": [B(h) for h in hashes], "enc": B(enc[1]) if enc[0] == "ok" else [], "dec": list(dec[1]) if dec[0] == "ok" else [-1]})
            for it, h in list(zip(items, hashes))[:6]:
                cases.append({"id": "gs%d.%d" % (i, len(cases)), "kind": "sip", "key": B(key), "msg": B(it), "out": B(h)})
        ctx.nontriv(("gcs", n))
        if enc[0] == "ok" and n > 0:
            cf = outcome(CF.CompactFilter.parse, key, enc[1])
            allp = cf[0] == "ok" and all(outcome(lambda: Script.parse(raw=it) if False else None) is not None and (cf[1].compute_hash(it) in cf[1].hashes) for it in items)
            cases.append({"id": "m%d" % i, "kind": "member", "all_present": bool(allp), "n": n, "collision": False})
    # sets constructed to contain a range collision (two elements mapping to the same value): birthday search with N = 2
    found = 0
    tries = 0
    while found < (2 if q else 6) and tries < 40:
        tries += 1
        key = rb(16)
        seen = {}
        for _ in range(4000):
            it = rb(rng.randrange(1, 30))
            v = CF.hash_to_range(key, it, 2 * CF.GOLOMB_M)
            if v in seen and seen[v] != it:
                items = [seen[v], it]
                enc = CF.encode_gcs(key, items)
                cf = outcome(CF.CompactFilter.parse, key, enc)
                allp = cf[0] == "ok" and all(cf[1].compute_hash(x) in cf[1].hashes for x in items)
                cases.append({"id": "mc%d" % found, "kind": "member", "all_present": bool(allp), "n": 2, "collision": True})
                ctx.nontriv(("member-collision", found))
                found += 1
                break
            seen[v] = it
    # bloom filters
    for i, (size, nf) in enumerate([(1, 1), (2, 3), (10, 5), (30, 50), (36000, 11), (rng.randrange(601, 36000), rng.randrange(1, 51)), (4501, 3)] + ([] if q else [(512, 20), (36000, 50), (7, 2)])):
        tweak = rng.choice([0, 1, 0xFFFFFFFF, 0x045B386B, rng.randrange(2 ** 32)])
        bf = BloomFilter(size, nf, tweak)
        items = [rb(rng.choice([0, 1, 2, 3, 4, 20, 32, 33])) for _ in range(3)]
        for it in items:
            outcome(bf.add, it)
            for k in range(nf):
                seed = k * 0xFBA4C795 + tweak
                pos = H.murmur3(it, seed) % (size * 8)
                if k < 4 or k == nf - 1:
                    cases.append({"id": "bp%d.%d.%d" % (i, len(cases), k), "kind": "bloompos", "data": B(it), "seed4": B((seed % 2 ** 32).to_bytes(4, "little")), "nbits": size * 8,
                                  "pos": pos, "set": pos < len(bf.bit_field) and bf.bit_field[pos] == 1, "len": len(bf.bit_field)})
        if size > 600:      # the large filters: lengths and the filterload header (the bytes themselves are decided for the small ones)
            fb = outcome(bf.filter_bytes)
            pl = outcome(lambda: bf.filterload().payload)
            cases.append({"id": "bh%d" % i, "kind": "bloomhead", "size": size, "nbits": len(bf.bit_field), "nbytes": len(fb[1]) if fb[0] == "ok" else -1,
                          "npayload": len(pl[1]) if pl[0] == "ok" else -1, "head": B(pl[1][:3]) if pl[0] == "ok" else [],
                          "ones": sum(bf.bit_field), "ones_bytes": sum(bin(x).count("1") for x in fb[1]) if fb[0] == "ok" else -1})
        if size <= 600:
            fb = outcome(bf.filter_bytes)
            pl = outcome(lambda: bf.filterload().payload)
            cases.append({"id": "bl%d" % i, "kind": "bloom", "size": size, "nfunc": nf, "tweak4": B(tweak.to_bytes(4, "little")), "flag": 1, "h": [],
                          "pos": [k for k, b in enumerate(bf.bit_field) if b], "field": B(fb[1]) if fb[0] == "ok" else [], "payload": B(pl[1]) if pl[0] == "ok" else []})
        ctx.nontriv(("bloom", size, nf))
    byid = {c["id"]: c for c in cases}
    ctx.sample({k: v for k, v in cases[3].items() if k in ("id", "kind", "msg", "out")})
    bad = ctx.validate("filters/C18Cases.tla", [{k: v for k, v in c.items() if k not in ("n", "collision")} for c in cases], "C18Cases.cfg", timeout=7200, per_shard_min=12)
    for cid, why in bad.items():
        c = byid[cid]
        cls = ("collision" if c.get("collision") else "n=%s" % c.get("n")) if c["kind"] == "member" else (str(len(c["msg"])) if c["kind"] == "sip" and len(c["msg"]) > 70 else "")
        ctx.violation("%s:%s:%s" % (c["kind"], why, cls), "%s case %s: %s" % (c["kind"], cid, why), {"kind": "case", "case": {k: (v if not isinstance(v, list) or len(v) < 300 else "...") for k, v in c.items()}})
