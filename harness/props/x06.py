"""X06 — multiwallet.py as a session of set-up and back-up commands (specs/cli/Setup.tla); specification growth beyond the
listed properties.  One `MultiWallet` object, several commands typed at the menu: toggle_advanced_mode,
create_output_descriptors, validate_address, shamir_split_seed, shamir_recover_seed.

(C) MC_Setup: Shamir commands are reachable only in advanced mode (a program without the guard is refuted); a descriptor is
    printed only with 1 <= m <= n <= 15 and n distinct key records, a repeated record aborts; addresses only with limit >= 1,
    offset >= 0, the change branch only in advanced mode; the right seed comes back only from a quorum of its own shares under
    its own passphrase; an answer a prompt does not accept repeats the prompt and changes nothing; only the toggle changes the
    mode; nothing but the mode survives a command; every outcome is reachable (vacuity guards).
(A) TLC exports the transition table.  For every transition (the quick tier samples the menu transitions, which differ only in
    what the previous command printed) the harness builds the shortest answer script reaching it, concretises it (real key
    records in four notations, a real 2-of-3 descriptor, real share sets with and without passphrase) and types it into one
    unmodified `MultiWallet()`.  The prompts asked must be the model's path; what the last command printed must be the model's
    outcome, decided with independent oracles: the descriptor text and its checksum are rebuilt by the harness, addresses are
    derived from the cosigners' private roots, printed shares must recover the seed (any k, not k-1, not under another
    passphrase), a recovered mnemonic must be the right one.
"""
import builtins
import collections
import contextlib
import hashlib
import io
import itertools
import json
import random
import re

from ..core import outcome, MachineryError
from .x05 import load_cli, ScriptEnd

BASE = "m/48'/1'/0'/2'"
MNW = " ".join(["abandon"] * 11 + ["about"])
MNV = " ".join(["zoo"] * 11 + ["wrong"])
ANSI = re.compile(r"\x1b\[[0-9;]*m")
CMD = {"toggle": "toggle_advanced_mode", "cod": "create_output_descriptors", "va": "validate_address", "split": "shamir_split_seed",
       "recover": "shamir_recover_seed"}
KINDS = [("How many signatures will be required", "cod_m"), ("How many total keys", "cod_n"), ("Enter xpub key record #", "cod_key"),
         ("Sort parent xpubs", "cod_sort"), ("Paste in your p2wsh output descriptors", "va_descr"), ("Limit of addresses", "va_limit"),
         ("Offset of addresses", "va_offset"), ("Display receive addresses", "va_recv"), ("Enter a BIP39 seed phrase", "sp_mn"),
         ("should be required to recover", "sp_k"), ("do you want to generate", "sp_n"), ("Do you want to add a passphrase", "sp_pwq"),
         ("Enter custom passphrase", "pw1"), ("Confirm custom passphrase", "pw2"), ("limit how many of these shares", "sp_limq"),
         ("How many combinations", "sp_lim"), ("Enter a SLIP39 Shamir share", "rc_share"), ("Is there a passphrase", "rc_pwq")]


def norm_pc(pc):
    return pc[3:] if pc.endswith(("pw1", "pw2")) else pc


# ---- descriptor checksum (Bitcoin Core's descsum, written out here: the harness's own oracle)
INPUT_CHARSET = "0123456789()[],'/*abcdefgh@:$%{}IJKLMNOPQRSTUVWXYZ&+-.;<=>?!^_|~ijklmnopqrstuvwxyzABCDEFGH`#\"\\ "
CHECKSUM_CHARSET = "qpzry9x8gf2tvdw0s3jn54khce6mua7l"
GEN = [0xF5DEE51989, 0xA9FDCA3312, 0x1BAB10E32D, 0x3706B1677A, 0x644D626FFD]


def descsum(s):
    def polymod(symbols):
        chk = 1
        for v in symbols:
            top = chk >> 35
            chk = (chk & 0x7FFFFFFFF) << 5 ^ v
            for i in range(5):
                chk ^= GEN[i] if ((top >> i) & 1) else 0
        return chk
    groups, symbols = [], []
    for c in s:
        v = INPUT_CHARSET.find(c)
        if v < 0:
            raise MachineryError("descriptor character outside the charset: %r" % c)
        symbols.append(v & 31)
        groups.append(v >> 5)
        if len(groups) == 3:
            symbols.append(groups[0] * 9 + groups[1] * 3 + groups[2])
            groups = []
    if len(groups) == 1:
        symbols.append(groups[0])
    elif len(groups) == 2:
        symbols.append(groups[0] * 3 + groups[1])
    chk = polymod(symbols + [0] * 8) ^ 1
    return "".join(CHECKSUM_CHARSET[(chk >> (5 * (7 - i))) & 31] for i in range(8))


class World:
    def __init__(self):
        from buidl import hd
        from buidl.shamir import ShareSet
        self.roots = {n: hd.HDPrivateKey.from_seed(hashlib.sha256(b"x06-" + n.encode()).digest(), network="testnet") for n in "ABCD"}
        self.rec, self.norm = {}, {}
        for n, r in self.roots.items():
            xfp = r.fingerprint().hex()
            acct = r.traverse(BASE)
            tpub = acct.xpub()
            path = BASE[1:]
            idx = 0
            if n == "A":
                text = "[%s%s]%s" % (xfp, path, tpub)
            elif n == "B":          # the same thing with the other hardening marker
                path = path.replace("'", "h")
                text = "[%s%s]%s" % (xfp, path, tpub)
            elif n == "C":          # SLIP132 version bytes (Vpub): the descriptor is written with the plain tpub
                text = r.generate_p2wsh_key_record(bip32_path=BASE, use_slip132_version_byte=True)
                if "]Vpub" not in text or not text.startswith("[" + xfp):
                    raise MachineryError("unexpected SLIP132 key record %r" % text[:40])
            else:                   # a full record as a coordinator writes it, account index 1
                idx = 1
                text = "[%s%s]%s/1/*" % (xfp, path, tpub)
            self.rec[n] = text
            path = re.match(r"\[[0-9a-f]{8}(/[^\]]*)\]", text).group(1)      # the origin path is copied the way it was typed
            self.norm[n] = (tpub, "[%s%s]%s/%d/*" % (xfp, path, tpub, idx))
        body = "wsh(sortedmulti(2,%s))" % ",".join(self.norm[n][1] for n in "ABC")
        self.descr = body + "#" + descsum(body)
        self.W = ShareSet.generate_shares(MNW, 2, 3, passphrase=b"")
        self.V = ShareSet.generate_shares(MNV, 2, 3, passphrase=b"pp")[:2]
        self.share = {"w1": self.W[0], "w2": self.W[1], "w3": self.W[2], "v1": self.V[0], "v2": self.V[1], "garbage": "academic acid acrobat"}
        self._addr = {}

    def descriptor(self, m, keys, is_sorted):
        ks = sorted(keys, key=lambda n: self.norm[n][0]) if is_sorted else list(keys)
        body = "wsh(sortedmulti(%d,%s))" % (m, ",".join(self.norm[n][1] for n in ks))
        return body + "#" + descsum(body)

    def address(self, change, i):
        """2-of-3 sortedmulti over A, B, C at branch/index, from the private roots (independent of the descriptor code)"""
        if (change, i) not in self._addr:
            from buidl.script import P2WSHScriptPubKey
            secs = sorted(self.roots[n].traverse("%s/%d/%d" % (BASE, 1 if change else 0, i)).pub.sec() for n in "ABC")
            ws = bytes([0x52]) + b"".join(b"\x21" + s for s in secs) + bytes([0x53, 0xAE])
            self._addr[(change, i)] = P2WSHScriptPubKey(hashlib.sha256(ws).digest()).address("testnet")
        return self._addr[(change, i)]

    def concretise(self, pc, a, rng):
        yn = {"": ["", "  "], "y": ["y", "Y", "yes", " y "], "n": ["n", "No", "N "], "x": ["maybe", "0", "yy"]}
        pad = lambda t: rng.choice([t, " " + t, t + "  "])
        if pc == "menu":
            return a
        if pc in ("cod_m", "cod_n", "va_limit", "va_offset", "sp_k", "sp_n", "sp_lim"):
            return pad({"x": rng.choice(["two", "1.5", "0x2"])}.get(a, a))
        if pc in ("cod_sort", "va_recv", "sp_pwq", "sp_limq", "rc_pwq"):
            return rng.choice(yn[a])
        if pc == "cod_key":
            return pad(self.rec[a]) if a in self.rec else rng.choice(["[deadbeef/48h]tpub0OIl", "tpubfoo", "[zz]" + self.rec["A"][10:]])
        if pc == "va_descr":
            return pad(self.descr) if a == "good" else rng.choice(["wsh(sortedmulti(2,foo))", "hello", self.descr[:-3] + "qqq"])
        if pc == "sp_mn":
            return pad(MNW) if a == "good" else rng.choice(["hello world", MNW + " about"])
        if pc.endswith("pw1"):
            return {"pp": "pp", "other": "qq", "spacey": rng.choice([" pp", "pp "])}[a]
        if pc.endswith("pw2"):
            return {"pp": "pp", "other": "qq"}[a]
        if pc == "rc_share":
            return "" if a == "blank" else pad(self.share[a])
        raise MachineryError("no concretisation for %s/%s" % (pc, a))


def drive(mw, answers):
    """types the answers into one MultiWallet object; the first answer and every answer at the menu is a command"""
    it = iter(answers)
    prompts, texts = [], []

    def ask(prompt=""):
        kind = next((k for (frag, k) in KINDS if frag in prompt), "?" + ANSI.sub("", prompt)[:40])
        prompts.append(kind)
        try:
            return next(it)
        except StopIteration:
            raise ScriptEnd()
    old_input, old_getpass = builtins.input, mw.getpass
    builtins.input, mw.getpass = ask, ask
    end = "returned"
    try:
        app = mw.MultiWallet()
        if app.ADVANCED_MODE:
            raise MachineryError("ADVANCED_MODE is set in the environment")
        for cmd in it:
            prompts.append("menu")
            out = io.StringIO()
            texts.append(out)
            end = "returned"
            try:
                with contextlib.redirect_stdout(out), contextlib.redirect_stderr(io.StringIO()):
                    app.onecmd(CMD[cmd])
            except ScriptEnd:
                end = "pending"
                break
            except MachineryError:
                raise
            except Exception as e:
                end = "raised:" + type(e).__name__
    finally:
        builtins.input, mw.getpass = old_input, old_getpass
    return end, prompts, [ANSI.sub("", t.getvalue()) for t in texts]


MARKERS = ("Your output descriptors are", "recovered mnemonic", "You will need", "Multisig Receive Addresses", "Multisig Change Addresses", "ABORTING")


def judge(world, s, end, text, prompts_last, rng):
    """'' if what the last command printed is the model's outcome `s` (the state after the last answer)"""
    from buidl.shamir import ShareSet
    res = s["res"]
    kind = res["kind"]
    if s["pc"] != "menu":
        if end != "pending":
            return "ends-while-model-still-asks"
        if any(mk in text for mk in MARKERS):
            return "prints-a-result-before-the-dialogue-ends"
        return ""
    if kind == "failed":
        if end == "pending":
            return "does-not-end"
        if "recovered mnemonic" in text or "You will need" in text:
            return "prints-a-result-where-the-model-fails"
        return ""
    if end != "returned":
        return "does-not-return"
    if kind == "toggled":
        return "" if ("ADVANCED mode set" if s["adv"] else "SAFE mode set") in text else "toggle-message-differs"
    if kind == "guarded":
        if "Running in SAFE mode" not in text or any(mk in text for mk in MARKERS):
            return "guard-message-differs"
        return "" if prompts_last == 0 else "guarded-command-asks"
    if kind == "aborted":
        return "" if "ABORTING" in text and "Your output descriptors are" not in text else "abort-differs"
    if kind == "descr":
        lines = [l.strip() for l in text.splitlines() if l.strip().startswith("wsh(sortedmulti(")]
        want = world.descriptor(res["m"], res["keys"], res["sorted"])
        return "" if lines == [want] else "descriptor-differs"
    if kind == "addrs":
        got = re.findall(r"^#(-?\d+): (\S+)\s*$", text, re.M)
        want = [(str(res["offset"] + i), world.address(res["change"], res["offset"] + i)) for i in range(res["limit"])]
        if got != want:
            return "addresses-differ"
        head = "2-of-3 Multisig %s Addresses" % ("Change" if res["change"] else "Receive")
        return "" if head in text else "address-header-differs"
    if kind == "shares":
        pw = {"none": b"", "pp": b"pp", "other": b"qq"}[res["pw"]]
        head = "You will need %d of these %d share phrases%s to recover your seed phrase:" % (res["k"], res["n"], " AND your passphrase" if pw else "")
        if head not in text:
            return "share-header-differs"
        phrases = [p.strip() for p in text.split(head, 1)[1].split("\n\n") if p.strip()]
        if len(phrases) != res["n"] or len(set(phrases)) != res["n"] or any(len(p.split()) != 20 for p in phrases):
            return "share-count-differs"
        subsets = [phrases[:res["k"]], phrases[-res["k"]:], rng.sample(phrases, res["k"])]
        for sub in subsets:
            if outcome(ShareSet.recover_mnemonic, sub, pw) != ("ok", MNW):
                return "printed-shares-do-not-recover"
        if outcome(ShareSet.recover_mnemonic, phrases[:res["k"] - 1], pw)[0] == "ok":
            return "fewer-than-k-printed-shares-recover"
        if outcome(ShareSet.recover_mnemonic, phrases[:res["k"]], pw + b"x") == ("ok", MNW):
            return "printed-shares-ignore-the-passphrase"
        return ""
    if kind == "mnemonic":
        m = re.search(r"Here is your recovered mnemonic:\s*\n\s*\n([a-z ]+)", text)
        if not m:
            return "no-mnemonic-printed"
        got = m.group(1).strip()
        if res["which"] == "W":
            return "" if got == MNW else "wrong-mnemonic"
        if res["which"] == "V":
            return "" if got == MNV else "wrong-mnemonic"
        return "" if got not in (MNW, MNV) and len(got.split()) == 12 else "seed-recovered-under-a-wrong-passphrase"
    if kind == "none":
        return ""
    raise MachineryError("unknown outcome kind %r" % kind)


def run(ctx):
    ctx.level = "model_checking"
    ctx.rule = "a run = one answer script typed into one MultiWallet object; distinct by (transition exercised last, outcome)"
    ctx.trusted += ["Setup.tla as the statement of the dialogues", "answer concretisation (which texts count as yes / no / malformed)",
                    "a stub for pkg_resources (absent from this interpreter; the program uses it only for its version banner)",
                    "ShareSet.recover_mnemonic and P2WSHScriptPubKey.address as oracles for printed shares / addresses (decided by C15 / C09)"]
    q = ctx.quick
    rng = random.Random(ctx.seed)
    if ctx.want("mc"):
        r0 = ctx.mc("cli/MC_Setup.tla", "MC_SetupNoGuard.cfg", workers=2)
        if not r0.invariant:
            raise MachineryError("vacuity: a program without the safe-mode guard was expected to violate ShamirOnlyInAdvancedMode")
        for v in ("Descr", "Unsorted", "Aborted", "ChangeAddrs", "Shares", "RecoveredW", "RecoveredV", "Other", "Guarded"):
            rv = ctx.mc("cli/MC_Setup.tla", "MC_SetupReach%s.cfg" % v, workers=2)
            if not rv.invariant:
                raise MachineryError("vacuity: outcome %s is not reachable in Setup.tla" % v)
        r = ctx.mc_expect_ok("cli/MC_Setup.tla", "MC_Setup.cfg", what="the set-up session", workers=4)
        ctx.exhaustive.append("MC_Setup: every answer sequence over the prompt alphabets, sessions of any number of commands (%d states); "
                              "guard-free variant refuted; 9 outcomes reachable" % r.distinct)
    if not ctx.want("cases"):
        return
    tab = ctx.table("cli/MC_Setup.tla", "MC_Setup.cfg", env={"EXPORT": "1"}, workers=1)
    if isinstance(tab, list):
        tab = tab[0]

    def canon(s):
        s = dict(s)
        s["shares"] = sorted(s["shares"])
        return s
    key = lambda s: json.dumps(canon(s), sort_keys=True)
    nxt = collections.defaultdict(dict)
    for row in tab["table"]:
        nxt[key(row["from"])][row["ans"]] = canon(row["to"])
    s0 = canon(tab["inits"][0])
    path = {key(s0): []}
    dq = collections.deque([s0])
    while dq:
        s = dq.popleft()
        for a, t in sorted(nxt[key(s)].items()):
            if key(t) not in path:
                path[key(t)] = path[key(s)] + [a]
                dq.append(t)
    inner, menu = [], []
    for k, answers in sorted(path.items()):
        for a in sorted(nxt[k]):
            (menu if json.loads(k)["pc"] == "menu" else inner).append(answers + [a])
    n_trans = len(inner) + len(menu)
    # transitions out of the menu differ only in what the previous command printed: the quick tier samples them
    if q:
        rng.shuffle(menu)
        menu = menu[:150]
    scripts = inner + menu
    n_run = len(scripts)
    for _ in range(60 if q else 1500):          # longer sessions: random walks over the table
        s, answers = s0, []
        for _ in range(rng.randrange(4, 40)):
            opts = sorted(nxt[key(s)])
            if not opts:
                break
            a = rng.choice(opts)
            answers.append(a)
            s = nxt[key(s)][a]
        scripts.append(answers)
    mw = load_cli()
    world = World()
    ctx.exhaustive.append("transitions of the exported table exercised on the real program by a shortest script: %d of %d" % (n_run, n_trans))
    for answers in scripts:
        s, pcs, concrete = s0, [], []
        for a in answers:
            pcs.append(norm_pc(s["pc"]))
            concrete.append(world.concretise(s["pc"], a, rng))
            s = nxt[key(s)][a]
        if s["pc"] != "menu":
            pcs.append(norm_pc(s["pc"]))
        got = outcome(drive, mw, concrete)
        ctx.traces += 1
        if got[0] != "ok":
            ctx.violation("setup:driver-raises:%s" % got[1], "script %s: %s" % (answers, got[1]), {"kind": "setup", "answers": answers})
            continue
        end, prompts, texts = got[1]
        ctx.nontriv((s["pc"], s["res"]["kind"], s["adv"]))
        last_cmd_at = max(i for i, p in enumerate(prompts) if p == "menu") if "menu" in prompts else 0
        why = ""
        if prompts != pcs:
            why = "prompts-differ"
        else:
            why = judge(world, s, end, texts[-1] if texts else "", len(prompts) - 1 - last_cmd_at, rng)
        if why:
            tag = "%s/%s" % (s["pc"] if s["pc"] != "menu" else "end", s["res"]["kind"])
            ctx.violation("setup:%s:%s" % (why, tag), "answers %s: %s; prompts asked %s, model path %s; end %s, model outcome %s; output tail %r"
                          % (answers, why, prompts[-12:], pcs[-12:], end, s["res"], (texts[-1] if texts else "")[-300:]),
                          {"kind": "setup", "answers": answers, "concrete": concrete})
    ctx.sample({"script": scripts[len(scripts) // 2]})
