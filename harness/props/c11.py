"""C11 — PSBT review summary (specs/psbt/Review.tla, C11Cases.tla).

(C) Review: the adversary applies up to two tamperings of the catalogue to an honest multisig PSBT; the change-detection
    procedure, written check by check like PSBTOut.validate + _describe_basic_multisig_outputs, must label change only what
    RealChange allows.  The two checks the unrepaired library lacked (bare redeem script tied to the scriptPubKey; one key
    per declared cosigner) are parameters: without them TLC produces the fake-change counterexamples, with them it holds.
(A) every tampering is applied to real P2SH and P2WSH m-of-n PSBTs (HD keys, global xpubs, re-parsed from bytes as well) and
    run through describe_basic_multisig; TLC evaluates RealChange on the abstract counterpart and the numeric identities.
"""
import contextlib
import io
import random

from ..core import B, outcome
from .c03 import le


def build(kind, m, n, rng, nin=2, global_xpubs=True, onecos_input=False):
    from buidl import hd
    from buidl.psbt import PSBT, NamedHDPublicKey
    from buidl.tx import Tx, TxIn, TxOut
    from buidl.script import P2SHScriptPubKey, P2WSHScriptPubKey, P2WPKHScriptPubKey, RedeemScript, WitnessScript

    def rb(k):
        return bytes(rng.randrange(256) for _ in range(k))
    roots = [hd.HDPrivateKey.from_seed(rb(32), network="testnet") for _ in range(n)]
    atk = hd.HDPrivateKey.from_seed(rb(32), network="testnet")
    base = "m/45'/1'/0'"
    W = {"kind": kind, "m": m, "n": n, "roots": roots, "atk": atk, "base": base}
    W["hdmap"] = {r.fingerprint().hex(): r.traverse(base).pub for r in roots}
    W["hd_pubs"] = {}
    for r in roots:
        nh = NamedHDPublicKey.from_hd_priv(r, base)
        W["hd_pubs"][nh.raw_serialize()] = nh
    tx_lookup, pubkey_lookup, redeem_lookup, witness_lookup = {}, {}, {}, {}

    def script_for(named_list, mm):
        secs = sorted(x.sec() for x in named_list)
        cmds = [0x50 + mm] + secs + [0x50 + len(secs), 174]
        if kind == "p2sh":
            rs = RedeemScript(cmds)
            redeem_lookup[rs.hash160()] = rs
            return rs, P2SHScriptPubKey(rs.hash160())
        ws = WitnessScript(cmds)
        witness_lookup[ws.sha256()] = ws
        return ws, P2WSHScriptPubKey(ws.sha256())

    def named(root, path):
        nm = NamedHDPublicKey.from_hd_priv(root, path)
        pubkey_lookup[nm.sec()] = nm
        return nm
    W.update({"named": named, "script_for": script_for, "pubkey_lookup": pubkey_lookup, "redeem_lookup": redeem_lookup, "witness_lookup": witness_lookup, "tx_lookup": tx_lookup})
    prev_outs = []
    for j in range(nin):
        if onecos_input and j == 0:
            # a real coin whose script holds n child keys of ONE cosigner (correctly committed, correctly derived): as an input it is
            # whoever's coin it is; as the destination of an output it is not this wallet's change
            _, spk = script_for([named(roots[0], "%s/0/%d" % (base, 50 + k_)) for k_ in range(n)], m)
            W["onecos_spk"] = spk
        else:
            _, spk = script_for([named(r, "%s/0/%d" % (base, j)) for r in roots], m)
        prev_outs.append(TxOut(rng.choice([60000, 2 ** 33 + 7, 123456]) + j, spk))
    prev = Tx(1, [TxIn(rb(32), 0)], prev_outs, 0, network="testnet")
    tx_lookup[prev.hash()] = prev
    W["prev"] = prev
    chg_script, chg_spk = script_for([named(r, "%s/1/4" % base) for r in roots], m)
    total = sum(o.amount for o in prev_outs)
    spend_amt, chg_amt = total // 3, total // 2
    W["amounts_in"] = [o.amount for o in prev_outs]
    tx = Tx(1, [TxIn(prev.hash(), j) for j in range(nin)], [TxOut(spend_amt, P2WPKHScriptPubKey(rb(20))), TxOut(chg_amt, chg_spk)], 0, network="testnet")
    W["psbt"] = PSBT.create(tx, tx_lookup=tx_lookup, pubkey_lookup=pubkey_lookup, redeem_lookup=redeem_lookup, witness_lookup=witness_lookup, hd_pubs=W["hd_pubs"] if global_xpubs else {})      # without the global xpub section only the reviewer's own key map can vouch for derivations
    return W


def abstract_honest(n, m):
    keys = [[c, "chg"] for c in range(1, n + 1)]
    return [{"spk": {"m": 1, "keys": [[0, "atk"]]}, "named": []},
            {"spk": {"m": m, "keys": keys}, "named": [{"key": [c, "chg"], "xfp": c, "path": "chg"} for c in range(1, n + 1)]}]


def apply_tamper(W, name, rng):
    """mutates W['psbt'] in place; returns (abstract outs, inputs_consistent)"""
    from buidl.tx import TxOut
    from buidl.psbt import PSBTOut, NamedHDPublicKey
    ps = W["psbt"]
    n, m, base, roots, atk = W["n"], W["m"], W["base"], W["roots"], W["atk"]
    outs = abstract_honest(n, m)
    ok_inputs = True
    po = ps.psbt_outs[1]

    def set_script(po_, sc):
        if W["kind"] == "p2sh":
            po_.redeem_script = sc
        else:
            po_.witness_script = sc
    if name == "none":
        pass
    elif name == "swap-spk":
        atk_named = [W["named"](atk, "m/0/0")] + [W["named"](r, "%s/1/4" % base) for r in roots[1:]]
        _, spk = W["script_for"](atk_named, m)
        po.tx_out.script_pubkey = spk
        ps.tx_obj.tx_outs[1].script_pubkey = spk
        outs[1]["spk"] = {"m": m, "keys": [[0, "atk"]] + [[c, "chg"] for c in range(2, n + 1)]}
    elif name.startswith("swap-spk-"):
        # the change output's scriptPubKey is replaced by an attacker's script of ANOTHER type; all change metadata is kept
        from buidl.script import P2PKHScriptPubKey, P2WPKHScriptPubKey, P2SHScriptPubKey, P2WSHScriptPubKey, P2TRScriptPubKey
        h20 = atk.hash160()
        typ = name[len("swap-spk-"):]
        spk = {"p2pkh": lambda: P2PKHScriptPubKey(h20), "p2wpkh": lambda: P2WPKHScriptPubKey(h20),
               "p2sh": lambda: P2SHScriptPubKey(bytes(rng.randrange(256) for _ in range(20))),
               "p2wsh": lambda: P2WSHScriptPubKey(bytes(rng.randrange(256) for _ in range(32))),
               "p2tr": lambda: P2TRScriptPubKey(atk.private_key.point)}[typ]()
        po.tx_out.script_pubkey = spk
        ps.tx_obj.tx_outs[1].script_pubkey = spk
        outs[1]["spk"] = {"m": 1, "keys": [[0, "atk"]]}
    elif name in ("foreign-script", "foreign-script-named"):
        atk_nm = W["named"](atk, "m/0/0")
        sc, spk = W["script_for"]([atk_nm] + [W["named"](r, "%s/1/4" % base) for r in roots[1:]], m)
        set_script(po, sc)
        po.tx_out.script_pubkey = spk
        ps.tx_obj.tx_outs[1].script_pubkey = spk
        outs[1]["spk"] = {"m": m, "keys": [[0, "atk"]] + [[c, "chg"] for c in range(2, n + 1)]}
        if name == "foreign-script-named":
            first_sec = W["named"](roots[0], "%s/1/4" % base).sec()
            po.named_pubs.pop(first_sec, None)
            fake = W["named"](atk, "m/0/0").point
            fake.replace_xfp(roots[0].fingerprint().hex())
            po.named_pubs[fake.sec()] = fake
            outs[1]["named"][0] = {"key": [0, "atk"], "xfp": 1, "path": "chg"}
    elif name == "one-cosigner":
        nms = [W["named"](roots[0], "%s/1/%d" % (base, 4 + k)) for k in range(n)]
        sc, spk = W["script_for"](nms, m)
        set_script(po, sc)
        po.tx_out.script_pubkey = spk
        ps.tx_obj.tx_outs[1].script_pubkey = spk
        po.named_pubs = {x.sec(): x.point for x in nms}
        tags = ["chg", "alt", "alt2", "alt3", "alt4"]
        outs[1] = {"spk": {"m": m, "keys": [[1, tags[k]] for k in range(n)]}, "named": [{"key": [1, tags[k]], "xfp": 1, "path": tags[k]} for k in range(n)]}
    elif name == "two-from-one-cosigner":
        # cosigner 1 holds two slots, the last cosigner none: the distinct cosigners still number n - 1 (>= m for m < n)
        nms = [W["named"](roots[0], "%s/1/4" % base), W["named"](roots[0], "%s/1/5" % base)] + [W["named"](r, "%s/1/4" % base) for r in roots[1:n - 1]]
        sc, spk = W["script_for"](nms, m)
        set_script(po, sc)
        po.tx_out.script_pubkey = spk
        ps.tx_obj.tx_outs[1].script_pubkey = spk
        po.named_pubs = {x.sec(): x.point for x in nms}
        keys = [[1, "chg"], [1, "alt"]] + [[c, "chg"] for c in range(2, n)]
        outs[1] = {"spk": {"m": m, "keys": keys}, "named": [{"key": k_, "xfp": k_[0], "path": k_[1]} for k_ in keys]}
    elif name == "wrong-path":
        sec0 = W["named"](roots[0], "%s/1/4" % base).sec()
        np_ = po.named_pubs[sec0]
        from buidl.psbt import serialize_binary_path
        np_.add_raw_path_data(roots[0].fingerprint() + serialize_binary_path("%s/1/5" % base), network="testnet")
        outs[1]["named"][0] = {"key": [1, "chg"], "xfp": 1, "path": "alt"}
    elif name == "foreign-xfp":
        sec0 = W["named"](roots[0], "%s/1/4" % base).sec()
        po.named_pubs[sec0].replace_xfp(atk.fingerprint().hex())
        outs[1]["named"][0] = {"key": [1, "chg"], "xfp": 0, "path": "chg"}
    elif name == "change-quorum-up":
        # the wallet's own keys under a HIGHER quorum than the inputs': not this wallet's change either
        if m + 1 > n:
            return None
        nms = [W["named"](r, "%s/1/4" % base) for r in roots]
        sc, spk = W["script_for"](nms, m + 1)
        set_script(po, sc)
        po.tx_out.script_pubkey = spk
        ps.tx_obj.tx_outs[1].script_pubkey = spk
        outs[1]["spk"]["m"] = m + 1
    elif name in ("backdoor-script", "nslot-script"):
        # the wallet's own change keys with honest derivations, a scriptPubKey that commits to the attached script - but the script
        # is not the multisig template: a foreign key can spend it (OP_m OP_DROP <atk> OP_CHECKSIGVERIFY OP_0 OP_0 <keys> OP_n
        # OP_CHECKMULTISIG), or the OP_n position carries another number
        from buidl.script import P2SHScriptPubKey, P2WSHScriptPubKey, RedeemScript, WitnessScript
        secs = sorted(W["named"](r, "%s/1/4" % base).sec() for r in roots)
        if name == "backdoor-script":
            cmds = [0x50 + m, 0x75, atk.traverse("m/0/0").pub.sec(), 0xAD, 0, 0] + secs + [0x50 + n, 174]
        else:
            cmds = [0x50 + m] + secs + [0x50 + (n - 1 if n > 1 else n + 1), 174]
        if W["kind"] == "p2sh":
            sc = RedeemScript(cmds)
            spk = P2SHScriptPubKey(sc.hash160())
        else:
            sc = WitnessScript(cmds)
            spk = P2WSHScriptPubKey(sc.sha256())
        set_script(po, sc)
        po.tx_out.script_pubkey = spk
        ps.tx_obj.tx_outs[1].script_pubkey = spk
        outs[1]["spk"]["shape"] = name.split("-")[0]
    elif name == "only-pay-back-to-one-cosigner-input":
        # the same, in place of the honest change output (so that it is the only candidate for the change label)
        to = TxOut(ps.tx_obj.tx_outs[1].amount, W["onecos_spk"])
        ps.tx_obj.tx_outs[1] = to
        ps.psbt_outs[1] = PSBTOut(to)
        tags = ["chg", "alt", "alt2", "alt3", "alt4"]
        outs[1] = {"spk": {"m": m, "keys": [[1, tags[k]] for k in range(n)]}, "named": []}
    elif name == "pay-back-to-one-cosigner-input":
        # an output without any metadata pays to the script of an input that holds n keys of one cosigner
        to = TxOut(1500, W["onecos_spk"])
        ps.tx_obj.tx_outs[1].amount -= 1500
        ps.tx_obj.tx_outs.append(to)
        ps.psbt_outs.append(PSBTOut(to))
        tags = ["chg", "alt", "alt2", "alt3", "alt4"]
        outs.append({"spk": {"m": m, "keys": [[1, tags[k]] for k in range(n)]}, "named": []})
    elif name == "two-spends-one-address":
        # an honest batch that pays the same outside address twice: the sums must still hold
        dup = TxOut(ps.tx_obj.tx_outs[0].amount + 777, ps.tx_obj.tx_outs[0].script_pubkey)
        ps.tx_obj.tx_outs[1].amount -= dup.amount                     # keep the fee positive
        ps.tx_obj.tx_outs.append(dup)
        ps.psbt_outs.append(PSBTOut(dup))
        outs.append({"spk": {"m": 1, "keys": [[0, "atk"]]}, "named": []})
    elif name == "change-quorum":
        nms = [W["named"](r, "%s/1/4" % base) for r in roots]
        sc, spk = W["script_for"](nms, m - 1)
        set_script(po, sc)
        po.tx_out.script_pubkey = spk
        ps.tx_obj.tx_outs[1].script_pubkey = spk
        outs[1]["spk"]["m"] = m - 1
    elif name in ("second-change", "second-change-first", "second-change-middle"):
        # a second real change output, after / before / between the honest outputs (if it is summarised at all, the sums must hold)
        nms = [W["named"](r, "%s/1/9" % base) for r in roots]
        sc, spk = W["script_for"](nms, m)
        to = TxOut(1000, spk)
        at = {"second-change": len(ps.tx_obj.tx_outs), "second-change-first": 0, "second-change-middle": 1}[name]
        ps.tx_obj.tx_outs.insert(at, to)
        po2 = PSBTOut(to)
        set_script(po2, sc)
        po2.named_pubs = {x.sec(): x.point for x in nms}
        ps.psbt_outs.insert(at, po2)
        outs.insert(at, {"spk": {"m": m, "keys": [[c, "chg"] for c in range(1, n + 1)]}, "named": [{"key": [c, "chg"], "xfp": c, "path": "chg"} for c in range(1, n + 1)]})
        if name == "second-change-first":
            # also put the honest change in front of the spend: [change2, change, spend]
            ps.tx_obj.tx_outs[1], ps.tx_obj.tx_outs[2] = ps.tx_obj.tx_outs[2], ps.tx_obj.tx_outs[1]
            ps.psbt_outs[1], ps.psbt_outs[2] = ps.psbt_outs[2], ps.psbt_outs[1]
            outs[1], outs[2] = outs[2], outs[1]
    elif name == "spend-as-change":
        # the spend output is dressed up with the honest change metadata
        p0 = ps.psbt_outs[0]
        set_script(p0, po.redeem_script if W["kind"] == "p2sh" else po.witness_script)
        p0.named_pubs = dict(po.named_pubs)
        outs[0]["named"] = [{"key": [c, "chg"], "xfp": c, "path": "chg"} for c in range(1, n + 1)]
    elif name == "input-foreign-script":
        nms = [W["named"](atk, "m/0/1")] + [W["named"](r, "%s/0/0" % base) for r in roots[1:]]
        sc, _ = W["script_for"](nms, m)
        if W["kind"] == "p2sh":
            ps.psbt_ins[0].redeem_script = sc
        else:
            ps.psbt_ins[0].witness_script = sc
        ok_inputs = False
    elif name == "input-wrong-derivation":
        pi = ps.psbt_ins[0]
        sec0 = sorted(pi.named_pubs)[0]
        from buidl.psbt import serialize_binary_path
        pi.named_pubs[sec0].add_raw_path_data(pi.named_pubs[sec0].root_fingerprint + serialize_binary_path("%s/0/7" % base), network="testnet")
        ok_inputs = False
    elif name == "input-derivation-path-of-another-input":
        # a later input states, for one of its keys, the path that an earlier input legitimately used for the same cosigner
        pi = ps.psbt_ins[1]
        from buidl.psbt import serialize_binary_path
        target = None
        for sec_, np_ in sorted(pi.named_pubs.items()):
            if np_.root_fingerprint == roots[0].fingerprint():
                target = np_
        if target is None:
            return None
        target.add_raw_path_data(roots[0].fingerprint() + serialize_binary_path("%s/0/0" % base), network="testnet")
        ok_inputs = False
    elif name == "input-stray-witness-script":
        # a legacy P2SH input that additionally carries a (foreign, 1-of-n) witness-script record: nothing authenticates it
        if W["kind"] != "p2sh":
            return None
        from buidl.script import WitnessScript
        secs = sorted(W["named"](atk, "m/0/%d" % k_).sec() for k_ in range(n))
        # same quorum as the wallet (so that nothing else about the PSBT looks off), on the first input only
        ps.psbt_ins[0].witness_script = WitnessScript([0x50 + m] + secs + [0x50 + n, 174])
        ok_inputs = False
    elif name == "input-foreign-xfp":
        pi = ps.psbt_ins[0]
        sec0 = sorted(pi.named_pubs)[0]
        pi.named_pubs[sec0].replace_xfp(atk.fingerprint().hex())
        ok_inputs = False
    elif name == "input-altered-prev-tx":
        pi = ps.psbt_ins[0]
        if pi.prev_tx is not None:
            pi.prev_tx.tx_outs[pi.tx_in.prev_index].amount += 1000
            pi.tx_in._value = pi.prev_tx.tx_outs[pi.tx_in.prev_index].amount
            ok_inputs = False
        else:
            return None
    elif name == "input-quorum-mismatch":
        # second input comes from a different quorum (m-1 of n)
        nms = [W["named"](r, "%s/0/1" % base) for r in roots]
        sc, _ = W["script_for"](nms, m - 1)
        if W["kind"] == "p2sh":
            ps.psbt_ins[1].redeem_script = sc
        else:
            ps.psbt_ins[1].witness_script = sc
        ok_inputs = False
    return outs, ok_inputs


TAMPERS = ["none", "pay-back-to-one-cosigner-input", "only-pay-back-to-one-cosigner-input", "backdoor-script", "nslot-script", "change-quorum-up", "two-spends-one-address", "input-stray-witness-script", "two-from-one-cosigner", "input-derivation-path-of-another-input", "swap-spk", "swap-spk-p2pkh", "swap-spk-p2wpkh", "swap-spk-p2sh", "swap-spk-p2wsh", "swap-spk-p2tr", "second-change-first", "second-change-middle", "foreign-script", "foreign-script-named", "one-cosigner", "wrong-path", "foreign-xfp", "change-quorum", "second-change",
           "spend-as-change", "input-foreign-script", "input-wrong-derivation", "input-foreign-xfp", "input-altered-prev-tx", "input-quorum-mismatch"]


def one_job(args):
    from ..core import setup_repo_import
    setup_repo_import()
    from buidl.psbt import PSBT
    wi, kind, m, n, tname, seed = args
    global_xpubs = not kind.endswith("-noxpubs")
    kind = kind.replace("-noxpubs", "")
    rng = random.Random(seed + 7)
    cases = []
    for mode in ("object", "reparsed"):
        W = build(kind, m, n, random.Random(seed + wi), global_xpubs=global_xpubs, onecos_input=tname.endswith("pay-back-to-one-cosigner-input"))
        t = outcome(apply_tamper, W, tname, rng)
        if t[0] != "ok" or t[1] is None:
            continue
        outs_abs, ok_inputs = t[1]
        for o_ in outs_abs:
            o_["spk"].setdefault("shape", "plain")
        ps = W["psbt"]
        res = ("raise", "")
        if mode == "reparsed":
            raw = outcome(ps.serialize)
            rp = outcome(PSBT.parse, io.BytesIO(raw[1]), "testnet") if raw[0] == "ok" else ("raise", None)
            ps = rp[1] if rp[0] == "ok" else None
        if ps is not None:
            with contextlib.redirect_stdout(io.StringIO()):
                res = outcome(ps.describe_basic_multisig, W["hdmap"])
        c = {"id": "w%d.%s.%s" % (wi, tname, mode), "tamper": tname, "n": n, "m": m, "outs": outs_abs, "inputs_consistent": ok_inputs, "kind_": kind + ("" if global_xpubs else "-noxpubs")}
        if res[0] == "ok":
            d = res[1]
            c.update({"res": "summary", "is_change": [bool(o["is_change"]) for o in d["outputs_desc"]], "fee": le(d["tx_fee_sats"]) if d["tx_fee_sats"] >= 0 else [255] * 9,
                      "out_amounts": [le(o.amount) for o in ps.tx_obj.tx_outs], "in_amounts": [le(a) for a in W["amounts_in"]] if tname != "input-altered-prev-tx" else [le(i.tx_in._value) for i in ps.psbt_ins],
                      "spend": le(d["spend_sats"]), "change": le(d["change_sats"]), "total_in": le(d["total_input_sats"])})
            if len(c["is_change"]) != len(outs_abs):
                c["is_change"] = (c["is_change"] + [False] * len(outs_abs))[:len(outs_abs)]
        else:
            c.update({"res": "reject", "is_change": [], "fee": [], "out_amounts": [], "in_amounts": [], "spend": [], "change": [], "total_in": []})
        cases.append(c)
    return cases


def run(ctx):
    from buidl.psbt import PSBT
    rng = random.Random(ctx.seed)
    q = ctx.quick
    ctx.rule = ("cases = tampered real multisig PSBTs run through describe_basic_multisig (object and re-parsed bytes), decided by TLC with RealChange; "
                "distinct = (script kind, m-of-n, tampering, outcome)")
    ctx.assumptions = ["a witness-UTXO amount cannot contradict anything inside an unsigned PSBT: amount tampering is applied where the PSBT can show it (non-witness UTXO)",
                       "which key sits where in a tampered PSBT is known to the harness by construction"]
    if ctx.want("mc"):
        for kind in ("p2sh", "p2wsh"):
            for (nn, mm) in ([(3, 2)] if q else [(2, 1), (2, 2), (3, 2), (4, 3)]):
                def cfg(rh, dc, tpl="TRUE"):
                    path = "%s/rev_%s_%d%d_%s%s%s.cfg" % (ctx.tmp, kind, nn, mm, rh, dc.strip('"'), tpl)
                    with open(path, "w") as f:
                        f.write("SPECIFICATION Spec\nCONSTANTS\n  N = %d\n  M = %d\n  Kind = \"%s\"\n  CheckRedeemHash = %s\n  CheckTemplate = %s\n  CheckDistinctCosigners = %s\nINVARIANT ChangeIsReal\nINVARIANT InconsistentRejected\nINVARIANT HonestSummarised\n" % (nn, mm, kind, rh, tpl, dc))
                    return path
                r0 = ctx.mc("psbt/Review.tla", cfg("FALSE" if kind == "p2sh" else "TRUE", '"none"'), workers=2)
                if not r0.invariant:
                    raise Exception("vacuity: the unrepaired change-detection policy was expected to violate ChangeIsReal")
                if nn >= 3 and mm < nn:
                    r1 = ctx.mc("psbt/Review.tla", cfg("TRUE", '"quorum"'), workers=2)
                    if not r1.invariant:
                        raise Exception("vacuity: 'at least M distinct cosigners' was expected to violate ChangeIsReal (a cosigner holding two slots)")
                r2 = ctx.mc("psbt/Review.tla", cfg("TRUE", '"all"', "FALSE"), workers=2)
                if not r2.invariant:
                    raise Exception("vacuity: a get_quorum that reads m and n off the ends of any script was expected to violate ChangeIsReal")
                ctx.mc_expect_ok("psbt/Review.tla", cfg("TRUE", '"all"'), what="change detection vs RealChange", workers=2)
        ctx.exhaustive.append("Review: every PSBT reachable by <= 2 tamperings of the 10-entry catalogue, P2SH and P2WSH; unrepaired policy refuted, repaired policy satisfies ChangeIsReal")
    if not ctx.want("cases"):
        return
    wallets = [("p2sh", 2, 3), ("p2wsh", 2, 3), ("p2wsh-noxpubs", 2, 3)] + ([] if q else [("p2sh-noxpubs", 2, 3), ("p2wsh-noxpubs", 1, 2)]) + ([] if q else [("p2sh", 1, 2), ("p2wsh", 3, 4), ("p2sh", 2, 2), ("p2wsh", 1, 1), ("p2sh", 3, 3)])
    jobs = []
    for wi, (kind, m, n) in enumerate(wallets):
        for tname in TAMPERS:
            if tname in ("change-quorum", "input-quorum-mismatch") and m < 2:
                continue
            if tname == "one-cosigner" and n < 2:
                continue
            if tname == "two-from-one-cosigner" and n < 3:
                continue
            jobs.append((wi, kind, m, n, tname, ctx.seed))
    cases = []
    from concurrent.futures import ProcessPoolExecutor
    from ..core import NCPU
    from ..core import pool_map
    for res in pool_map(ctx, one_job, jobs):
        cases += res
    for c in cases:
        ctx.nontriv((c["kind_"], c["m"], c["n"], c["tamper"], c["id"].split(".")[-1], c["res"]))
    byid = {c["id"]: c for c in cases}
    ctx.sample({k: v for k, v in cases[0].items() if k in ("id", "tamper", "res", "is_change")})
    ctx.sample({"tamperings": TAMPERS})
    bad = ctx.validate("psbt/C11Cases.tla", [{k: v for k, v in c.items() if k != "kind_"} for c in cases], "C11Cases.cfg", timeout=7200, per_shard_min=6)
    for cid, why in bad.items():
        c = byid[cid]
        ctx.violation("%s:%s" % (why, c["kind_"]), "case %s (%s %d-of-%d): %s" % (cid, c["kind_"], c["m"], c["n"], why), {"kind": "case", "case": c})
