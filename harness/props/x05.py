"""X05 — multiwallet.py `sign_transaction` as a dialogue machine (specs/cli/Signer.tla); specification growth beyond the
listed properties: the command-line signer is what a user of this repository actually runs.

(C) MC_Signer: no signature without the review summary shown and the confirmation answered yes; the seed is not asked for
    before that; a PSBT the review refuses is never offered for signing; only a cosigner's seed (with the right passphrase)
    signs; declining is final; an answer a prompt does not accept repeats the prompt and changes nothing; a program without
    the confirmation prompt is refuted, and every terminal outcome is reachable (vacuity guards).
(A) TLC exports the machine's transition table (every reachable state x every answer class of its prompt).  For every
    transition the harness builds the shortest answer script that reaches it, concretises the answers (real PSBTs with and
    without the xpub section, honest or with an input of another quorum; real BIP39 seeds; passphrases) and feeds them to the
    unmodified `MultiWallet().onecmd("sign_transaction")` through a scripted `input` / `getpass`.  The prompts asked, in
    order, must be the control states of the model's path; the end (still asking / returned / raised) and what was printed
    (summary, detailed view, network, "NOT signed", the signed PSBT) must be the model's outcome, and a printed PSBT must carry
    exactly the expected cosigner's signatures on every input and complete to a valid transaction.  Random longer scripts
    are checked the same way.
"""
import builtins
import collections
import contextlib
import io
import json
import random
import sys
import types

from ..core import outcome, REPO, MachineryError

MN1 = " ".join(["abandon"] * 23 + ["art"])
MN2 = " ".join(["zoo"] * 23 + ["vote"])
MN3 = " ".join(("legal winner thank year wave sausage worth useful " * 3).split()[:23] + ["title"])
BASE = "m/48'/1'/0'/2'"
KINDS = [("Paste partially signed", "psbt"), ("Display as", "net"), ("Use Mainnet?", "net"), ("output descriptors", "descr"),
         ("In Depth", "depth"), ("Sign this transaction?", "confirm"), ("full BIP39 seed", "seed"), ("Use a passphrase", "pwq"),
         ("Enter custom passphrase", "pw1"), ("Confirm custom passphrase", "pw2")]


def load_cli():
    if "pkg_resources" not in sys.modules:
        try:
            import pkg_resources  # noqa: F401
        except ImportError:       # only used by the program for its version banner
            m = types.ModuleType("pkg_resources")
            m.DistributionNotFound = type("DistributionNotFound", (Exception,), {})

            def get_distribution(name):
                raise m.DistributionNotFound()
            m.get_distribution = get_distribution
            sys.modules["pkg_resources"] = m
    if REPO not in sys.path:
        sys.path.insert(0, REPO)
    import multiwallet
    if not multiwallet.__file__.startswith(REPO):
        raise MachineryError("multiwallet imported from %s" % multiwallet.__file__)
    return multiwallet


class World:
    def __init__(self):
        from buidl import hd
        from buidl.descriptor import P2WSHSortedMulti
        from buidl.psbt import PSBT, NamedHDPublicKey
        from buidl.tx import Tx, TxIn, TxOut
        from buidl.script import WitnessScript, P2WPKHScriptPubKey, P2WSHScriptPubKey, address_to_script_pubkey
        self.roots = [hd.HDPrivateKey.from_mnemonic(MN1, network="testnet"), hd.HDPrivateKey.from_mnemonic(MN2, password=b"pp", network="testnet"),
                      hd.HDPrivateKey.from_mnemonic(MN3 .replace("title", "title"), password=b"third", network="testnet")]
        recs = [{"xfp": r.fingerprint().hex(), "path": BASE, "xpub_parent": r.traverse(BASE).xpub(), "account_index": 0} for r in self.roots]
        self.desc = P2WSHSortedMulti(2, recs)
        self.b64 = {}
        for xpubs in (True, False):
            for tampered in (True, False):
                pubkey_lookup, witness_lookup, tx_lookup = {}, {}, {}

                def own(br, ix, m=2):
                    named = [NamedHDPublicKey.from_hd_priv(r, "%s/%d/%d" % (BASE, br, ix)) for r in self.roots]
                    for nm in named:
                        pubkey_lookup[nm.sec()] = nm
                    ws = WitnessScript([0x50 + m] + sorted(nm.sec() for nm in named) + [0x53, 174])
                    witness_lookup[ws.sha256()] = ws
                    return ws
                outs_prev = [TxOut(60000, address_to_script_pubkey(self.desc.get_address(0)))]
                own(0, 0)
                if tampered:      # the second coin is locked 1-of-3 over the same keys: another quorum
                    outs_prev.append(TxOut(60001, P2WSHScriptPubKey(own(0, 1, m=1).sha256())))
                else:
                    outs_prev.append(TxOut(60001, address_to_script_pubkey(self.desc.get_address(1))))
                    own(0, 1)
                prev = Tx(1, [TxIn(bytes(range(32)), 0)], outs_prev, 0, network="testnet")
                tx_lookup[prev.hash()] = prev
                touts = [TxOut(40000, P2WPKHScriptPubKey(bytes(range(20)))), TxOut(70000, address_to_script_pubkey(self.desc.get_address(0, is_change=True)))]
                own(1, 0)
                tx = Tx(2, [TxIn(prev.hash(), 0), TxIn(prev.hash(), 1)], touts, 0, network="testnet", segwit=True)
                hd_pubs = {}
                if xpubs:
                    for r in self.roots:
                        nh = NamedHDPublicKey.from_hd_priv(r, BASE)
                        hd_pubs[nh.raw_serialize()] = nh
                ps = PSBT.create(tx, True, tx_lookup, pubkey_lookup, {}, witness_lookup, hd_pubs)
                self.b64[(xpubs, tampered)] = ps.serialize_base64()
        self.spend_addr = {"testnet": touts[0].script_pubkey.address("testnet"), "mainnet": touts[0].script_pubkey.address("mainnet")}

    def concretise(self, pc, a, sc, rng):
        yn = {"": ["", "  "], "y": ["y", "Y", "yes", " y "], "n": ["n", "No", "N "], "x": ["maybe", "0", "yy"]}
        if pc == "psbt":
            return {"empty": rng.choice(["", "   "]), "garbage": rng.choice(["not a psbt", "cHNidP8BAHEC", self.b64[sc][:-8]]), "good": self.b64[sc]}[a]
        if pc in ("net", "depth", "confirm", "pwq"):
            return rng.choice(yn[a])
        if pc == "descr":
            return {"garbage": rng.choice(["wsh(sortedmulti(2,foo))", "hello"]), "good": repr(self.desc)}[a]
        if pc == "seed":
            return {"short": rng.choice(["abandon abandon", MN1 + " art", "zoo"]), "badword": " ".join(["abandon"] * 23 + ["xyzzy"]),
                    "badsum": rng.choice([" ".join(["abandon"] * 24), MN2.replace("vote", "zoo")]),
                    "cos1": rng.choice([MN1, "  " + MN1 + " "]), "cos2": MN2, "stranger": MN3}[a]
        if pc == "pw1":
            return {"pp": "pp", "other": "qq", "spacey": rng.choice([" pp", "pp "])}[a]
        if pc == "pw2":
            return {"pp": "pp", "other": "qq"}[a]
        raise MachineryError("no concretisation for %s/%s" % (pc, a))


class ScriptEnd(BaseException):
    pass


def drive(mw, answers):
    it = iter(answers)
    prompts = []

    def ask(prompt=""):
        kind = next((k for (frag, k) in KINDS if frag in prompt), "?" + prompt[:40])
        prompts.append(kind)
        try:
            return next(it)
        except StopIteration:
            raise ScriptEnd()
    out = io.StringIO()
    old_input, old_getpass = builtins.input, mw.getpass
    builtins.input, mw.getpass = ask, ask
    end = "pending"
    try:
        with contextlib.redirect_stdout(out), contextlib.redirect_stderr(io.StringIO()):
            mw.MultiWallet().onecmd("sign_transaction")
        end = "returned"
    except ScriptEnd:
        pass
    except Exception as e:
        end = "raised:" + type(e).__name__
    finally:
        builtins.input, mw.getpass = old_input, old_getpass
    return end, prompts, out.getvalue()


def check_signed(world, text, who):
    """the PSBT printed after 'Signed PSBT to broadcast' carries exactly cosigner `who`'s signatures on every input and completes"""
    from buidl.psbt import PSBT, NamedHDPublicKey
    lines = [l for l in text.replace("\x1b[32m", "\n").replace("\x1b[0m", "\n").splitlines() if l.startswith("cHNidP")]
    if len(lines) != 1:
        return "expected one printed PSBT, found %d" % len(lines)
    ps = PSBT.parse_base64(lines[0], network="testnet")
    for k, pin in enumerate(ps.psbt_ins):
        want = NamedHDPublicKey.from_hd_priv(world.roots[who], "%s/0/%d" % (BASE, k)).sec()
        if set(pin.sigs.keys()) != {want}:
            return "input %d carries signatures of %s, expected exactly cosigner %d" % (k, sorted(x.hex()[:10] for x in pin.sigs), who + 1)
    other = world.roots[2]
    if not ps.sign(other):
        return "cosigner 3 could not add his signature"
    with contextlib.redirect_stdout(io.StringIO()):
        ps.finalize()
        t = ps.final_tx()
    for k in range(len(t.tx_ins)):
        if not t.verify_input(k):
            return "completed transaction does not verify at input %d" % k
    return ""


def run(ctx):
    ctx.level = "model_checking"
    ctx.rule = "a run = one answer script; distinct by (scenario, transition exercised last, outcome)"
    ctx.trusted += ["Signer.tla as the statement of the dialogue", "answer concretisation (which texts count as yes / no / malformed)",
                    "a stub for pkg_resources (absent from this interpreter; the program uses it only for its version banner)"]
    q = ctx.quick
    rng = random.Random(ctx.seed)
    if ctx.want("mc"):
        r0 = ctx.mc("cli/MC_Signer.tla", "MC_SignerNoConsent.cfg", workers=2)
        if not r0.invariant:
            raise MachineryError("vacuity: a signer without the confirmation prompt was expected to violate NoSignatureWithoutConsent")
        for v in ("Signed1", "Signed2", "Refused", "Error"):
            rv = ctx.mc("cli/MC_Signer.tla", "MC_SignerReach%s.cfg" % v, workers=2)
            if not rv.invariant:
                raise MachineryError("vacuity: outcome %s is not reachable in Signer.tla" % v)
        r = ctx.mc_expect_ok("cli/MC_Signer.tla", "MC_Signer.cfg", what="the signing dialogue", workers=2)
        ctx.exhaustive.append("MC_Signer: every answer sequence over the prompt alphabets, 4 scenarios (%d states); consent-free variant refuted; all outcomes reachable" % r.distinct)
    if not ctx.want("cases"):
        return
    tab = ctx.table("cli/MC_Signer.tla", "MC_Signer.cfg", env={"EXPORT": "1"}, workers=2)
    if isinstance(tab, list):
        tab = tab[0] if tab and isinstance(tab[0], dict) and "table" in tab[0] else {"table": tab, "inits": []}
    key = lambda s: json.dumps(s, sort_keys=True)
    nxt = collections.defaultdict(dict)
    for row in tab["table"]:
        nxt[key(row["from"])][row["ans"]] = row["to"]
    inits = tab["inits"]
    # shortest answer path to every state
    path = {}
    for s0 in inits:
        path[key(s0)] = (s0, [])
        dq = collections.deque([s0])
        while dq:
            s = dq.popleft()
            for a, t in sorted(nxt[key(s)].items()):
                if key(t) not in path:
                    path[key(t)] = (path[key(s)][0], path[key(s)][1] + [a])
                    dq.append(t)
    scripts = []
    for k, (s0, answers) in sorted(path.items()):
        for a in sorted(nxt[k]):
            scripts.append((s0, answers + [a]))
    n_trans = len(scripts)
    # a valid seed costs two PBKDF2 runs of the library's pure-Python implementation (seconds): the quick tier exercises every
    # transition before the seed prompt and a seeded sample of those after it; the thorough tier exercises all of them
    VALID = {"cos1", "cos2", "stranger"}
    heavy = [x for x in scripts if VALID & set(x[1])]
    light = [x for x in scripts if not (VALID & set(x[1]))]
    if q:
        rng.shuffle(heavy)
        heavy = heavy[:24]
    scripts = light + heavy
    n_run = len(scripts)
    for _ in range(60 if q else 150):
        s0 = rng.choice(inits)
        s, answers = s0, []
        for _ in range(rng.randrange(3, 15)):
            opts = sorted(nxt[key(s)])
            if not opts:
                break
            if s["pc"] == "seed" and rng.random() < (0.85 if q else 0.5):
                opts = [o for o in opts if o not in VALID]
            a = rng.choice(opts)
            answers.append(a)
            s = nxt[key(s)][a]
        scripts.append((s0, answers))
    mw = load_cli()
    world = World()
    ctx.exhaustive.append("transitions of the exported table exercised on the real program by a shortest script: %d of %d" % (n_run, n_trans))
    for (s0, answers) in scripts:
        sc = (bool(s0["xpubs"]), bool(s0["tampered"]))
        s, pcs, concrete = s0, [], []
        for a in answers:
            pcs.append(s["pc"])
            concrete.append(world.concretise(s["pc"], a, sc, rng))
            s = nxt[key(s)][a]
        if s["pc"] != "done":
            pcs.append(s["pc"])
        got = outcome(drive, mw, concrete)
        ctx.traces += 1
        tag = "%s%s" % ("xpubs" if sc[0] else "noxpubs", "-tampered" if sc[1] else "")
        if got[0] != "ok":
            ctx.violation("signer:driver-raises:%s" % got[1], "script %s on %s: %s" % (answers, tag, got[1]), {"kind": "signer", "scenario": tag, "answers": answers})
            continue
        end, prompts, text = got[1]
        ctx.nontriv((tag, s["pc"], s["out"]))
        net = "mainnet" if s["flipped"] else "testnet"
        why = ""
        if prompts != pcs:
            why = "prompts-differ"
        elif s["out"] == "none" and end != "pending":
            why = "ends-while-model-still-asks"
        elif s["out"] == "refused" and not end.startswith("raised:"):
            why = "refused-psbt-not-refused"
        elif s["out"] in ("declined", "error", "signed1", "signed2") and end != "returned":
            why = "does-not-return"
        elif ("Signed PSBT to broadcast" in text) != (s["out"] in ("signed1", "signed2")):
            why = "signs-without-model-consent" if "Signed PSBT to broadcast" in text else "does-not-sign"
        elif s["shown"] != (("PSBT sends" in text) or ("sweep" in text.lower() and "sats" in text)):
            why = "summary-shown-differs"
        elif s["shown"] and world.spend_addr[net] not in text:
            why = "summary-network-differs"
        elif s["detailed"] != ("DETAILED VIEW" in text):
            why = "detailed-view-differs"
        elif (s["out"] == "declined") != ("NOT signed" in text):
            why = "declined-message-differs"
        elif (s["out"] == "error") != ("Could NOT sign" in text):
            why = "error-message-differs"
        elif s["out"] in ("signed1", "signed2"):
            chk = outcome(check_signed, world, text, 0 if s["out"] == "signed1" else 1)
            if chk != ("ok", ""):
                why = "signed-psbt-wrong"
                text = text + "\n" + str(chk)
        if why:
            ctx.violation("signer:%s:%s" % (why, tag), "answers %s on %s: %s; prompts asked %s, model path %s; end %s, model outcome %s; output tail %r"
                          % (answers, tag, why, prompts, pcs, end, s["out"], text[-300:]), {"kind": "signer", "scenario": tag, "answers": answers, "concrete": concrete})
    ctx.sample({"script": scripts[len(scripts) // 2][1]})
