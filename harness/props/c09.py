"""C09 — address and key text encodings (specs/addr/*, specs/lib/Bech32.tla).

(C) MC_Bech32: by linearity of the BCH checksum, every one- and two-character substitution within 90 symbols is
    detected, also when it changes the witness version between 0 and non-zero (Bech32 <-> Bech32m constant).
(B) recorded calls decided by TLC: Base58 / Base58Check on payloads of 0..82 bytes with leading-zero runs, candidate
    strings with altered characters (accepted iff the checksum matches), segwit addresses for every witness version
    x program length x network, every single and sampled double substitution of sampled addresses, the five
    scriptPubKey templates x four networks through address() / address_to_script_pubkey / TxOut.to_address, and WIF.
"""
import random

from ..core import B, outcome, hash_prim

B58A = "123456789ABCDEFGHJKLMNPQRSTUVWXYZabcdefghijkmnopqrstuvwxyz"
ALPH = "qpzry9x8gf2tvdw0s3jn54khce6mua7l"
NETS = ["mainnet", "testnet", "signet", "regtest"]


def T(s):
    return [ord(c) for c in s]


def h256row(b):
    return {"fn": "hash256", "in": B(b), "out": B(hash_prim("hash256", b))}


def b58dec(s):
    """harness-side base58 decode used only to know which hash row a candidate string needs"""
    n = 0
    for c in s:
        if c not in B58A:
            return None
        n = n * 58 + B58A.index(c)
    lead = len(s) - len(s.lstrip("1"))
    body = n.to_bytes((n.bit_length() + 7) // 8, "big") if n else b""
    return b"\x00" * lead + body


def run(ctx):
    from buidl import helper as H, bech32 as BE
    from buidl.script import P2PKHScriptPubKey, P2SHScriptPubKey, P2WPKHScriptPubKey, P2WSHScriptPubKey, P2TRScriptPubKey, address_to_script_pubkey
    from buidl.tx import TxOut
    from buidl.ecc import PrivateKey
    rng = random.Random(ctx.seed)
    q = ctx.quick
    ctx.rule = ("cases = recorded encode/decode calls decided by TLC; distinct = (codec, payload length / leading zeros class), (witness version, "
                "program length, network), (template, network), substitution position classes")
    ctx.assumptions = ["hash256 rows certified with hashlib", "testnet and signet share the hrp 'tb' and version bytes: decoding identifies the hrp, not the network name"]
    if ctx.want("mc"):
        r = ctx.mc_expect_ok("addr/MC_Bech32.tla", "MC_Bech32.cfg", what="BCH code distance", env={"MAXLEN": 62 if q else 90}, workers=2)
        ctx.exhaustive.append("MC_Bech32: every error pattern of weight 1 and 2 over %d symbols x 31 values, against both checksum constants" % (62 if q else 90))
    if not ctx.want("cases"):
        return
    cases = []

    def rb(n):
        return bytes(rng.randrange(256) for _ in range(n))
    # base58
    lens = [0, 1, 2, 20, 21, 25, 33, 34, 38, 78, 82] + ([rng.randrange(83) for _ in range(6)] if q else list(range(83)))
    for i, n in enumerate(lens):
        for lead in ([0, 1, 3] if n >= 3 else [0, n]):
            payload = b"\x00" * min(lead, n) + (bytes([rng.randrange(1, 256)]) + rb(n - lead - 1) if n - lead >= 1 else b"")
            t = outcome(H.encode_base58, payload)
            if n > 0:      # bare encode_base58 of the empty string is not a Base58Check operation (Base58Check always carries 4 checksum bytes)
              cases.append({"id": "b%d.%d" % (i, lead), "kind": "b58", "payload": B(payload), "text": T(t[1]) if t[0] == "ok" else [0]})
            ctx.nontriv(("b58", n if n < 5 else "n", lead))
            tc = outcome(H.encode_base58_checksum, payload)
            back = outcome(H.raw_decode_base58, tc[1]) if tc[0] == "ok" else ("raise", b"")
            cases.append({"id": "bc%d.%d" % (i, lead), "kind": "b58check", "payload": B(payload), "text": T(tc[1]) if tc[0] == "ok" else [0], "hr": [h256row(payload)],
                          "back_ok": back[0] == "ok", "back": B(back[1]) if back[0] == "ok" else []})
            if tc[0] == "ok" and i < 8:
                text = tc[1]
                for _ in range(6):
                    pos = rng.randrange(len(text))
                    ch = rng.choice([c for c in B58A if c != text[pos]])
                    cand = text[:pos] + ch + text[pos + 1:]
                    raw = b58dec(cand)
                    got = outcome(H.raw_decode_base58, cand)
                    cases.append({"id": "bx%d.%d.%d" % (i, lead, pos), "kind": "b58cand", "text": T(cand), "hr": [h256row(raw[:-4])] if raw and len(raw) >= 4 else [],
                                  "accepted": got[0] == "ok", "back": B(got[1]) if got[0] == "ok" else []})
                ctx.nontriv(("b58cand", n))
    # strings that decode to fewer than the 4 checksum bytes, and Base58Check texts of short payloads with the checksum cut
    # short: never a valid Base58Check string, whatever the bytes that remain happen to be
    import hashlib as _hl
    shorts = [""] + list(B58A) + ([a + b for a in B58A for b in B58A] if not q else [rng.choice(B58A) + rng.choice(B58A) for _ in range(150)])
    for payload in (b"", b"\x00", b"\x00\x00", b"\x01", b"\xff\xfe"):
        chk = _hl.sha256(_hl.sha256(payload).digest()).digest()[:4]
        for keep in range(0, 4):
            t = outcome(H.encode_base58, payload + chk[:keep])
            if t[0] == "ok" and not (payload == b"" and keep == 0):
                shorts.append(t[1])
        full = outcome(H.encode_base58_checksum, payload)
        if full[0] == "ok":
            shorts += [full[1][:j] for j in range(len(full[1]))] + [full[1][j:] for j in range(1, len(full[1]))] + [full[1]]
    for j, cand in enumerate(dict.fromkeys(shorts)):
        raw = b58dec(cand)
        got = outcome(H.raw_decode_base58, cand)
        cases.append({"id": "bs%d" % j, "kind": "b58cand", "text": T(cand), "hr": [h256row(raw[:-4])] if raw and len(raw) >= 4 else [],
                      "accepted": got[0] == "ok", "back": B(got[1]) if got[0] == "ok" else []})
        ctx.nontriv(("b58short", len(cand) if len(cand) < 4 else "n", got[0] == "ok"))
    # segwit addresses: every version x length x network (quick: sampled lengths)
    k = 0
    for ver in range(17):
        plens = list(range(2, 41)) if not q else sorted({2, 3, 20, 32, 39, 40, rng.randrange(2, 41)})
        for plen in plens:
            for net in (NETS if (not q or plen in (20, 32)) else [rng.choice(NETS)]):
                prog = rb(plen)
                spk = bytes([0x50 + ver if ver else 0, plen]) + prog
                t = outcome(BE.encode_bech32_checksum, spk, net)
                back = outcome(BE.decode_bech32, t[1]) if t[0] == "ok" else ("raise", None)
                k += 1
                cases.append({"id": "sw%d" % k, "kind": "segwit", "net": net, "ver": ver, "prog": B(prog), "text": T(t[1]) if t[0] == "ok" else [0],
                              "back_ok": back[0] == "ok", "back_net": back[1][0] if back[0] == "ok" else "mainnet", "back_ver": back[1][1] if back[0] == "ok" else -1,
                              "back_prog": B(back[1][2]) if back[0] == "ok" else []})
                ctx.nontriv(("segwit", ver, plen if plen in (2, 20, 32, 40) else "len", net))
                # the same data part under the OTHER checksum constant (a v1+ address from a BIP173-only encoder, a v0 address
                # with a Bech32m checksum): well-formed, but not an address of this witness version
                if t[0] == "ok" and (plen in (20, 32) or ver in (0, 1, 2, 16)):
                    text = t[1]
                    sep = text.rindex("1")
                    hrp, data = text[:sep], [ALPH.index(ch) for ch in text[sep + 1:-6]]
                    other = 0x2bc830a3 if ver == 0 else 1
                    vals = [ord(ch) >> 5 for ch in hrp] + [0] + [ord(ch) & 31 for ch in hrp] + data + [0] * 6
                    chk = 1
                    for v_ in vals:
                        top = chk >> 25
                        chk = ((chk & 0x1ffffff) << 5) ^ v_
                        for i_, g_ in enumerate((0x3b6a57b2, 0x26508e6d, 0x1ea119fa, 0x3d4233dd, 0x2a1462b3)):
                            if (top >> i_) & 1:
                                chk ^= g_
                    chk ^= other
                    cand = hrp + "1" + "".join(ALPH[d_] for d_ in data) + "".join(ALPH[(chk >> (5 * (5 - i_))) & 31] for i_ in range(6))
                    got = outcome(BE.decode_bech32, cand)
                    cases.append({"id": "sc%d" % k, "kind": "segwit-const", "text": T(cand), "accepted": got[0] == "ok"})
                    ctx.nontriv(("segwit-other-constant", ver if ver < 2 else "v2+"))
                # substitutions of sampled addresses
                if t[0] == "ok" and plen in (20, 32) and ver in (0, 1, 16) and net in ("mainnet", "regtest"):
                    text = t[1]
                    start = text.rindex("1") + 1
                    for pos in range(start, len(text)):
                        alts = [c for c in ALPH if c != text[pos]]
                        for ch in (alts if (not q or pos in (start, start + 1, len(text) - 1, len(text) - 7)) else rng.sample(alts, 2)):
                            cand = text[:pos] + ch + text[pos + 1:]
                            got = outcome(BE.decode_bech32, cand)
                            cases.append({"id": "ss%d.%d.%s" % (k, pos, ch), "kind": "segwit-sub", "text": T(cand), "accepted": got[0] == "ok"})
                    for _ in range(40 if q else 400):
                        p1, p2 = sorted(rng.sample(range(start, len(text)), 2))
                        if rng.random() < 0.3:
                            p1 = start
                        cand = list(text)
                        for p_ in (p1, p2):
                            cand[p_] = rng.choice([c for c in ALPH if c != text[p_]])
                        cand = "".join(cand)
                        got = outcome(BE.decode_bech32, cand)
                        cases.append({"id": "sd%d.%d.%d.%s" % (k, p1, p2, cand[p1] + cand[p2]), "kind": "segwit-sub", "text": T(cand), "accepted": got[0] == "ok"})
                    ctx.nontriv(("segwit-sub", ver, plen, net))
    # templates x networks
    def template_case(cid, net, tkind, h, a):
        addr = a[1] if a[0] == "ok" else ""

        def proj(cmds):
            return [c if isinstance(c, int) else -1 for c in cmds], next((x for x in cmds if isinstance(x, bytes)), b"")
        back = outcome(address_to_script_pubkey, addr)
        bok = back[0] == "ok" and back[1] is not None
        tx = outcome(TxOut.to_address, addr, 1)
        bo, bh = proj(back[1].commands) if bok else ([], b"")
        to, th = proj(tx[1].script_pubkey.commands) if tx[0] == "ok" else ([], b"")
        payload = bytes([{"p2pkh": 0 if net == "mainnet" else 111, "p2sh": 5 if net == "mainnet" else 196}.get(tkind, 0)]) + h
        cases.append({"id": cid, "kind": "template", "net": net, "tkind": tkind, "h": B(h), "addr": T(addr), "hr": [h256row(payload)],
                      "back_ok": bok, "back_ops": bo, "back_h": B(bh), "txout_ok": tx[0] == "ok", "txout_ops": to, "txout_h": B(th)})

    for net in NETS:
        for tkind, cls, hl in (("p2pkh", P2PKHScriptPubKey, 20), ("p2sh", P2SHScriptPubKey, 20), ("p2wpkh", P2WPKHScriptPubKey, 20), ("p2wsh", P2WSHScriptPubKey, 32), ("p2tr", P2TRScriptPubKey, 32)):
            zero_runs = [2, 0, 1, 3, 5, 6, 12, hl - 1, hl] if tkind in ("p2pkh", "p2sh") else [2, 0, 1, 3]      # leading zero bytes of the hash (short Base58 strings)
            for rep in range(len(zero_runs) if (q and net in ("mainnet", "regtest")) or not q else 1):
                h = b"\x00" * zero_runs[rep] + rb(hl - zero_runs[rep])
                if tkind == "p2tr" and rep == 1:
                    h = b"\xff" * 32                       # a 32-byte program that is not the x coordinate of a curve point (still a valid output script / address)
                a = outcome(lambda: cls(h).address(net))
                template_case("t.%s.%s.%d" % (net, tkind, rep), net, tkind, h, a)
                ctx.nontriv(("template", net, tkind))
    # one scriptPubKey object asked for its address on several networks in turn (an answer must not depend on the earlier questions)
    for ti, (tkind, cls, hl) in enumerate((("p2pkh", P2PKHScriptPubKey, 20), ("p2sh", P2SHScriptPubKey, 20), ("p2wpkh", P2WPKHScriptPubKey, 20), ("p2wsh", P2WSHScriptPubKey, 32), ("p2tr", P2TRScriptPubKey, 32))):
        orders = [["testnet", "regtest", "signet", "mainnet", "regtest", "testnet"], ["regtest", "testnet", "mainnet", "signet"], ["signet", "regtest"], ["mainnet", "testnet", "mainnet"]]
        for oi, order in enumerate(orders if not q else orders[:3]):
            h = rb(hl)
            obj = cls(h)
            for ni, net in enumerate(order):
                template_case("to.%s.%d.%d" % (tkind, oi, ni), net, tkind, h, outcome(obj.address, net))
            ctx.nontriv(("template-one-object", tkind, oi))
    # WIF
    N = 0xFFFFFFFFFFFFFFFFFFFFFFFFFFFFFFFEBAAEDCE6AF48A03BBFD25E8CD0364141
    secrets = [1, 2, 255, 256, 257, N - 1, 2 ** 128, 2 ** 248 + 1] + [rng.randrange(1, N) for _ in range(3 if q else 30)]
    for i, sct in enumerate(secrets):
        pk_main = None
        for net in ("mainnet", "testnet", "signet", "regtest"):
            if q and i >= 4 and net in ("signet", "regtest"):
                continue
            for comp in (True, False):
                pk = PrivateKey(sct, network=net) if (i < 2 or pk_main is None) else pk_main
                if i >= 2:
                    pk.network = net
                    pk_main = pk
                w = outcome(pk.wif, comp)
                back = outcome(PrivateKey.parse, w[1]) if w[0] == "ok" else ("raise", None)
                payload = bytes([0x80 if net == "mainnet" else 0xEF]) + sct.to_bytes(32, "big") + (b"\x01" if comp else b"")
                cases.append({"id": "w%d.%s.%s" % (i, net, comp), "kind": "wif", "net": net, "secret32": B(sct.to_bytes(32, "big")), "compressed": comp, "wif": T(w[1]) if w[0] == "ok" else [0],
                              "hr": [h256row(payload)], "back_ok": back[0] == "ok", "back_secret": B(back[1].secret.to_bytes(32, "big")) if back[0] == "ok" else [],
                              "back_compressed": bool(back[1].compressed) if back[0] == "ok" else False, "back_mainnet": (back[1].network == "mainnet") if back[0] == "ok" else False})
                ctx.nontriv(("wif", net, comp, sct % 256 == 1))
    for c in cases:
        c.setdefault("hr", [])
    byid = {c["id"]: c for c in cases}
    ctx.sample({k: v for k, v in cases[0].items() if k in ("id", "kind", "payload", "text")})
    bad = ctx.validate("addr/C09Cases.tla", cases, "C09Cases.cfg", timeout=7200, per_shard_min=60)
    for cid, why in bad.items():
        c = byid[cid]
        extra = ":%s:%s" % (c.get("net", ""), c.get("tkind", "")) if c["kind"] == "template" else ""
        ctx.violation("%s:%s%s" % (c["kind"], why, extra), "%s case %s: %s" % (c["kind"], cid, why), {"kind": "case", "case": {k: v for k, v in c.items() if k != "hr"}})
