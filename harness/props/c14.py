"""C14 — BIP39 mnemonics and seeds (specs/bip39/*).

(C) PBKDF2Stream: the vendored PBKDF2 object's read() as a stream machine: any sequence of read sizes yields a prefix of
    T_1 || T_2 || ...
(A) the model's read sequences are replayed on the real PBKDF2 object (concatenated reads = one big read).
(B) all five entropy sizes (boundary patterns + random) through bytes_to_mnemonic / mnemonic_to_bytes, word sequences of
    every length 11..25 (valid, bad checksum, unknown word), four-letter prefixes, seeds for passphrases incl. empty and
    non-ASCII bytes and mnemonic sentences of exactly / around 128 bytes, PBKDF2 structure at small round counts from
    certified HMAC-SHA512 rows; decided by TLC.
"""
import hashlib
import hmac as pyhmac
import itertools
import os
import random

from ..core import B, outcome, hash_prim, REPO, spec_wordlist


def run(ctx):
    from buidl import mnemonic as MN, helper as H, hd
    from buidl.pbkdf2 import PBKDF2
    rng = random.Random(ctx.seed)
    q = ctx.quick
    words = spec_wordlist(ctx, "bip39", MN.BIP39)
    widx = {w: i for i, w in enumerate(words)}
    ctx.rule = ("cases = recorded encode/decode/seed/PBKDF2 calls decided by TLC; distinct = (entropy size, pattern), (word count, validity class, "
                "full words / prefixes), (passphrase class, sentence-length class), (rounds, dkLen)")
    ctx.assumptions = ["sha256 / HMAC-SHA512 rows and the 2048-round PBKDF2 value are certified with hashlib (trusted base)",
                       "BIP39's English word list is part of the specification (specs/bip39/english.txt, sha256 2f5eed53...); the list the library loads must equal it"]
    if ctx.want("mc"):
        r = ctx.mc_expect_ok("bip39/PBKDF2Stream.tla", "PBKDF2Stream.cfg", what="PBKDF2 read() stream machine", workers=2)
        ctx.exhaustive.append("PBKDF2Stream: every sequence of read sizes 0..2B+1 with total <= MaxTotal (%d transitions)" % r.generated)
    if not ctx.want("cases"):
        return
    cases = []

    def rb(n):
        return bytes(rng.randrange(256) for _ in range(n))

    def sha_row(b):
        return {"fn": "sha256", "in": B(b), "out": B(hashlib.sha256(b).digest())}

    def cand_ent(idx):
        """entropy bytes a given index sequence would decode to (only to know which sha256 row TLC needs)"""
        n = len(idx)
        if n not in (12, 15, 18, 21, 24) or any(i < 0 for i in idx):
            return None
        v = 0
        for i in idx:
            v = (v << 11) | i
        cs = n // 3
        return (v >> cs).to_bytes((n * 11 - cs) // 8, "big")
    # encode / decode
    k = 0
    for size in (16, 20, 24, 28, 32):
        ents = [b"\x00" * size, b"\xff" * size, b"\x80" + b"\x00" * (size - 1), rb(size)] + ([rb(size) for _ in range(6)] if not q else [])
        for ent in ents:
            m = outcome(MN.bytes_to_mnemonic, ent, size * 8)
            back = outcome(MN.mnemonic_to_bytes, m[1]) if m[0] == "ok" else ("raise", b"")
            cases.append({"id": "e%d" % k, "kind": "enc", "ent": B(ent), "res": m[0], "idx": [widx.get(w, -1) for w in m[1].split()] if m[0] == "ok" else [], "hr": [sha_row(ent)],
                          "back_ok": back[0] == "ok", "back": B(back[1]) if back[0] == "ok" else []})
            ctx.nontriv(("enc", size))
            k += 1
            if m[0] != "ok":
                continue
            ws = m[1].split()
            variants = [("valid", ws), ("prefix4", [w[:4] for w in ws]), ("mixed-prefix", [w[:4] if i % 2 else w for i, w in enumerate(ws)]),
                        ("bad-checksum", ws[:-1] + [words[(widx[ws[-1]] + 1) % 2048]]), ("swap", [ws[1], ws[0]] + ws[2:]),
                        ("unknown-word", ws[:3] + ["zzzz"] + ws[4:]), ("short-1", ws[:-1]), ("long+1", ws + [ws[0]]),
                        ("3-letter-prefix", [w[:3] if len(w) > 4 else w for w in ws])]
            for name, seq in variants:
                text = " ".join(seq)
                got = outcome(MN.mnemonic_to_bytes, text)
                idx = []
                for w in seq:
                    if w in widx:
                        idx.append(widx[w])
                    else:
                        cands = [i for i, x in enumerate(words) if len(x) > 4 and x[:4] == w] if len(w) == 4 else []
                        idx.append(cands[0] if len(cands) == 1 else -1)
                ce = cand_ent(idx)
                cases.append({"id": "d%d.%s" % (k, name), "kind": "dec", "idx": idx, "hr": [sha_row(ce)] if ce is not None else [], "accepted": got[0] == "ok",
                              "bytes": B(got[1]) if got[0] == "ok" else [], "form": ":" + name})
                ctx.nontriv(("dec", len(seq), name, got[0] == "ok"))
    # near misses of the last word: BIP39 words that are a proper prefix of another BIP39 word (win / window, act / actor, ...).
    # Entropy is searched so that the correct last word is the long (resp. the short) one and the other is put in its place.
    longer = {}
    for w in words:
        for w2 in words:
            if w2 != w and w2.startswith(w):
                longer.setdefault(w, []).append(w2)
    shorter = {}
    for w, ls in longer.items():
        for l in ls:
            shorter.setdefault(l, []).append(w)
    for size in ((16, 32) if q else (16, 20, 24, 28, 32)):
        cs = size // 4
        for direction, table in (("long->short", shorter), ("short->long", longer)):
            for _ in range(4000):
                ent = rb(size)
                last = ((int.from_bytes(ent, "big") << cs) | (hashlib.sha256(ent).digest()[0] >> (8 - cs))) & 2047
                if words[last] in table:
                    break
            else:
                continue
            m = outcome(MN.bytes_to_mnemonic, ent, size * 8)
            if m[0] != "ok" or m[1].split()[-1] != words[last]:
                continue        # the encoding itself is decided by the "enc" cases
            ws = m[1].split()
            for other in table[words[last]]:
                seq = ws[:-1] + [other]
                got = outcome(MN.mnemonic_to_bytes, " ".join(seq))
                idx = [widx[w] for w in seq]
                ce = cand_ent(idx)
                k += 1
                cases.append({"id": "d%d.nearmiss" % k, "kind": "dec", "idx": idx, "hr": [sha_row(ce)] if ce is not None else [], "accepted": got[0] == "ok",
                              "bytes": B(got[1]) if got[0] == "ok" else [], "form": ":last-word-" + direction})
                ctx.nontriv(("dec-nearmiss", size, direction, got[0] == "ok"))
    # random word sequences of every length 11..25
    for n in range(11, 26):
        for rep in range(1 if q else 4):
            idx = [rng.randrange(2048) for _ in range(n)]
            text = " ".join(words[i] for i in idx)
            got = outcome(MN.mnemonic_to_bytes, text)
            ce = cand_ent(idx)
            cases.append({"id": "r%d.%d" % (n, rep), "kind": "dec", "idx": idx, "hr": [sha_row(ce)] if ce is not None else [], "accepted": got[0] == "ok",
                          "bytes": B(got[1]) if got[0] == "ok" else [], "form": ":random-%d" % n})
    # seeds and master keys
    def pb_row(pw, salt):
        return {"fn": "pbkdf2-sha512-2048", "in": B(pw) + [-3] + B(salt), "out": B(hashlib.pbkdf2_hmac("sha512", pw, salt, 2048, 64))}
    seeds = []
    sentences = []
    for size in (16, 32):
        sentences.append(MN.bytes_to_mnemonic(rb(size), size * 8))
    # sentences whose byte length is exactly / around the HMAC block size (128)
    found = {}
    tries = 0
    while len(found) < 3 and tries < 4000:
        tries += 1
        s = MN.bytes_to_mnemonic(rb(24 if tries % 2 else 28), 192 if tries % 2 else 224)
        if len(s) in (127, 128, 129) and len(s) not in found:
            found[len(s)] = s
    sentences += list(found.values())
    for si, sent in enumerate(sentences):
        pws = [b"", b"TREZOR", bytes([0xE2, 0x82, 0xAC, 0xFF, 0x00])] if si < 2 or not q else [b"pw"]
        if si == 1:
            # passphrases that begin with / contain the salt prefix itself, and passphrases with leading or trailing blanks
            pws += [b"mnemonic", b"mnemonic phrase", b"my mnemonic", b" x", b"x ", b"x\n"]
        if si == 0:
            # byte passphrases that are well-formed UTF-8 but not NFKD-normal (the salt is the bytes as given, whatever they decode to)
            pws += ["caf\u00e9".encode(), "a\u00a0b".encode(), "\ufb01n".encode(), "\uff21\uff22".encode(), "\ud55c\uae00".encode(), "\u212b".encode()]
        if si <= 1:
            # passphrases whose PBKDF2 output starts with one (two) zero bytes: found by search with hashlib
            want_zero = 2 if (si == 0 and not q) else 1
            for t_ in range(200000):
                cand = b"z%d" % t_
                if hashlib.pbkdf2_hmac("sha512", sent.encode(), b"mnemonic" + cand, 2048, 64)[:want_zero] == bytes(want_zero):
                    pws.append(cand)
                    break
        for pw in pws:
            sk = outcome(H.hmac_sha512_kdf, sent, b"mnemonic" + pw)
            mk = outcome(hd.HDPrivateKey.from_mnemonic, sent, pw)
            m2 = outcome(hd.HDPrivateKey.from_seed, hashlib.pbkdf2_hmac("sha512", sent.encode(), b"mnemonic" + pw, 2048, 64))
            cases.append({"id": "s%d.%d.%s" % (si, len(pw), pw[:6].hex()), "kind": "seed", "sentence": B(sent.encode()), "pass": B(pw), "res": mk[0], "seed": B(sk[1]) if sk[0] == "ok" else [],
                          "master": [ord(c) for c in mk[1].xprv()] if mk[0] == "ok" else [], "master_from_seed": [ord(c) for c in m2[1].xprv()] if m2[0] == "ok" else [0],
                          "hr": [pb_row(sent.encode(), b"mnemonic" + pw)]})
            ctx.nontriv(("seed", len(sent) if len(sent) in (127, 128, 129) else "other", len(pw)))
    # prefix mnemonic gives the same seed as the full-word mnemonic
    ws = sentences[0].split()
    a = outcome(hd.HDPrivateKey.from_mnemonic, " ".join(w[:4] for w in ws), b"x")
    b_ = outcome(hd.HDPrivateKey.from_mnemonic, sentences[0], b"x")
    cases.append({"id": "pfx", "kind": "eq", "a": [ord(c) for c in a[1].xprv()] if a[0] == "ok" else [0], "b": [ord(c) for c in b_[1].xprv()] if b_[0] == "ok" else [1], "what": "prefix-mnemonic-gives-different-master-key"})
    # sentences written partly in full and partly as four-letter prefixes (every mixture gives the master key of the full sentence)
    for mj in range(4 if q else 24):
        ws2 = sentences[mj % 2].split()
        mixed = [w_ if (rng.random() < 0.5 or len(w_) <= 4) else w_[:4] for w_ in ws2]
        if mj == 0:
            mixed = [w_[:4] if k_ == len(ws2) - 1 else w_ for k_, w_ in enumerate(ws2)]        # only the last word abbreviated
        a = outcome(hd.HDPrivateKey.from_mnemonic, " ".join(mixed), b"y")
        b_ = outcome(hd.HDPrivateKey.from_mnemonic, sentences[mj % 2], b"y")
        cases.append({"id": "mix%d" % mj, "kind": "eq", "a": [ord(c) for c in a[1].xprv()] if a[0] == "ok" else [0], "b": [ord(c) for c in b_[1].xprv()] if b_[0] == "ok" else [1],
                      "what": "partly-abbreviated-mnemonic-gives-different-master-key"})
    # PBKDF2 structure at small round counts, from the HMAC rows the object really computed
    for pi, (rounds, dklen, plen) in enumerate([(1, 64, 5), (2, 64, 127), (3, 100, 128), (16, 130, 129), (1, 1, 0), (2, 128, 200)]):
        P, S = rb(plen), rb(rng.choice([0, 8, 40]))
        calls = []

        class Rec:
            def __init__(self, key, msg, digestmod):
                self.h = pyhmac.new(key, msg, digestmod)
                self.key, self.msg = bytes(key), bytes(msg)

            def digest(self):
                d = self.h.digest()
                calls.append((self.key, self.msg, d))
                return d

        class Mod:
            new = staticmethod(lambda key, msg, digestmod: Rec(key, msg, digestmod))
        out = outcome(lambda: PBKDF2(P, S, iterations=rounds, macmodule=Mod, digestmodule=hashlib.sha512).read(dklen))
        rows = [{"in": B(k_) + [-3] + B(m_), "out": B(pyhmac.new(k_, m_, hashlib.sha512).digest())} for k_, m_, _ in calls]
        cases.append({"id": "pb%d" % pi, "kind": "pbkdf", "P": B(P), "S": B(S), "rounds": rounds, "dklen": dklen, "hr": rows, "out": B(out[1]) if out[0] == "ok" else []})
        ctx.nontriv(("pbkdf", rounds, dklen, plen))
    # blocks T_i that start with zero bytes (found by search over salts at one and two rounds): every read must still return them whole
    for zi, (rounds, which) in enumerate([(1, 0), (2, 0), (1, 1), (3, 0)]):
        P = rb(12)
        for t_ in range(100000):
            S = b"salt%d" % t_
            ref = hashlib.pbkdf2_hmac("sha512", P, S, rounds, 128)
            if ref[64 * which] == 0:
                break
        o = PBKDF2(P, S, iterations=rounds, macmodule=pyhmac, digestmodule=hashlib.sha512)
        got = outcome(lambda: o.read(64) + o.read(64))
        cases.append({"id": "zb%d" % zi, "kind": "eq", "a": B(got[1]) if got[0] == "ok" else [0], "b": B(ref), "what": "pbkdf2-block-with-leading-zero-byte"})
        ctx.nontriv(("pbkdf-zero-block", rounds, which))
    # (A) read sequences of the stream model on the real object
    P, S = rb(20), rb(8)
    whole = PBKDF2(P, S, iterations=2, macmodule=pyhmac, digestmodule=hashlib.sha512).read(200)
    seqs = [s for n in range(1, 4) for s in itertools.product([0, 1, 63, 64, 65, 129], repeat=n) if sum(s) <= 200]
    for si, s in enumerate(seqs if not q else seqs[::3]):
        o = PBKDF2(P, S, iterations=2, macmodule=pyhmac, digestmodule=hashlib.sha512)
        got = b"".join(o.read(n) for n in s)
        cases.append({"id": "st%d" % si, "kind": "eq", "a": B(got), "b": B(whole[:sum(s)]), "what": "pbkdf2-reads-are-not-a-prefix-of-the-stream"})
    ctx.traces += len(seqs)
    for c in cases:
        c.setdefault("hr", [])
    byid = {c["id"]: c for c in cases}
    ctx.sample({k: v for k, v in cases[0].items() if k in ("id", "kind", "ent", "idx")})
    bad = ctx.validate("bip39/C14Cases.tla", cases, "C14Cases.cfg", timeout=7200, per_shard_min=20)
    for cid, why in bad.items():
        c = byid[cid]
        ctx.violation("%s:%s" % (c["kind"], why), "%s case %s: %s" % (c["kind"], cid, why), {"kind": "case", "case": {k: v for k, v in c.items() if k != "hr"}})
