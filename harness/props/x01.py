"""X01 — SimpleNode as a protocol state machine (specs/p2p/Node.tla); specification growth beyond the listed properties.

(C) MC_Node: every API call of a small catalogue (handshake, wait_for over several class sets, get_filtered_txs over
    block lists) against every peer script up to MAXIN messages: reply discipline (each version gets one verack, each ping
    one pong with its nonce, in order, and nothing else is sent), wait_for returns the first awaited message and consumes
    nothing beyond it, get_filtered_txs returns exactly what valid proofs for the requested blocks prove, termination.
(A) NodeTable: TLC exports the machine's outcome for every (call, script); each script is concretised to real envelope
    bytes (real headers, BIP37 proofs, transactions) and replayed through the unmodified SimpleNode on a fake socket; the
    bytes sent, the number of envelopes consumed, the returned message / transactions or the error must be the outcome.
(B) NodeCases: longer random scripts (up to 12 messages, more nonces / blocks / proofs) are run on the real node first and
    TLC decides each recorded run with the same machine.
"""
import hashlib
import io
import random

from ..core import outcome
from .c17 import py_proof, flag_bytes

MAGIC = bytes.fromhex("f9beb4d9")


def h256(b):
    return hashlib.sha256(hashlib.sha256(b).digest()).digest()


def env(cmd, payload):
    return MAGIC + cmd + b"\x00" * (12 - len(cmd)) + len(payload).to_bytes(4, "little") + h256(payload)[:4] + payload


def varint(n):
    assert n < 0xfd
    return bytes([n])


class World:
    """Concrete counterparts of the abstract universe: nonces, transactions, blocks, proofs."""

    def __init__(self, ntx, blocks):
        from buidl.tx import Tx, TxIn, TxOut
        from buidl.script import P2PKHScriptPubKey
        self.txraw, self.txid = {}, {}
        for t in range(1, ntx + 1):
            tx = Tx(1, [TxIn(bytes([t]) * 32, t)], [TxOut(1000 + t, P2PKHScriptPubKey(bytes([t]) * 20))], 0)
            raw = tx.serialize()
            self.txraw[t] = raw
            self.txid[t] = h256(raw)[::-1]              # display order, what Tx.hash() returns
        self.fill = [h256(b"filler%d" % k) for k in range(8)]
        self.blocks = blocks                               # blk -> list of tx numbers (its matched-capable txs)
        self.leaves, self.header, self.bhash = {}, {}, {}
        for b, txs in blocks.items():
            lv = []
            for k, t in enumerate(txs):                    # interleave fillers so that proofs have non-matched hashes
                lv.append(self.txid[t][::-1])
                lv.append(self.fill[(b + k) % 8])
            self.leaves[b] = lv
            _, _, root = py_proof(lv, [])
            hd = (1).to_bytes(4, "little") + bytes([b]) * 32 + root + (1600000000 + b).to_bytes(4, "little") + bytes.fromhex("ffff001d") + bytes(4)
            self.header[b] = hd
            self.bhash[b] = h256(hd)[::-1]
        self.nonce = lambda n: (0x1122334455667700 + n).to_bytes(8, "little")

    def merkleblock(self, b, ok, pr):
        lv = self.leaves[b]
        idx = [lv.index(self.txid[t][::-1]) for t in pr]
        assert idx == sorted(idx)
        flags, hashes, _ = py_proof(lv, idx)
        hashes = list(hashes)
        if not ok:
            k = next(k for k, h in enumerate(hashes) if h[::-1] not in [self.txid[t] for t in pr])
            hashes[k] = bytes([hashes[k][0] ^ 1]) + hashes[k][1:]
        fb = flag_bytes(flags)
        payload = self.header[b] + len(lv).to_bytes(4, "little") + varint(len(hashes)) + b"".join(hashes) + varint(len(fb)) + fb
        return payload

    def wire(self, m):
        c = m["cmd"]
        if c == "version":
            from buidl.network import VersionMessage
            return env(b"version", VersionMessage().serialize())
        if c == "verack":
            return env(b"verack", b"")
        if c == "other":
            return env(b"feefilter", bytes(8))
        if c in ("ping", "pong"):
            return env(c.encode(), self.nonce(m["n"]))
        if c == "tx":
            return env(b"tx", self.txraw[m["n"]])
        if c == "merkleblock":
            return env(b"merkleblock", self.merkleblock(m["n"], m["ok"], m["pr"]))
        raise AssertionError(c)


class FakeSocket:
    def __init__(self):
        self.out = b""

    def sendall(self, b):
        self.out += b


def parse_sent(w, raw):
    """the harness' own envelope reader for what the node wrote (no library code)"""
    s, out = raw, []
    while s:
        assert s[:4] == MAGIC, "node sent a bad magic"
        cmd = s[4:16].rstrip(b"\x00")
        ln = int.from_bytes(s[16:20], "little")
        payload = s[24:24 + ln]
        assert len(payload) == ln and h256(payload)[:4] == s[20:24], "node sent a bad envelope"
        s = s[24 + ln:]
        if cmd == b"pong":
            n = next((k for k in range(0, 64) if w.nonce(k) == payload), 99)
            out.append({"cmd": "pong", "n": n, "pr": []})
        elif cmd == b"getdata":
            cnt = payload[0]
            items, p = [], 1
            for _ in range(cnt):
                typ = int.from_bytes(payload[p:p + 4], "little")
                ident = payload[p + 4:p + 36][::-1]
                p += 36
                items.append(next((b for b, h in w.bhash.items() if h == ident and typ == 3), 99))
            out.append({"cmd": "getdata", "n": 0, "pr": items if p == len(payload) else [98]})
        else:
            out.append({"cmd": cmd.decode(), "n": 0, "pr": []})
    return out


ERR = {"Connection reset!": "eof", "Wrong block sent": "wrong-block", "Merkle Proof is invalid": "invalid-proof"}


def run_node(w, op, inbox):
    from buidl.network import SimpleNode, VerAckMessage, PingMessage, PongMessage
    from buidl.merkleblock import MerkleBlock
    from buidl.tx import Tx
    classes = {"verack": VerAckMessage, "ping": PingMessage, "pong": PongMessage, "tx": Tx, "merkleblock": MerkleBlock}
    wires = [w.wire(m) for m in inbox]
    node = SimpleNode.__new__(SimpleNode)
    node.network, node.logging = "mainnet", False
    node.socket = FakeSocket()
    node.stream = io.BytesIO(b"".join(wires))
    rec = {"status": "returned", "err": "", "ret": {"cmd": "none", "n": 0, "ok": True, "pr": []}, "results": []}
    try:
        if op["kind"] == "handshake":
            node.handshake()
            r = None
            rec["ret"] = {"cmd": "verack", "n": 0, "ok": True, "pr": []}    # handshake returns nothing; the awaited message is verack
        elif op["kind"] == "waitfor":
            r = node.wait_for(*[classes[c] for c in op["want"]])
            rec["ret"] = abstract(w, r)
        else:
            r = node.get_filtered_txs([w.bhash[b] for b in op["blocks"]])
            rec["results"] = [next((t for t, i in w.txid.items() if i == x.hash()), 99) for x in r]
    except RuntimeError as e:
        msg = str(e)
        rec["status"] = "raised"
        rec["err"] = ERR.get(msg, "wrong-tx" if msg.startswith("Wrong tx sent") else "other:" + msg[:40])
    except Exception as e:                                  # noqa: BLE001 - classified, decided by the spec
        rec["status"] = "raised"
        rec["err"] = "other:" + type(e).__name__
    pos = node.stream.tell()
    acc, consumed = 0, 0
    for k, wr in enumerate(wires):
        if acc == pos:
            break
        acc += len(wr)
        consumed = k + 1
    rec["consumed"] = consumed if acc == pos else -1 if pos > acc else 97   # 97: stopped inside an envelope
    try:
        rec["sent"] = parse_sent(w, node.socket.out)
    except AssertionError as e:
        rec["sent"] = [{"cmd": "malformed:" + str(e), "n": 0, "pr": []}]
    return rec


def abstract(w, r):
    from buidl.network import VerAckMessage, PingMessage, PongMessage
    from buidl.merkleblock import MerkleBlock
    from buidl.tx import Tx
    if isinstance(r, VerAckMessage):
        return {"cmd": "verack", "n": 0, "ok": True, "pr": []}
    if isinstance(r, (PingMessage, PongMessage)):
        n = next((k for k in range(64) if w.nonce(k) == r.nonce), 99)
        return {"cmd": "ping" if isinstance(r, PingMessage) else "pong", "n": n, "ok": True, "pr": []}
    if isinstance(r, Tx):
        return {"cmd": "tx", "n": next((t for t, i in w.txid.items() if i == r.hash()), 99), "ok": True, "pr": []}
    if isinstance(r, MerkleBlock):
        b = next((b for b, h in w.bhash.items() if h == r.hash()), 99)
        v = outcome(r.is_valid)
        ok = v == ("ok", True)
        pr = [next((t for t, i in w.txid.items() if i == x), 99) for x in r.proved_txs()] if ok else None
        return {"cmd": "merkleblock", "n": b, "ok": ok, "pr": pr}
    return {"cmd": "unknown:" + type(r).__name__, "n": 0, "ok": True, "pr": []}


def same_msg(a, b):
    """returned message vs the spec's: for an invalid proof the proved list is not observable"""
    if a["cmd"] != b["cmd"] or a["n"] != b["n"] or a["ok"] != b["ok"]:
        return False
    return a["pr"] is None or list(a["pr"]) == list(b["pr"])


def run(ctx):
    ctx.level = "model_checking"
    ctx.rule = ("a replayed or recorded run is non-trivial when the node consumed at least one envelope; distinct by "
                "(call kind, awaited set / block list, status, error, number of auto-replies, consumed count)")
    ctx.trusted += ["Node.tla as the statement of SimpleNode's intended protocol behaviour",
                    "the harness' concretisation of abstract messages into envelope bytes (headers, BIP37 proofs, transactions)"]
    ctx.assumptions += ["the peer is a finite script; socket errors other than end of stream are not modelled",
                        "wait_for(VersionMessage) is outside the API's domain (VersionMessage has no parse)"]
    quick = ctx.quick
    maxin_mc = "3" if quick else "4"
    maxin_tab = "2" if quick else "3"
    if ctx.want("mc"):
        r = ctx.mc_expect_ok("p2p/MC_Node.tla", "MC_Node.cfg", what="SimpleNode machine, MAXIN=" + maxin_mc,
                             env={"MAXIN": maxin_mc}, timeout=7200)
        ctx.exhaustive.append("every (API call of 9, peer script of <= %s messages over 14) : %d states" % (maxin_mc, r.distinct))
    w = World(3, {1: [1, 2], 2: [3]})
    if ctx.want("table"):
        rows = ctx.table("p2p/NodeTable.tla", "NodeTable.cfg", env={"MAXIN": maxin_tab}, timeout=7200)
        ctx.exhaustive.append("outcome table replayed for every script of <= %s messages: %d rows" % (maxin_tab, len(rows)))
        for row in rows:
            op, inbox, exp = row["op"], list(row["inbox"]), row["out"]
            inbox = [dict(m, pr=list(m["pr"])) for m in inbox]
            got = run_node(w, dict(op, want=list(op["want"]), blocks=list(op["blocks"])), inbox)
            ctx.traces += 1
            why = ""
            if got["status"] != exp["status"]:
                why = "status"
            elif got["err"] != exp["err"]:
                why = "error-kind"
            elif got["sent"] != [dict(cmd=s["cmd"], n=s["n"], pr=list(s["pr"])) for s in exp["sent"]]:
                why = "messages-sent"
            elif got["consumed"] != exp["consumed"]:
                why = "envelopes-consumed"
            elif exp["status"] == "returned" and op["kind"] != "filtered" and not same_msg(got["ret"], dict(exp["ret"], pr=list(exp["ret"]["pr"]))):
                why = "returned-message"
            elif exp["status"] == "returned" and op["kind"] == "filtered" and got["results"] != list(exp["results"]):
                why = "filtered-results"
            if got["consumed"] > 0:
                ctx.nontriv(("t", op["kind"], tuple(op["want"]), tuple(op["blocks"]), got["status"], got["err"], len(got["sent"]), got["consumed"]))
            if why:
                ctx.violation("node-replay:%s:%s" % (op["kind"], why),
                              "SimpleNode disagrees with Node.tla on %s for call %s and peer script %s:\n expected %s\n got %s"
                              % (why, op, inbox, exp, got), {"kind": "node-replay", "op": op, "inbox": inbox, "expected": exp, "got": got})
        ctx.sample("call %s on script %s -> %s" % (rows[-1]["op"], rows[-1]["inbox"], rows[-1]["out"]["status"]))
    if ctx.want("cases"):
        rnd = random.Random(ctx.seed)
        w2 = World(9, {1: [1, 2, 3], 2: [4], 3: [5, 6, 7, 8], 4: [9]})

        def rmsg():
            k = rnd.random()
            if k < 0.10:
                return {"cmd": "version", "n": 0, "ok": True, "pr": []}
            if k < 0.18:
                return {"cmd": "verack", "n": 0, "ok": True, "pr": []}
            if k < 0.24:
                return {"cmd": "other", "n": 0, "ok": True, "pr": []}
            if k < 0.38:
                return {"cmd": rnd.choice(["ping", "pong"]), "n": rnd.randrange(1, 40), "ok": True, "pr": []}
            if k < 0.62:
                return {"cmd": "tx", "n": rnd.randrange(1, 10), "ok": True, "pr": []}
            b = rnd.randrange(1, 5)
            txs = w2.blocks[b]
            pr = [t for t in txs if rnd.random() < 0.6]
            return {"cmd": "merkleblock", "n": b, "ok": rnd.random() < 0.85, "pr": pr}

        def honest(blocks):
            """a peer that answers get_filtered_txs properly, with noise in between"""
            ms = []
            for b in blocks:
                pr = [t for t in w2.blocks[b] if rnd.random() < 0.7]
                ms.append({"cmd": "merkleblock", "n": b, "ok": True, "pr": pr})
                for t in pr:
                    if rnd.random() < 0.3:
                        ms.append(rnd.choice([{"cmd": "ping", "n": rnd.randrange(1, 40), "ok": True, "pr": []},
                                              {"cmd": "other", "n": 0, "ok": True, "pr": []},
                                              {"cmd": "version", "n": 0, "ok": True, "pr": []}]))
                    ms.append({"cmd": "tx", "n": t, "ok": True, "pr": []})
            return ms
        n = 600 if quick else 6000
        cases = []
        for k in range(n):
            kind = rnd.choice(["handshake", "waitfor", "filtered", "filtered"])
            if kind == "filtered":
                blocks = [rnd.randrange(1, 5) for _ in range(rnd.randrange(0, 4))]
                op = {"kind": kind, "want": [], "blocks": blocks}
                if rnd.random() < 0.6:
                    inbox = honest(blocks)
                    if rnd.random() < 0.4 and inbox:        # one disturbance of an honest answer
                        j = rnd.randrange(len(inbox))
                        inbox = inbox[:j] + ([rmsg()] if rnd.random() < 0.5 else []) + inbox[j + (rnd.random() < 0.5):]
                else:
                    inbox = [rmsg() for _ in range(rnd.randrange(0, 13))]
            else:
                want = [] if kind == "handshake" else sorted(rnd.sample(["verack", "ping", "pong", "tx", "merkleblock"], rnd.randrange(1, 4)))
                op = {"kind": kind, "want": want, "blocks": []}
                inbox = [rmsg() for _ in range(rnd.randrange(0, 13))]
            got = run_node(w2, op, inbox)
            ret = got["ret"]
            if ret["pr"] is None:                            # invalid proof returned by wait_for: proved list unobservable
                ret = dict(ret, pr=next((m["pr"] for m in inbox[got["consumed"] - 1:got["consumed"]]), []))
            cases.append({"id": "n%d" % k, "op": op, "inbox": inbox, "status": got["status"], "err": got["err"], "sent": got["sent"],
                          "consumed": got["consumed"], "ret": ret, "results": got["results"]})
            if got["consumed"] > 0:
                ctx.nontriv(("c", kind, got["status"], got["err"], len(got["sent"]), min(got["consumed"], 6)))
        bad = ctx.validate("p2p/NodeCases.tla", cases, "NodeCases.cfg", per_shard_min=100)
        byid = {c["id"]: c for c in cases}
        for cid, why in bad.items():
            c = byid[cid]
            ctx.violation("node-run:%s:%s" % (c["op"]["kind"], why.split(":")[0]),
                          "recorded SimpleNode run is not a behaviour of Node.tla (%s): call %s, script %s, recorded %s"
                          % (why, c["op"], c["inbox"], {k: c[k] for k in ("status", "err", "sent", "consumed", "ret", "results")}),
                          {"kind": "node-run", "case": c, "why": why})
        ctx.sample("recorded run %s" % {k: cases[0][k] for k in ("op", "status", "err", "consumed")})
