"""X03 — a wsh(sortedmulti) wallet end to end (specs/wallet/Wallet.tla): descriptor -> addresses -> coins -> PSBT -> review
summary -> signatures in some order -> finalise -> extract -> verify.  Each listed property treats one of these modules; this
specification composes them and is bound to the code by replaying every scenario of the bounded model.

(C) MC_Wallet: the coordinator's machine (Receive / Create / Sign / Finalize): a spend becomes final only with M signers and is
    refused with fewer; only the wallet's own coins are spent.
(A) every admissible scenario (which coins exist, which are spent, change address or none, every ordered selection of distinct
    signers) is concretised: key records from HD seeds, P2WSHSortedMulti descriptor, coins paid to descriptor.get_address(...),
    PSBT.create from lookups the harness derives independently from the cosigners' keys, describe_basic_multisig, sign in the
    given order (each signer on his own copy, combined), finalize, final_tx, verify_input.  Expected: built and valid iff
    >= M signers, change labelled change and the outside output not, fee = inputs - outputs.
"""
import contextlib
import io
import random

from ..core import outcome


class W:
    def __init__(self, rng, n, m):
        from buidl import hd
        from buidl.descriptor import P2WSHSortedMulti
        self.n, self.m = n, m
        self.roots = [hd.HDPrivateKey.from_seed(bytes(rng.randrange(256) for _ in range(32)), network="testnet") for _ in range(n)]
        self.base = "m/48'/1'/0'/2'"
        recs = []
        for r in self.roots:
            recs.append({"xfp": r.fingerprint().hex(), "path": self.base, "xpub_parent": r.traverse(self.base).xpub(), "account_index": 0})
        rng.shuffle(recs)
        self.desc = P2WSHSortedMulti(m, recs)
        self._own, self._addr = {}, {}

    def path(self, addr):
        return "%s/%d/%d" % (self.base, addr[0], addr[1])


def run_scenario(w, sc, rng):
    from buidl.psbt import PSBT, NamedHDPublicKey
    from buidl.tx import Tx, TxIn, TxOut
    from buidl.script import WitnessScript, P2WPKHScriptPubKey, address_to_script_pubkey
    n, m = w.n, w.m
    pubkey_lookup, witness_lookup, tx_lookup = {}, {}, {}

    def own(addr):
        """independently of descriptor.py: the witness script of the wallet at <<branch, index>> from the cosigners' private roots"""
        if addr not in w._own:
            w._own[addr] = [NamedHDPublicKey.from_hd_priv(r, w.path(addr)) for r in w.roots]
        named = w._own[addr]
        for nm in named:
            pubkey_lookup[nm.sec()] = nm
        ws = WitnessScript([0x50 + m] + sorted(nm.sec() for nm in named) + [0x50 + n, 174])
        witness_lookup[ws.sha256()] = ws
        return ws
    coins = [tuple(a) for a in sc["coins"]]
    amounts = {a: 50000 + 1000 * k + rng.randrange(500) for k, a in enumerate(coins)}
    # coins are paid to the addresses the DESCRIPTOR gives out
    outs_prev = []
    for a in coins:
        text = w._addr.setdefault(a, w.desc.get_address(a[1], is_change=bool(a[0])))
        outs_prev.append(TxOut(amounts[a], address_to_script_pubkey(text)))
        own(a)
    prev = Tx(1, [TxIn(bytes(rng.randrange(256) for _ in range(32)), 0)], outs_prev, 0, network="testnet")
    tx_lookup[prev.hash()] = prev
    spent = [tuple(a) for a in sc["ins"]]
    tins = [TxIn(prev.hash(), coins.index(a)) for a in spent]
    total_in = sum(amounts[a] for a in spent)
    touts = [TxOut(total_in // 3, P2WPKHScriptPubKey(bytes(rng.randrange(256) for _ in range(20))))]
    if sc["change"]:
        ca = tuple(sc["change"][0])
        touts.append(TxOut(total_in // 2, address_to_script_pubkey(w._addr.setdefault(ca, w.desc.get_address(ca[1], is_change=bool(ca[0]))))))
        own(ca)
    tx = Tx(2, tins, touts, 0, network="testnet", segwit=True)
    hd_pubs = {}
    for r in w.roots:
        nh = NamedHDPublicKey.from_hd_priv(r, w.base)
        hd_pubs[nh.raw_serialize()] = nh
    rec = {"created": False, "summarised": False, "is_change": [], "fee_ok": False, "final": False, "valid": False, "why": ""}
    ps = outcome(PSBT.create, tx, True, tx_lookup, pubkey_lookup, {}, witness_lookup, hd_pubs)
    if ps[0] != "ok":
        rec["why"] = "PSBT.create raised " + str(ps[1])
        return rec
    rec["created"] = True
    base_raw = ps[1].serialize()
    hdmap = {r.fingerprint().hex(): r.traverse(w.base).pub for r in w.roots}
    with contextlib.redirect_stdout(io.StringIO()):
        d = outcome(PSBT.parse(io.BytesIO(base_raw), network="testnet").describe_basic_multisig, hdmap)
    if d[0] == "ok":
        rec["summarised"] = True
        rec["is_change"] = [bool(o["is_change"]) for o in d[1]["outputs_desc"]]
        rec["fee_ok"] = d[1]["tx_fee_sats"] == total_in - sum(o.amount for o in touts) and d[1]["spend_sats"] + d[1]["change_sats"] + d[1]["tx_fee_sats"] == total_in
    else:
        rec["why"] = "describe raised " + str(d[1])
    # every signer signs his own copy, copies are combined in the signing order
    acc = PSBT.parse(io.BytesIO(base_raw), network="testnet")
    for k in sc["signed"]:
        c = PSBT.parse(io.BytesIO(base_raw), network="testnet")
        s_ = outcome(c.sign, w.roots[k - 1])
        if s_[0] != "ok":
            rec["why"] = "sign raised " + str(s_[1])
            return rec
        acc.combine(c)
    with contextlib.redirect_stdout(io.StringIO()):
        fz = outcome(acc.finalize)
        ftx = outcome(acc.final_tx) if fz[0] == "ok" else ("raise", None)
    if ftx[0] == "ok":
        rec["final"] = True
        t = ftx[1]
        for k_, ti in enumerate(t.tx_ins):
            ti._value = amounts[spent[k_]]
            ti._script_pubkey = prev.tx_outs[coins.index(spent[k_])].script_pubkey
        rec["valid"] = all(outcome(t.verify_input, k_) == ("ok", True) for k_ in range(len(t.tx_ins)))
    return rec


def run(ctx):
    ctx.level = "model_checking"
    ctx.rule = ("a scenario = (coins, spent coins, change address or none, ordered signers); distinct by (m-of-n, number of inputs, change branch, "
                "number of signers, outcome)")
    ctx.trusted += ["Wallet.tla as the statement of the coordinator's flow", "witness scripts the harness derives from the cosigners' private roots (not from descriptor.py)"]
    q = ctx.quick
    rng = random.Random(ctx.seed)
    combos = [(3, 2)] if q else [(2, 1), (2, 2), (3, 2), (3, 3)]
    for (n, m) in combos:
        cfg = "%s/wallet_%d%d.cfg" % (ctx.tmp, n, m)
        with open(cfg, "w") as f:
            f.write("SPECIFICATION Spec\nCONSTANTS\n  N = %d\n  M = %d\n  Addrs <- MCAddrs\nINVARIANT QuorumNeeded\nINVARIANT NoSpendWithoutQuorum\nINVARIANT OnlyOwnCoins\nINVARIANT TerminalAgrees\n" % (n, m))
        rows = ctx.table("wallet/MC_Wallet.tla", cfg, env={"EXPORT": "1"}, workers=2)
        ctx.exhaustive.append("MC_Wallet %d-of-%d: the coordinator machine and %d admissible scenarios" % (m, n, len(rows)))
        if not ctx.want("cases"):
            continue
        w = W(rng, n, m)
        rows = sorted(rows, key=lambda r: (str(r["coins"]), str(r["ins"]), str(r["change"]), str(r["signed"])))
        if q:
            rows = [r for k, r in enumerate(rows) if k % 6 == ctx.seed % 6]
        for r in rows:
            sc = {"coins": [list(a) for a in r["coins"]], "ins": [list(a) for a in r["ins"]], "change": [list(a) for a in r["change"]], "signed": list(r["signed"])}
            got = outcome(run_scenario, w, sc, rng)
            exp = r["expect"]
            ctx.traces += 1
            key = (n, m, len(sc["ins"]), sc["change"][0][0] if sc["change"] else "none", len(sc["signed"]))
            if got[0] != "ok":
                ctx.violation("wallet:flow-raises:%s" % got[1], "scenario %s (%d-of-%d): the flow raised %s" % (sc, m, n, got[1]), {"kind": "wallet", "scenario": sc})
                continue
            g = got[1]
            ctx.nontriv(key + (g["final"],))
            why = ""
            if not g["created"]:
                why = "psbt-not-created-for-own-coins"
            elif not g["summarised"]:
                why = "honest-psbt-not-summarised"
            elif g["is_change"] != list(exp["is_change"]):
                why = "change-flags-differ"
            elif not g["fee_ok"]:
                why = "value-not-conserved-in-summary"
            elif g["final"] != exp["final"]:
                why = "finalised-with-fewer-than-m-signers" if g["final"] else "quorum-signed-but-not-finalised"
            elif g["valid"] != exp["valid"]:
                why = "final-transaction-does-not-verify" if exp["valid"] else "transaction-verifies-without-quorum"
            if why:
                ctx.violation("wallet:%s" % why, "scenario %s (%d-of-%d): %s; observed %s, model expects %s" % (sc, m, n, why, g, dict(exp)), {"kind": "wallet", "scenario": sc, "observed": g})
        ctx.sample({"scenario": rows[len(rows) // 2]})
