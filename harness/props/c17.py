"""C17 — Merkle roots, SPV proofs, proof-of-work (specs/merkle/*).

(C) MC_Merkle: with free-constructor hashes, for every block size up to NMAX and every match subset the BIP37 proof built
    by the specification's prover validates and yields exactly the matched ids; an adversary submitting any flags/hashes
    from the tree's node hashes and a foreign value never gets a non-leaf id proved against the true root.
(A) every exported proof is concretised (hash terms evaluated with hashlib) and replayed through MerkleBlock.is_valid /
    proved_txs; sampled bigger trees (up to 5000 leaves in the thorough tier) use the same prover in the harness.
(B) merkle_root calls with certified rows; every single-bit alteration of hashes / flags / count / root and dropped or
    extra hashes of sampled proofs; bits<->target, check_pow, retargeting across the clamps; header chains.
"""
import io
import random

from ..core import B, outcome, eval_term, hash_prim
from .c03 import le


def h256(b):
    return hash_prim("hash256", b)


def py_levels(leaves):
    lv = [list(leaves)]
    while len(lv[-1]) > 1:
        cur = lv[-1]
        lv.append([h256(cur[i] + (cur[i + 1] if i + 1 < len(cur) else cur[i])) for i in range(0, len(cur), 2)])
    return lv[::-1]        # root level first


def py_proof(leaves, matches):
    """BIP37 prover for big trees (mirrors Merkle.Build; validated against TLC's exported proofs for n <= NMAX)"""
    lv = py_levels(leaves)
    depth = len(lv) - 1
    flags, hashes = [], []
    ms = set(matches)

    def rec(d, i):
        span = 1 << (depth - d)
        par = any((i * span) <= m < ((i + 1) * span) for m in ms)
        flags.append(1 if par else 0)
        if d == depth or not par:
            hashes.append(lv[d][i])
            return
        rec(d + 1, 2 * i)
        if 2 * i + 1 < len(lv[d + 1]):
            rec(d + 1, 2 * i + 1)
    rec(0, 0)
    return flags, hashes, lv[0][0]


def flag_bytes(bits):
    out = bytearray((len(bits) + 7) // 8)
    for k, b in enumerate(bits):
        if b:
            out[k // 8] |= 1 << (k % 8)
    return bytes(out)


def run_merkleblock(total, hashes_be, flags_bytes, root_le):   # hashes in wire (internal) byte order
    """through MerkleBlock.parse + is_valid + proved_txs on the wire bytes"""
    from buidl.merkleblock import MerkleBlock
    from buidl.helper import encode_varint
    header = (1).to_bytes(4, "little") + b"\x00" * 32 + root_le + (0).to_bytes(4, "little") + b"\xff\xff\x00\x1d" + b"\x00" * 4
    raw = header + total.to_bytes(4, "little") + encode_varint(len(hashes_be)) + b"".join(hashes_be) + encode_varint(len(flags_bytes)) + flags_bytes
    mb = outcome(MerkleBlock.parse, io.BytesIO(raw))
    if mb[0] != "ok":
        return False, []
    v = outcome(mb[1].is_valid)
    if v != ("ok", True):
        return False, []
    return True, [bytes(x) for x in mb[1].proved_txs()]


def run_merkleblock_inplace(honest, trials):
    """one MerkleBlock object, validated first with the honest proof, then given every altered proof in turn by assigning its
    fields (taken from a parse of the altered wire bytes) and asked again; the honest fields go back in between"""
    from buidl.merkleblock import MerkleBlock
    from buidl.helper import encode_varint

    def wire(total, hashes_be, flags_bytes, root_le):
        header = (1).to_bytes(4, "little") + b"\x00" * 32 + root_le + (0).to_bytes(4, "little") + b"\xff\xff\x00\x1d" + b"\x00" * 4
        return header + total.to_bytes(4, "little") + encode_varint(len(hashes_be)) + b"".join(hashes_be) + encode_varint(len(flags_bytes)) + flags_bytes

    def put(dst, src):
        dst.total, dst.hashes, dst.flags = src.total, list(src.hashes), src.flags
        dst.header.merkle_root = src.header.merkle_root

    def ask(mb):
        v = outcome(mb.is_valid)
        return (True, [bytes(x) for x in mb.proved_txs()]) if v == ("ok", True) else (False, [])
    mb = MerkleBlock.parse(io.BytesIO(wire(*honest)))
    first = ask(mb)
    res, honest_again = [], []
    for tr in trials:
        alt = outcome(MerkleBlock.parse, io.BytesIO(wire(*tr)))
        if alt[0] != "ok":
            res.append(None)
            continue
        put(mb, alt[1])
        res.append(ask(mb))
        put(mb, MerkleBlock.parse(io.BytesIO(wire(*honest))))
        honest_again.append(ask(mb))
    return first, res, honest_again


def run(ctx):
    from buidl import helper as H
    from buidl.block import Block
    from buidl.network import HeadersMessage
    rng = random.Random(ctx.seed)
    q = ctx.quick
    ctx.rule = ("cases = every (n, match subset) proof exported by TLC replayed through MerkleBlock, plus altered proofs, merkle roots, bits/target/"
                "retarget values, headers and header chains decided by TLC; distinct = (n, number of matches), alteration kind x outcome, exponent classes")
    ctx.assumptions = ["hash256 certified with hashlib", "proofs of trees above NMAX leaves come from the harness prover, which is checked against every TLC-exported proof",
                       "a proof that lies about the transaction count so that interior nodes pose as leaves (inherent to BIP37) is only reported if it arises from a single-bit alteration"]
    nmax = 7 if q else 10
    rows = []
    if ctx.want("mc"):
        rows = ctx.table("merkle/MC_Merkle.tla", "MC_Merkle.cfg", workers=8, timeout=7200,
                         env={"NMAX": nmax, "EXPORT": 1, "ADVN": 3 if q else 4, "ADVFLAGS": 5 if q else 6, "ADVHASHES": 3})
        ctx.exhaustive.append("MC_Merkle: all n <= %d x all match subsets (%d proofs): Verify(Build) = matches; adversary over n=%d" % (nmax, len(rows), 3 if q else 4))
        n_ = 0
        for r in rows:
            hashes = [eval_term(x) for x in r["hashes"]]
            root = eval_term(r["root"])
            leaves = [bytes([k]) + bytes([(37 * k) % 251]) * 31 for k in range(1, r["n"] + 1)]
            valid, proved = run_merkleblock(r["n"], list(hashes), flag_bytes(r["flags"]), root)
            want = [leaves[m - 1][::-1] for m in r["ms"]]
            n_ += 1
            ctx.nontriv(("proof", r["n"], len(r["ms"])))
            # harness prover agrees with the specification's
            f2, h2, r2 = py_proof(leaves, [m - 1 for m in r["ms"]])
            if (f2, h2, r2) != (r["flags"], hashes, root):
                raise Exception("harness prover disagrees with Merkle.Build for n=%d ms=%s" % (r["n"], r["ms"]))
            if not valid or proved != want:
                ctx.violation("proof-replay:%s" % ("rejected" if not valid else "wrong-ids"), "n=%d matches=%s: is_valid=%s proved=%s expected %s"
                              % (r["n"], r["ms"], valid, [p.hex()[:8] for p in proved], [w.hex()[:8] for w in want]), {"kind": "proof-row", "row": {k: v for k, v in r.items() if k not in ("hashes", "root")}})
        ctx.evaluations += n_
        ctx.traces += n_
        if rows:
            ctx.sample({"proof_row": {k: rows[len(rows) // 2][k] for k in ("n", "ms", "flags")}})
    if not ctx.want("cases"):
        return
    cases = []

    def rb(n):
        return bytes(rng.randrange(256) for _ in range(n))
    # merkle roots
    for i, n in enumerate([1, 2, 3, 4, 5, 7, 8, 9, 16, 17, 31, 33] + ([100, 257] if not q else [])):
        txids = [rb(32) for _ in range(n)]
        arg = list(txids)
        r = outcome(H.merkle_root, arg)
        hr = []
        for lvl in py_levels(txids)[1:]:
            pass
        lv = [list(txids)]
        while len(lv[-1]) > 1:
            cur = lv[-1]
            nxt = []
            for k in range(0, len(cur), 2):
                pair = cur[k] + (cur[k + 1] if k + 1 < len(cur) else cur[k])
                hr.append({"fn": "hash256", "in": B(pair), "out": B(h256(pair))})
                nxt.append(h256(pair))
            lv.append(nxt)
        cases.append({"id": "r%d" % i, "kind": "root", "txids": [B(t) for t in txids], "res": r[0], "root": B(r[1]) if r[0] == "ok" else [], "hr": hr})
        ctx.nontriv(("root", n))
    # bigger trees and alterations
    sizes = [5, 8, 13, 64, 100] + ([1000, 3519, 4166, 4167, 4999, 5000] if not q else [257, 4167, 5000])
    for i, n in enumerate(sizes):
        leaves = [rb(32) for _ in range(n)]
        for rep in range(2 if n <= 100 else 1):
            km = rng.choice([0, 1, 2, 3, n // 2, n])
            ms = sorted(rng.sample(range(n), min(km, n)))
            flags, hashes, root = py_proof(leaves, ms)
            expect = [leaves[m][::-1] for m in ms]
            txids_be = [x[::-1] for x in leaves]
            fb = flag_bytes(flags)
            trials = [("none", n, hashes, fb, root)]
            if n <= 100:
                for hi in range(len(hashes)):
                    bit = rng.randrange(256)
                    hh = bytearray(hashes[hi]); hh[bit // 8] ^= 1 << (bit % 8)
                    trials.append(("hash-bit", n, hashes[:hi] + [bytes(hh)] + hashes[hi + 1:], fb, root))
                for bit in range(len(fb) * 8):
                    f2 = bytearray(fb); f2[bit // 8] ^= 1 << (bit % 8)
                    trials.append(("flag-bit", n, hashes, bytes(f2), root))
                for bit in range(14):
                    if (n ^ (1 << bit)) > 0:
                        trials.append(("count-bit", n ^ (1 << bit), hashes, fb, root))
                for bit in rng.sample(range(256), 8):
                    r2 = bytearray(root); r2[bit // 8] ^= 1 << (bit % 8)
                    trials.append(("root-bit", n, hashes, fb, bytes(r2)))
                if hashes:
                    trials.append(("drop-hash", n, hashes[:-1], fb, root))
                trials.append(("extra-hash", n, hashes + [rb(32)], fb, root))
            if n <= 100:
                # the same alterations on ONE object that has validated the honest proof before (fields assigned in place)
                first, res, again = run_merkleblock_inplace((n, list(hashes), fb, root), [(t_, list(h_), f_, r_) for (_, t_, h_, f_, r_) in trials[1:]])
                txs = [B(t) for t in txids_be]
                for j, (valid, proved) in enumerate([first] + again):
                    cases.append({"id": "ai%d.%d.h%d" % (i, rep, j), "kind": "altered", "alter": "none", "valid": valid, "txids": txs, "proved": [B(p) for p in proved], "expect": [B(p) for p in expect]})
                for j, r_ in enumerate(res):
                    if r_ is not None:
                        cases.append({"id": "ai%d.%d.%d" % (i, rep, j), "kind": "altered", "alter": trials[j + 1][0], "valid": r_[0], "txids": txs, "proved": [B(p) for p in r_[1]], "expect": [B(p) for p in expect]})
                        ctx.nontriv(("altered-in-place", trials[j + 1][0], r_[0]))
            for j, (alter, total, hs, fbytes, rt) in enumerate(trials):
                valid, proved = run_merkleblock(total, list(hs), fbytes, rt)
                big = n > 300
                cases.append({"id": "a%d.%d.%d.%s" % (i, rep, j, alter), "kind": "altered", "alter": alter, "valid": valid,
                              "txids": [B(t) for t in txids_be] if not big else [B(p) for p in expect], "proved": [B(p) for p in proved], "expect": [B(p) for p in expect]})
                ctx.nontriv(("altered", alter, valid, n if n > 300 else "small"))
    # bits / target / retarget
    exps = list(range(1, 33)) if not q else [1, 2, 3, 4, 5, 0x1c, 0x1d, 0x1e, 0x20]
    k = 0
    for e in exps:
        for coef in ([0x000001, 0x7fffff, 0x00ffff, 0x123456, 0x008000] if not q else [0x00ffff, 0x7fffff, 0x123456]):
            bits = coef.to_bytes(3, "little") + bytes([e])
            t = outcome(H.bits_to_target, bits)
            isint = t[0] == "ok" and isinstance(t[1], int)
            back = outcome(H.target_to_bits, t[1]) if isint and t[1] >= 2 ** 16 and t[1] < 2 ** 256 else ("skip", b"")
            dt = rng.choice([1, 302399, 302400, 302401, 1209600, 4838399, 4838400, 4838401, 10 ** 7, rng.randrange(1, 6000000)])
            nb = outcome(H.calculate_new_bits, bits, dt) if isint and 2 ** 24 <= t[1] < 2 ** 250 else ("skip", b"")
            if back[0] == "skip" or nb[0] == "skip":
                if e < 3 or not isint:
                    cases.append({"id": "bt%d" % k, "kind": "bits", "bits": B(bits), "dt": dt, "target_ok": isint, "target": le(t[1]) if isint else [], "back": [], "newbits": [], "only_target": True})
                    k += 1
                continue
            cases.append({"id": "bt%d" % k, "kind": "bits", "bits": B(bits), "dt": dt, "target_ok": isint, "target": le(t[1]), "back": B(back[1]) if back[0] == "ok" else [],
                          "newbits": B(nb[1]) if nb[0] == "ok" else [], "only_target": False})
            ctx.nontriv(("bits", e, dt <= 302400, dt >= 4838400))
            k += 1
    # target_to_bits on arbitrary targets: every byte length x leading byte around the sign bit (a retarget can produce any of them)
    for n in ([3, 4, 5, 16, 28, 29, 31, 32] if q else list(range(3, 33))):
        for lead in (0x01, 0x7f, 0x80, 0x81, 0xff):
            for tail in ("zero", "rnd"):
                t = int.from_bytes(bytes([lead]) + (bytes(n - 1) if tail == "zero" else rb(n - 1)), "big")
                r = outcome(H.target_to_bits, t)
                cases.append({"id": "tb%d.%d.%s" % (n, lead, tail), "kind": "t2b", "target": le(t), "lead": "%02x" % lead, "bits": B(r[1]) if r[0] == "ok" else []})
                ctx.nontriv(("t2b", n, lead))
    # retargets whose result has its leading byte exactly at / around 0x80 (x2 and x4 of 0x40.., 0x20.. coefficients)
    for j, (coef, e, dt) in enumerate([(0x400000, 0x1c, 2419200), (0x200000, 0x1b, 4838400), (0x400001, 0x1a, 2419200), (0x7fffff, 0x1c, 1209601),
                                       (0x404040, 0x10, 2419200), (0x200000, 0x05, 10 ** 7), (0x008000, 0x1c, 302400), (0x010000, 0x1d, 600000)]):
        bits = coef.to_bytes(3, "little") + bytes([e])
        t = H.bits_to_target(bits)
        nb = outcome(H.calculate_new_bits, bits, dt)
        back = outcome(H.target_to_bits, t)
        cases.append({"id": "rt%d" % j, "kind": "bits", "bits": B(bits), "dt": dt, "target_ok": isinstance(t, int), "target": le(t), "back": B(back[1]) if back[0] == "ok" else [],
                      "newbits": B(nb[1]) if nb[0] == "ok" else [], "only_target": False})
        ctx.nontriv(("retarget-sign-boundary", j))
    # the timespans at which the adjustment factor is exactly 1, 1/4 and 4, on encodings that are not a fixed point of the
    # computation: targets above the proof-of-work limit (regtest / signet bits) and non-normalised compact encodings
    for j, hexbits in enumerate(["ffff7f20", "ae77031e", "ff00001c", "2301001a", "ffff001d", "ffff7f1d", "0000011d", "0080001c", "cb04041b"]):
        for dt in (1209600, 302400, 4838400, 1209599):
            bits = bytes.fromhex(hexbits)
            t = H.bits_to_target(bits)
            nb = outcome(H.calculate_new_bits, bits, dt)
            back = outcome(H.target_to_bits, t)
            cases.append({"id": "fx%d.%d" % (j, dt), "kind": "bits", "bits": B(bits), "dt": dt, "target_ok": isinstance(t, int), "target": le(t), "back": B(back[1]) if back[0] == "ok" else [],
                          "newbits": B(nb[1]) if nb[0] == "ok" else [], "only_target": False})
            ctx.nontriv(("retarget-unit-factor", j, dt))
    # timespans far outside the clamps: block timestamps are not monotone, so the 2016-block differential can be zero or negative
    # (clamped to a quarter like every short timespan), and it can be as large as the 32-bit timestamps allow (clamped to four)
    for j, hexbits in enumerate(["ffff001d", "cb04041b", "ae77031e", "2301001a"]):
        for dt in (0, -1, -600, -1209600, -4838400, -(2 ** 31 - 1), 2 ** 31 - 1, 2 ** 30 + 7):
            bits = bytes.fromhex(hexbits)
            t = H.bits_to_target(bits)
            nb = outcome(H.calculate_new_bits, bits, dt)
            back = outcome(H.target_to_bits, t)
            cases.append({"id": "ng%d.%d" % (j, dt), "kind": "bits", "bits": B(bits), "dt": dt, "target_ok": isinstance(t, int), "target": le(t), "back": B(back[1]) if back[0] == "ok" else [],
                          "newbits": B(nb[1]) if nb[0] == "ok" else [], "only_target": False})
            ctx.nontriv(("retarget-far-timespan", j, dt))
    # headers: regtest-difficulty headers mined by the harness, chains with one broken link / one bad pow
    def mine(prev, good=True):
        while True:
            raw = (1).to_bytes(4, "little") + prev[::-1] + rb(32) + rng.randrange(2 ** 32).to_bytes(4, "little") + bytes.fromhex("ffff7f20") + rb(4)
            ok = int.from_bytes(h256(raw), "little") < 0x7fffff * 256 ** (0x20 - 3)
            if ok == good:
                return raw
    for i in range(4 if q else 20):
        raw = mine(rb(32), good=(i % 2 == 0))
        blk = Block.parse_header(io.BytesIO(raw))
        hh, pw = outcome(blk.hash), outcome(blk.check_pow)
        cases.append({"id": "h%d" % i, "kind": "header", "raw": B(raw), "hash": B(hh[1]) if hh[0] == "ok" else [], "pow": pw == ("ok", True), "hr": [{"fn": "hash256", "in": B(raw), "out": B(h256(raw))}]})
        ctx.nontriv(("header", i % 2))
    for i, (ln, breakat, badpow) in enumerate([(1, None, None), (3, None, None), (3, 1, None), (3, None, 0), (3, None, 2), (1, None, 0), (4, 3, None), (2, None, 1)]):
        raws, prev = [], rb(32)
        for k2 in range(ln):
            raw = mine(prev if breakat != k2 else rb(32), good=(badpow != k2))
            raws.append(raw)
            prev = h256(raw)[::-1]
        hm = HeadersMessage([Block.parse_header(io.BytesIO(r_)) for r_ in raws])
        v = outcome(hm.is_valid)
        cases.append({"id": "ch%d" % i, "kind": "chain", "raws": [B(r_) for r_ in raws], "valid": v == ("ok", True), "hr": [{"fn": "hash256", "in": B(r_), "out": B(h256(r_))} for r_ in raws]})
        ctx.nontriv(("chain", ln, breakat, badpow))
    for c in cases:
        c.setdefault("hr", [])
    byid = {c["id"]: c for c in cases}
    send = []
    for c in cases:
        if c["kind"] == "bits" and c.get("only_target"):
            # only the bits -> target clause applies (exponent < 3 or non-integer result)
            c2 = dict(c)
            send.append(c2)
        else:
            send.append(c)
    bad = ctx.validate("merkle/C17Cases.tla", [dict((k, v) for k, v in c.items() if k != "only_target") for c in send if not (c["kind"] == "bits" and c.get("only_target") and c["target_ok"])]
                       , "C17Cases.cfg", timeout=7200, per_shard_min=30)
    for cid, why in bad.items():
        c = byid[cid]
        cls = c.get("alter", "") if c["kind"] == "altered" else ("exp<3" if c["kind"] == "bits" and c["bits"][3] < 3 else "")
        ctx.violation("%s:%s:%s" % (c["kind"], why, cls), "%s case %s: %s" % (c["kind"], cid, why), {"kind": "case", "case": {k: (v if k not in ("txids", "hr") else "...") for k, v in c.items()}})
