"""C13 — MuSig aggregation and k-of-n trees (specs/musig/*).

(C) MuSigToy: the aggregation algebra exactly as MuSigTapScript implements it (coefficients, two-nonce binding, parity
    negations, tweak branch) over a toy curve with hash outputs ranging over small sets: the summed partials always form
    a valid BIP340 signature and all 8 parity branches are exercised.
(B) secp256k1: key sets of 2..5 keys with mixed parities, with and without merkle root: TLC rebuilds coefficients,
    binding factor, challenge and tweak from certified tagged-hash rows and checks the final signature against the
    scalar equation; sessions with a dropped / altered partial must raise; the aggregate key is order independent;
    a second session on the same object with another merkle root; k-of-n trees own exactly the k-subsets and sampled
    leaf spends verify.
"""
import itertools
import random

from ..core import B, outcome, hash_prim
from .c03 import le, N256


def th_row(tag, msg):
    return {"fn": "tag:" + tag, "in": B(msg), "out": B(hash_prim("tag:" + tag, msg))}


def dec(x):
    q, r = divmod(x, N256)
    return {"q": le(q), "r": le(r)}


def session(TR, pecc, ms, privs, msg, root, rng, mutate=None, nonces="random"):
    """one signing session through the library; returns the case for TLC"""
    n = len(privs)
    byx = {p.point.xonly(): p for p in privs}
    xs = sorted(byx)
    secrets_nonce = [(rng.randrange(1, N256), rng.randrange(1, N256)) for _ in range(n)]
    if nonces == "equal-first-two":
        secrets_nonce[1] = (secrets_nonce[0][0], rng.randrange(1, N256))        # two participants happen to pick the same first nonce
    elif nonces == "equal-pairs":
        secrets_nonce[1] = secrets_nonce[0]
    elif nonces == "boundary":
        # first nonces n-1 and 1 cancel (their sum is the point at infinity) while the second nonces do not: the aggregate
        # nonce is still a proper point.  (Nonce sets whose aggregate is itself infinity admit no BIP340 signature at all.)
        edge = [(N256 - 1, 2), (1, 3), (2, N256 - 1), (N256 - 2, 1), (1, 1)]
        secrets_nonce = [edge[j % len(edge)] for j in range(n)]
    pairs = [(k1 * pecc.G, k2 * pecc.G) for k1, k2 in secrets_nonce]
    sums = ms.nonce_sums(pairs)
    r = ms.compute_r(sums, msg)
    partials = []
    for (k1, k2), x in zip(secrets_nonce, xs):
        k = ms.compute_k((k1, k2), sums, msg)
        partials.append(ms.sign(byx[x], k, r, msg, root))
    honest = mutate is None
    if mutate == "drop":
        partials = partials[:-1]
    elif mutate == "alter":
        partials[0] = (partials[0] + 1) % N256
    elif mutate == "dup":
        partials[-1] = partials[0]
    res = outcome(ms.get_signature, sum(partials), r, msg, root)
    P = ms.point
    Q = P.tweaked_key(root) if root else P.even_point()
    L = hash_prim("tag:KeyAgg list", b"".join(xs))
    coefs = [int.from_bytes(hash_prim("tag:KeyAgg coefficient", L + x), "big") for x in xs]
    coefs[1] = 1
    devens = [(N256 - byx[x].secret) if byx[x].point.parity else byx[x].secret for x in xs]
    psum = sum(c * d for c, d in zip(coefs, devens))
    p = psum % N256
    pe = N256 - p if P.parity else p
    hr = [th_row("KeyAgg list", b"".join(xs))] + [th_row("KeyAgg coefficient", L + x) for x in xs]
    if root:
        t = int.from_bytes(hash_prim("tag:TapTweak", P.xonly() + root), "big")
        hr.append(th_row("TapTweak", P.xonly() + root))
        qsum = pe + t
        qv = qsum % N256
        qe = N256 - qv if Q.parity else qv
    else:
        qsum, qe = 0, pe
    sec1, sec2 = [bytes(33) if s_.x is None else s_.sec() for s_ in sums]      # the point at infinity is hashed as 33 zero bytes
    bin_ = sec1 + sec2 + P.xonly() + msg
    b = int.from_bytes(hash_prim("tag:MuSig/noncecoef", bin_), "big")
    hr.append(th_row("MuSig/noncecoef", bin_))
    rsum = sum(k1 + b * k2 for k1, k2 in secrets_nonce)
    rv = rsum % N256
    re = N256 - rv if r.parity else rv
    cin = r.xonly() + Q.xonly() + msg
    e = int.from_bytes(hash_prim("tag:BIP0340/challenge", cin), "big")
    hr.append(th_row("BIP0340/challenge", cin))
    return {"kind": "musig", "honest": honest, "keys": [{"x": B(x), "d": le(byx[x].secret), "odd": bool(byx[x].point.parity)} for x in xs],
            "nonces": [[le(k1), le(k2)] for k1, k2 in secrets_nonce], "dcoef": [dec(c) for c in [int.from_bytes(hash_prim("tag:KeyAgg coefficient", L + x), "big") for x in xs]],
            "dp": dec(psum), "P_odd": bool(P.parity), "Px": B(P.xonly()), "root": B(root), "dq": dec(qsum), "Q_odd": bool(Q.parity), "Qx": B(Q.xonly()),
            "R1sec": B(sec1), "R2sec": B(sec2), "msg": B(msg), "dr": dec(rsum), "R_odd": bool(r.parity), "Rx": B(r.xonly()), "de": dec(e),
            "ds": dec(re + (e % N256) * qe), "hr": hr, "res": res[0], "sig": B(res[1].serialize()) if res[0] == "ok" else [], "mut": mutate or "none", "n": n}


def run(ctx):
    from buidl import taproot as TR
    import buidl.pecc as pecc
    from buidl.ecc import PrivateKey
    from buidl.tx import Tx, TxIn, TxOut
    from buidl.script import Script
    from buidl.witness import Witness
    rng = random.Random(ctx.seed)
    q = ctx.quick
    ctx.rule = ("cases = MuSig sessions (honest, dropped / altered / duplicated partial) and k-of-n trees decided by TLC; distinct = (number of keys, "
                "tweaked, parity of aggregate / nonce / external key, mutation), (k, n, tree kind)")
    ctx.assumptions = ["TapRootMultiSig needs n >= 2 keys: its default internal key is the MuSig aggregate of all n keys, which is undefined for a single key",
                       "aggregate / nonce / external points and their parities are the library's point arithmetic (C03); tagged hashes certified with hashlib"]
    if ctx.want("mc"):
        cfg = "%s/musig.cfg" % ctx.tmp
        with open(cfg, "w") as f:
            f.write("INIT Init\nNEXT Next\nCONSTANTS\n  PP = 7\n  AA = 0\n  BB = 3\n  NN = 13\n  GX = 1\n  GY = 2\n")
        r = ctx.mc("musig/MC_MuSig.tla", cfg, workers=1, timeout=7200)
        ok = '<<"AllOK", TRUE>>' in r.out and '<<"Coverage", TRUE>>' in r.out
        if not ok:
            ctx.violation("spec:MuSigToy", "the aggregation algebra of MuSigToy.tla does not always yield a valid signature or misses a parity branch:\n" + r.out[-1500:], {"kind": "tlc", "spec": "musig/MC_MuSig.tla"})
        ctx.exhaustive.append("MuSigToy: all secrets of the 13-element group x coefficient/nonce/binding/challenge/tweak value sets (~20k flows): AllOK, Coverage of 8 parity branches")
    if not ctx.want("cases"):
        return
    cases = []

    def rb(n):
        return bytes(rng.randrange(256) for _ in range(n))
    sizes = [2, 3, 5] if q else [2, 2, 3, 3, 4, 4, 5, 5]
    seen_par = set()
    for si, n in enumerate(sizes):
        privs = [PrivateKey(rng.randrange(1, N256)) for _ in range(n)]
        ms = TR.MuSigTapScript([p.point for p in privs])
        # order independence of the aggregate key
        perm = list(privs)
        rng.shuffle(perm)
        ms2 = TR.MuSigTapScript([p.point for p in perm[::-1]])
        cases.append({"id": "o%d" % si, "kind": "eq", "a": B(ms.point.sec()), "b": B(ms2.point.sec()), "what": "aggregate-key-depends-on-order"})
        msg = rb(32)
        rootA, rootB = rb(32), rb(32)
        plan = [(b"", None), (rootA, None), (rootB, None), (b"", "drop"), (rootA, "alter"), (rootA, None), (b"", "dup" if n > 2 else "alter")]
        if q:
            plan = plan[:5] if si else plan
        for j, (root, mut) in enumerate(plan):
            c = session(TR, pecc, ms, privs, msg if j % 2 else rb(32), root, rng, mut)
            c["id"] = "s%d.%d" % (si, j)
            cases.append(c)
            ctx.nontriv(("musig", n, bool(root), c["P_odd"], c["R_odd"], c["Q_odd"], c["mut"]))
        # nonce pairs of the quantifier's corners: equal nonces of two participants, nonces 1 and n - 1
        for j, (root, nm) in enumerate([(b"", "equal-first-two"), (rootA, "boundary"), (rootA, "equal-pairs"), (b"", "boundary")][: (2 if q and si else 4)]):
            c = session(TR, pecc, ms, privs, rb(32), root, rng, None, nm)
            c["id"] = "sn%d.%d" % (si, j)
            cases.append(c)
            ctx.nontriv(("musig-nonces", n, bool(root), nm))
    # k-of-n trees
    combos = [(1, 2), (2, 2), (2, 3), (3, 5)] if q else [(k, n) for n in range(2, 6) for k in range(1, n + 1)]
    for (k, n) in combos:
        privs = [PrivateKey(rng.randrange(1, N256)) for _ in range(n)]
        points = [p.point for p in privs]
        trm = TR.TapRootMultiSig(points, k)
        for kind in ("multi_leaf", "musig"):
            if kind == "musig" and k < 2:
                continue
            tree = outcome(trm.multi_leaf_tree if kind == "multi_leaf" else trm.musig_tree)
            if tree[0] != "ok":
                ctx.violation("kofn:tree-raises", "%s tree %d-of-%d: %s" % (kind, k, n, tree), {"kind": "kofn", "k": k, "n": n})
                continue
            leaves = tree[1].leaves()
            subsets = list(itertools.combinations(range(n), k))
            leaf_sets = []
            spends_ok = True
            internal = trm.default_internal_pubkey if n > 1 else points[0]
            root = tree[1].hash()
            tin = tx = None
            for li, sub in enumerate(subsets):
                keys = [points[i] for i in sub]
                if kind == "multi_leaf":
                    ts = TR.MultiSigTapScript(keys, k)
                else:
                    ts = TR.MuSigTapScript(keys)
                leaf = ts.tap_leaf()
                owned = [lf for lf in leaves if lf == leaf]
                leaf_sets.append(sorted(p.xonly() for p in keys) if len(owned) == 1 else [])
                if li in (0, len(subsets) - 1) or (not q and li % 3 == 0):
                    # spend this leaf signed by exactly this subset
                    # one transaction per tree: a later subset spends the same input again after the witness was emptied (a second
                    # attempt with another quorum); what an earlier attempt left on the input must not matter
                    if tin is None:
                        tin = TxIn(rb(32), 0)
                        tin._value = 100000
                        tin._script_pubkey = internal.p2tr_script(root)
                        tx = Tx(2, [tin], [TxOut(90000, Script([0, rb(20)]))], 0, network="signet", segwit=True)
                    else:
                        tin.witness.items = []
                    cb = tree[1].control_block(internal, leaf)
                    if cb is None:
                        spends_ok = False
                        continue
                    if kind == "multi_leaf":
                        tx.initialize_p2tr_multisig(0, cb, ts)
                        sigs = [tx.get_sig_taproot(0, privs[i], ext_flag=1) for i in sub]
                        v = outcome(tx.finalize_p2tr_multisig, 0, sigs)
                    else:
                        tin.witness = Witness([ts.raw_serialize(), cb.serialize()])
                        sh = tx.sig_hash(0, 0)
                        sub_privs = {privs[i].point.xonly(): privs[i] for i in sub}
                        nonce = [ts.generate_nonces() for _ in sub]
                        sums = ts.nonce_sums([p for _, p in nonce])
                        r = ts.compute_r(sums, sh)
                        ssum = 0
                        for (ns, _), x in zip(nonce, sorted(sub_privs)):
                            ssum += ts.sign(sub_privs[x], ts.compute_k(ns, sums, sh), r, sh)
                        sg = outcome(ts.get_signature, ssum, r, sh)
                        if sg[0] != "ok":
                            spends_ok = False
                            continue
                        tin.witness.items.insert(0, sg[1].serialize())
                        import contextlib, io
                        with contextlib.redirect_stdout(io.StringIO()):
                            v = outcome(tx.verify_input, 0)
                    if v != ("ok", True):
                        spends_ok = False
            # leaves as key sets: for multi_leaf the script's keys, for musig the subset that aggregates to the leaf key (by ownership test above)
            cases.append({"id": "k%d.%d.%s" % (k, n, kind), "kind": "kofn", "k": k, "all": [B(p.xonly()) for p in points], "leaves": [[B(x) for x in s] for s in leaf_sets] if len(leaf_sets) == len(leaves) else [[B(b"x")]] * len(leaves),
                          "spends_ok": spends_ok})
            ctx.nontriv(("kofn", k, n, kind))
    for c in cases:
        c.setdefault("hr", [])
    byid = {c["id"]: c for c in cases}
    ctx.sample({k: v for k, v in cases[1].items() if k in ("id", "kind", "honest", "res", "mut", "n")})
    bad = ctx.validate("musig/C13Cases.tla", [{k: v for k, v in c.items() if k not in ("mut", "n")} if c["kind"] == "musig" else c for c in cases], "C13Cases.cfg", timeout=7200, per_shard_min=3)
    for cid, why in bad.items():
        c = byid[cid]
        ctx.violation("%s:%s:%s" % (c["kind"], why, c.get("mut", "")), "%s case %s: %s" % (c["kind"], cid, why), {"kind": "case", "case": {k: v for k, v in c.items() if k != "hr"}})
