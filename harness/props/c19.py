"""C19 — P2P framing and primitive wire codecs (specs/p2p/*).

(C) MC_Envelope: the envelope parser as a state machine over every stream an adversary derives from honest envelopes
    of a small universe (exact, every truncation, every single-byte corruption, trailing bytes, inflated length).
(B) recorded serialize/parse calls: envelopes (all four networks, commands of 0..12 bytes, payloads up to 100 kB in the
    thorough tier), every truncation point and every single-byte corruption of sampled envelopes, compact-size /
    fixed-width integers across every width boundary, and each fixed-layout message; decided by TLC with P2P.tla.
"""
import io
import random

from ..core import B, outcome, hash_prim
from .c03 import le

NETS = ["mainnet", "testnet", "signet", "regtest"]
BOUNDS = [0, 1, 0xFC, 0xFD, 0xFE, 0xFF, 0x100, 0xFFFE, 0xFFFF, 0x10000, 0x10001, 0xFFFFFFFE, 0xFFFFFFFF, 0x100000000, 0x100000001, 2 ** 63, 2 ** 64 - 1]


def row(b):
    return {"fn": "hash256", "in": B(b), "out": B(hash_prim("hash256", b))}


def env_cases(ctx, rng, big):
    from buidl.network import NetworkEnvelope
    cases = []
    sizes = [0, 1, 2, 31, 80, 1000] + ([100000, 65536] if big else [])
    # payloads across the 65535 / 65536 boundary and at the top of the quantifier are part of every run (on two networks)
    bignets = {"mainnet", rng.choice([n for n in NETS if n != "mainnet"])}
    k = 0
    for net in NETS:
        for clen in ([0, 1, 7, 11, 12] if net == "mainnet" else [rng.randrange(0, 13)]):
            cmd = bytes(rng.choice(b"abcdefghijklmnopqrstuvwxyz") for _ in range(clen))
            for size in ((sizes if clen in (7, 12) or net != "mainnet" else [0, 5]) + ([65535, 65536, 65537, 100000] if not big and net in bignets and (clen == 12 or net != "mainnet") else [])):
                payload = bytes(rng.randrange(256) for _ in range(size)) if size <= 1000 else bytes([rng.randrange(256)]) * size
                env = NetworkEnvelope(cmd, payload, network=net)
                ser = outcome(env.serialize)
                k += 1
                cases.append({"id": "es%d" % k, "kind": "envser", "net": net, "cmd": B(cmd), "payload": B(payload), "bytes": B(ser[1]) if ser[0] == "ok" else [], "hr": [row(payload)]})
                ctx.nontriv(("envser", net, clen, size))
                if ser[0] != "ok":
                    continue
                raw = ser[1]
                muts = [("exact", raw)]
                if size <= 80:
                    for cut in range(len(raw)):
                        muts.append(("trunc@%d" % cut, raw[:cut]))
                    for pos in range(len(raw)):
                        muts.append(("flip@%d" % pos, raw[:pos] + bytes([raw[pos] ^ (1 << rng.randrange(8))]) + raw[pos + 1:]))
                    # short payload whose checksum covers exactly the bytes that are there
                    if size >= 1:
                        short = payload[:-1]
                        muts.append(("short-payload-matching-checksum", raw[:20] + hash_prim("hash256", short)[:4] + short))
                    muts.append(("trailing", raw + b"\x00\x01"))
                    muts.append(("other-network", NetworkEnvelope(cmd, payload, network=NETS[(NETS.index(net) + 1) % 4]).serialize()))
                else:
                    muts += [("trunc-last", raw[:-1]), ("flip-last", raw[:-1] + bytes([raw[-1] ^ 1]))]
                for name, stream in muts:
                    got = outcome(NetworkEnvelope.parse, io.BytesIO(stream), net)
                    hr = []
                    if len(stream) >= 24:
                        ln = int.from_bytes(stream[16:20], "little")
                        hr = [row(stream[24:24 + ln])] if ln <= len(stream) else [row(stream[24:])]
                    reser = outcome(got[1].serialize) if got[0] == "ok" else ("raise", b"")
                    c = {"id": "ep%d.%s" % (k, name), "kind": "envparse", "net": net, "stream": B(stream), "hr": hr, "mut": name.split("@")[0],
                         "res": "ok" if got[0] == "ok" else "raise", "cmd": B(got[1].command) if got[0] == "ok" else [], "payload": B(got[1].payload) if got[0] == "ok" else [],
                         "reser": B(reser[1]) if reser[0] == "ok" else [0]}
                    cases.append(c)
                    ctx.nontriv(("envparse", name.split("@")[0], c["res"]))
    return cases


def int_cases(ctx, rng):
    from buidl.helper import encode_varint, read_varint, encode_varstr, read_varstr, int_to_little_endian, little_endian_to_int, int_to_big_endian, big_endian_to_int
    cases = []
    vals = BOUNDS + [rng.randrange(2 ** 64) for _ in range(10)] + [rng.randrange(2 ** 16) for _ in range(5)]
    for i, n in enumerate(vals):
        enc = outcome(encode_varint, n)
        dec = outcome(read_varint, io.BytesIO(enc[1])) if enc[0] == "ok" else ("raise", 0)
        cases.append({"id": "vi%d" % i, "kind": "varint", "n": le(n), "enc": B(enc[1]) if enc[0] == "ok" else [], "dec": le(dec[1]) if dec[0] == "ok" else [255] * 9})
        ctx.nontriv(("varint", n if n in BOUNDS else "rnd"))
        for w in (1, 2, 4, 8, 32):
            if n < 256 ** w:
                l_, b_ = outcome(int_to_little_endian, n, w), outcome(int_to_big_endian, n, w)
                cases.append({"id": "fx%d.%d" % (i, w), "kind": "fixed", "n": le(n), "w": w, "le": B(l_[1]) if l_[0] == "ok" else [], "be": B(b_[1]) if b_[0] == "ok" else [],
                              "le_back": le(little_endian_to_int(l_[1])) if l_[0] == "ok" else [9], "be_back": le(big_endian_to_int(b_[1])) if b_[0] == "ok" else [9]})
    # a value one past the width boundary has no encoding of that width: encoding must refuse, not wrap around
    for w in (1, 2, 4, 8):
        for j2, n in enumerate((256 ** w, 256 ** w + 5, 256 ** (w + 1) - 1)):
            l_, b_ = outcome(int_to_little_endian, n, w), outcome(int_to_big_endian, n, w)
            cases.append({"id": "fo%d.%d" % (w, j2), "kind": "fixed-overflow", "n": le(n), "w": w, "le_ok": l_[0] == "ok", "be_ok": b_[0] == "ok"})
            ctx.nontriv(("fixed-overflow", w))
    for j, ln in enumerate([0, 1, 252, 253, 254, 255, 256, 65535, 65536]):
        s = bytes([j + 1]) * ln
        enc = outcome(encode_varstr, s)
        back = outcome(read_varstr, io.BytesIO(enc[1])) if enc[0] == "ok" else ("raise", b"")
        cases.append({"id": "vs%d" % j, "kind": "varstr", "s": B(s), "enc": B(enc[1]) if enc[0] == "ok" else [], "back": B(back[1]) if back[0] == "ok" else [0]})
        ctx.nontriv(("varstr", ln))
    return cases


def msg_cases(ctx, rng):
    from buidl import network as NW, compactfilter as CF
    from buidl.block import Block
    cases = []

    def rb(n):
        return bytes(rng.randrange(256) for _ in range(n))
    for i in range(6):
        f = {"version": rng.choice([70015, 0, 2 ** 32 - 1, 70016]), "services": rng.choice([0, 1, 2 ** 64 - 1, 1033]), "timestamp": rng.choice([0, 1700000000, 2 ** 63]),
             "receiver_services": rng.choice([0, 2 ** 64 - 1]), "receiver_ip": rb(4), "receiver_port": rng.choice([0, 8333, 65535]),
             "sender_services": rng.choice([0, 5]), "sender_ip": rb(4), "sender_port": rng.choice([1, 18444, 65535]), "nonce": rb(8),
             "user_agent": rb(rng.choice([0, 1, 27, 252, 253, 300])), "latest_block": rng.choice([0, 800000, 2 ** 32 - 1]), "relay": rng.choice([True, False])}
        m = NW.VersionMessage(**f)
        r = outcome(m.serialize)
        jm = {k: (le(v) if isinstance(v, int) and not isinstance(v, bool) else B(v) if isinstance(v, bytes) else v) for k, v in f.items()}
        cases.append({"id": "ver%d" % i, "kind": "version", "m": jm, "bytes": B(r[1]) if r[0] == "ok" else []})
    # one field at a time at its boundary values (0 / empty / False / maximum) around a fixed base message: a default that is
    # substituted for a falsy argument shows exactly there
    base = {"version": 70015, "services": 1033, "timestamp": 1700000000, "receiver_services": 5, "receiver_ip": bytes([10, 0, 0, 1]), "receiver_port": 8333,
            "sender_services": 9, "sender_ip": bytes([192, 168, 1, 2]), "sender_port": 18444, "nonce": bytes(range(1, 9)), "user_agent": b"/x:1/", "latest_block": 800000, "relay": True}
    bounds = {"version": [0, 1, 2 ** 32 - 1], "services": [0, 2 ** 64 - 1], "timestamp": [0, 1], "receiver_services": [0, 2 ** 64 - 1], "receiver_ip": [bytes(4), b"\xff" * 4],
              "receiver_port": [0, 1, 65535], "sender_services": [0, 2 ** 64 - 1], "sender_ip": [bytes(4)], "sender_port": [0, 1, 65535], "nonce": [bytes(8), b"\xff" * 8],
              "user_agent": [b"", b"\x00"], "latest_block": [0, 1, 2 ** 32 - 1], "relay": [False]}
    j = 0
    for field, vals in bounds.items():
        for v in vals:
            f = dict(base)
            f[field] = v
            r = outcome(lambda: NW.VersionMessage(**f).serialize())
            jm = {k: (le(x) if isinstance(x, int) and not isinstance(x, bool) else B(x) if isinstance(x, bytes) else x) for k, x in f.items()}
            cases.append({"id": "verb%d" % j, "kind": "version", "m": jm, "bytes": B(r[1]) if r[0] == "ok" else []})
            ctx.nontriv(("version-boundary", field, j))
            j += 1
    for i, (ver, eb) in enumerate([(0, None), (1, bytes(32)), (2 ** 32 - 1, rb(32)), (70015, b"\x00" * 31 + b"\x01")]):
        sb = rng.choice([bytes(32), rb(32)])
        r = outcome(lambda: NW.GetHeadersMessage(version=ver, num_hashes=1, start_block=sb, end_block=eb).serialize())
        cases.append({"id": "ghb%d" % i, "kind": "getheaders", "m": {"version": le(ver), "num_hashes": le(1), "start_block": B(sb), "end_block": B(eb or b"\x00" * 32)},
                      "bytes": B(r[1]) if r[0] == "ok" else []})
    for i, (ft, sh) in enumerate([(a, b) for a in (0, 1, 255) for b in (0, 1, 2 ** 32 - 1)]):
        st = rng.choice([bytes(32), rb(32)])
        for kind, cls in (("getcfilters", CF.GetCFiltersMessage), ("getcfheaders", CF.GetCFHeadersMessage)):
            r = outcome(lambda: cls(filter_type=ft, start_height=sh, stop_hash=st).serialize())
            cases.append({"id": "%sb%d" % (kind, i), "kind": kind, "m": {"filter_type": ft, "start_height": le(sh), "stop_hash": B(st)}, "bytes": B(r[1]) if r[0] == "ok" else []})
            ctx.nontriv((kind, ft, sh))
        r = outcome(lambda: CF.GetCFCheckPointMessage(filter_type=ft, stop_hash=st).serialize())
        cases.append({"id": "gcpb%d" % i, "kind": "getcfcheckpt", "m": {"filter_type": ft, "stop_hash": B(st)}, "bytes": B(r[1]) if r[0] == "ok" else []})
    for i, nh in enumerate([0, 1, 0xFC, 0xFD, 0xFFFF, 0x10000, 0xFFFFFFFF, 2000]):
        sb, eb = rb(32), rng.choice([None, rb(32)])
        m = NW.GetHeadersMessage(version=rng.choice([70015, 1]), num_hashes=nh, start_block=sb, end_block=eb)
        r = outcome(m.serialize)
        cases.append({"id": "gh%d" % i, "kind": "getheaders", "m": {"version": le(m.version), "num_hashes": le(nh), "start_block": B(sb), "end_block": B(eb or b"\x00" * 32)},
                      "bytes": B(r[1]) if r[0] == "ok" else []})
        ctx.nontriv(("getheaders", nh))
    for i, cnt in enumerate([0, 1, 3, 252, 253]):
        m = NW.GetDataMessage()
        data = []
        for _ in range(cnt):
            t, ident = rng.choice([1, 2, 3, 4, (1 << 30) + 1, (1 << 30) + 2]), rb(32)
            m.add_data(t, ident)
            data.append({"type": le(t), "id": B(ident)})
        r = outcome(m.serialize)
        cases.append({"id": "gd%d" % i, "kind": "getdata", "m": {"data": data}, "bytes": B(r[1]) if r[0] == "ok" else []})
    for i in range(4):
        ft, sh, st = rng.choice([0, 1, 255]), rng.choice([0, 1, 2 ** 32 - 1, 700000]), rb(32)
        for kind, cls in (("getcfilters", CF.GetCFiltersMessage), ("getcfheaders", CF.GetCFHeadersMessage)):
            r = outcome(lambda: cls(filter_type=ft, start_height=sh, stop_hash=st).serialize())
            cases.append({"id": "%s%d" % (kind, i), "kind": kind, "m": {"filter_type": ft, "start_height": le(sh), "stop_hash": B(st)}, "bytes": B(r[1]) if r[0] == "ok" else []})
        r = outcome(lambda: CF.GetCFCheckPointMessage(filter_type=ft, stop_hash=st).serialize())
        cases.append({"id": "gcp%d" % i, "kind": "getcfcheckpt", "m": {"filter_type": ft, "stop_hash": B(st)}, "bytes": B(r[1]) if r[0] == "ok" else []})
    # headers: the harness lays out headers per protocol (TLC checks that layout), the library parses them and re-serialises each
    for i, cnt in enumerate([0, 1, 2, 5]):
        hs = [{"version": rng.choice([1, 2, 0x20000000, 2 ** 32 - 1]), "prev_block": rb(32), "merkle_root": rb(32), "timestamp": rng.choice([0, 1231006505, 2 ** 32 - 1]),
               "bits": rb(4), "nonce": rb(4)} for _ in range(cnt)]
        raw = bytes([cnt]) + b"".join(h["version"].to_bytes(4, "little") + h["prev_block"][::-1] + h["merkle_root"][::-1] + h["timestamp"].to_bytes(4, "little") + h["bits"] + h["nonce"] + b"\x00" for h in hs)
        got = outcome(NW.HeadersMessage.parse, io.BytesIO(raw))
        jh = [{"version": le(h["version"]), "prev_block": B(h["prev_block"]), "merkle_root": B(h["merkle_root"]), "timestamp": le(h["timestamp"]), "bits": B(h["bits"]), "nonce": B(h["nonce"])} for h in hs]
        parsed, reser = [], []
        if got[0] == "ok":
            for b in got[1].headers:
                parsed.append({"version": le(b.version), "prev_block": B(b.prev_block), "merkle_root": B(b.merkle_root), "timestamp": le(b.timestamp), "bits": B(b.bits), "nonce": B(b.nonce)})
                rs = outcome(b.serialize)
                reser.append(B(rs[1]) if rs[0] == "ok" else [])
        cases.append({"id": "hd%d" % i, "kind": "headers", "headers": jh, "bytes": B(raw), "res": "ok" if got[0] == "ok" else "raise", "parsed": parsed, "reser": reser})
        ctx.nontriv(("headers", cnt))
    for cls, name in ((NW.PingMessage, "ping"), (NW.PongMessage, "pong")):
        nonce = rb(8)
        got = outcome(lambda: cls.parse(io.BytesIO(nonce)))
        ser = outcome(lambda: cls(nonce).serialize())
        cases.append({"id": name, "kind": "pingpong", "cls": name, "nonce": B(nonce), "res": "ok" if got[0] == "ok" else "raise",
                      "nonce_back": B(got[1].nonce) if got[0] == "ok" else [], "ser": B(ser[1]) if ser[0] == "ok" else []})
        ctx.nontriv(("pingpong", name))
    # cfilter / cfheaders / cfcheckpt parse
    for i in range(3):
        ft, bh = rng.choice([0, 1]), rb(32)
        fb = CF.encode_gcs(bh[::-1][:16], [rb(rng.randrange(1, 40)) for _ in range(rng.choice([0, 1, 5]))])
        raw = bytes([ft]) + bh[::-1] + bytes([len(fb)]) + fb if len(fb) < 253 else None
        if raw is not None:
            got = outcome(CF.CFilterMessage.parse, io.BytesIO(raw))
            cases.append({"id": "cf%d" % i, "kind": "cfilter", "m": {"filter_type": ft, "block_hash": B(bh), "filter_bytes": B(fb)}, "bytes": B(raw), "res": "ok" if got[0] == "ok" else "raise",
                          "p": {"filter_type": got[1].filter_type, "block_hash": B(got[1].block_hash), "filter_bytes": B(got[1].filter_bytes)} if got[0] == "ok" else {"filter_type": -1, "block_hash": [], "filter_bytes": []}})
        n = rng.choice([0, 1, 4])
        sh, prev, fhs = rb(32), rb(32), [rb(32) for _ in range(n)]
        raw = bytes([ft]) + sh[::-1] + prev + bytes([n]) + b"".join(fhs)
        got = outcome(CF.CFHeadersMessage.parse, io.BytesIO(raw))
        hr, cur = [], prev
        for fh in fhs:
            hr.append(row(fh + cur))
            cur = hash_prim("hash256", fh + cur)
        cases.append({"id": "cfh%d" % i, "kind": "cfheaders", "m": {"filter_type": ft, "stop_hash": B(sh), "previous_filter_header": B(prev), "filter_hashes": [B(x) for x in fhs]}, "bytes": B(raw), "hr": hr,
                      "res": "ok" if got[0] == "ok" else "raise",
                      "p": {"filter_type": got[1].filter_type, "stop_hash": B(got[1].stop_hash), "previous_filter_header": B(got[1].previous_filter_header),
                            "filter_hashes": [B(x) for x in got[1].filter_hashes], "last_header": B(got[1].last_header)} if got[0] == "ok" else
                           {"filter_type": -1, "stop_hash": [], "previous_filter_header": [], "filter_hashes": [], "last_header": []}})
        raw = bytes([ft]) + sh[::-1] + bytes([n]) + b"".join(fhs)
        got = outcome(CF.CFCheckPointMessage.parse, io.BytesIO(raw))
        cases.append({"id": "cfc%d" % i, "kind": "cfcheckpt", "m": {"filter_type": ft, "stop_hash": B(sh), "filter_headers": [B(x) for x in fhs]}, "bytes": B(raw), "res": "ok" if got[0] == "ok" else "raise",
                      "p": {"filter_type": got[1].filter_type, "stop_hash": B(got[1].stop_hash), "filter_headers": [B(x) for x in got[1].filter_headers]} if got[0] == "ok" else
                           {"filter_type": -1, "stop_hash": [], "filter_headers": []}})
    return cases


def run(ctx):
    rng = random.Random(ctx.seed)
    q = ctx.quick
    ctx.rule = ("cases = recorded serialize/parse calls (envelopes incl. every truncation and single-byte corruption of sampled ones, integer "
                "codecs at every width boundary, every fixed-layout message) decided by TLC; distinct = (codec, boundary value / "
                "mutation kind, outcome)")
    ctx.assumptions = ["hash256 rows certified with hashlib", "a corrupted byte inside the zero padding of the command field yields another command and is not covered by any checksum (protocol)"]
    if ctx.want("mc"):
        r = ctx.mc_expect_ok("p2p/MC_Envelope.tla", "MC_Envelope.cfg", what="envelope parser machine vs adversarial streams")
        ctx.exhaustive.append("MC_Envelope: 2 networks x 4 commands x 6 payloads x every truncation / single-byte corruption / trailing / inflated length (%d states)" % r.distinct)
    if ctx.want("cases"):
        cases = []
        for rep in range(1 if q else 12):       # thorough: 12 rounds of the randomised generators (new commands, payloads, flips, field values)
            rnd = env_cases(ctx, rng, (not q) and rep == 0) + int_cases(ctx, rng) + msg_cases(ctx, rng)
            cases += [dict(c, id="r%d.%s" % (rep, c["id"])) for c in rnd]
        for c in cases:
            c.setdefault("hr", [])
        byid = {c["id"]: c for c in cases}
        ctx.sample({k: v for k, v in cases[0].items() if k in ("id", "kind", "net", "cmd")})
        bad = ctx.validate("p2p/C19Cases.tla", [{k: v for k, v in c.items() if k != "mut"} for c in cases], "C19Cases.cfg", timeout=7200, per_shard_min=40)
        for cid, why in bad.items():
            c = byid[cid]
            ctx.violation("%s:%s%s" % (c["kind"], why, (":" + c["mut"]) if "mut" in c and "accepts-invalid" not in why else ""),
                          "%s case %s rejected by P2P.tla: %s" % (c["kind"], cid, why), {"kind": "case", "case": {k: v for k, v in c.items() if k != "hr"}})
