"""C16 — wsh(sortedmulti) descriptors (specs/descriptor/*).

(C) MC_DescChecksum: by linearity of Core's descriptor checksum, every single-symbol error and every pair of symbol
    errors at most 3 positions apart (what one character substitution can cause: its 5-bit symbol plus its class-group
    symbol) is detected, for all value differences, up to a maximal stream length.
(B) random wallets 1 <= m <= n <= 6 (SLIP-132 prefixes, account indexes, both path notations): descriptor text and
    checksum rebuilt by TLC from the key records (Base58Check of the normalised xpub, sorting, layout, Core polymod),
    parse round trip, addresses at (branch, offset) as P2WSH of the sorted multisig over the child keys (certified
    sha256, bech32), every permutation of supply order for n <= 4, receive/change disjointness, and single-character
    substitutions over the charset at every position of sampled descriptors.
"""
import itertools
import random

from ..core import B, outcome, hash_prim
from .c03 import le
from .c09 import T, h256row, b58dec

CHARSET = "0123456789()[],'/*abcdefgh@:$%{}IJKLMNOPQRSTUVWXYZ&+-.;<=>?!^_|~ijklmnopqrstuvwxyzABCDEFGH`#\"\\ "
PUBVER = {"mainnet": ["0488b21e", "049d7cb2", "04b24746", "0295b43f", "02aa7ed3"], "testnet": ["043587cf", "044a5262", "045f1cf6", "024289ef", "02575483"]}


def run(ctx):
    from buidl import hd
    from buidl.descriptor import P2WSHSortedMulti, calc_core_checksum
    rng = random.Random(ctx.seed)
    q = ctx.quick
    ctx.rule = ("cases = recorded descriptor build/parse/address calls and substituted texts decided by TLC; distinct = (m, n, network, SLIP-132 use), "
                "(branch, offset class), substitution (position class, character class) x outcome")
    ctx.assumptions = ["child public keys come from HDPublicKey.child (C08); sha256 / hash256 rows certified with hashlib"]
    if ctx.want("mc"):
        r = ctx.mc_expect_ok("descriptor/MC_DescChecksum.tla", "MC_DescChecksum.cfg", what="descriptor checksum error detection", env={"MAXLEN": 200 if q else 560}, workers=2, timeout=7200)
        ctx.exhaustive.append("MC_DescChecksum: all single and paired (gap <= 3) symbol errors over %d symbols x 31 x 31 value differences" % (200 if q else 560))
    if not ctx.want("cases"):
        return
    cases = []

    def rb(n):
        return bytes(rng.randrange(256) for _ in range(n))
    wallets = [(1, 1), (1, 2), (2, 3), (3, 4)] + ([(2, 6)] if q else [(m, n) for n in range(1, 7) for m in range(1, n + 1)])
    for wi, (m, n) in enumerate(wallets):
        net = "mainnet" if wi % 2 == 0 else rng.choice(["testnet", "signet", "regtest"])
        fam = "mainnet" if net == "mainnet" else "testnet"
        recs, jrecs, children = [], [], []
        # a coordinator that writes a placeholder fingerprint: every record carries the same fingerprint, path and account index
        # (only the xpubs differ); also one device contributing two keys
        twin = n >= 2 and (wi == 2 or (not q and wi % 5 == 4))
        for k in range(n):
            root = hd.HDPrivateKey.from_seed(rb(32), network=net)
            note = rng.choice(["h", "'"])
            path = "m/48%s/%d%s/%d%s/2%s" % (note, 0 if net == "mainnet" else 1, note, rng.choice([0, 1, 7]) if not twin else 0, note, note)
            if twin:
                path = path.replace("h", "'")
            if k == n - 1 and wi == 1:
                path = "m"                       # a cosigner who hands over his master xpub: the key origin is just the fingerprint
            node = root.traverse(path)
            ver = bytes.fromhex(rng.choice(PUBVER[fam]) if (wi + k) % 3 == 0 else PUBVER[fam][0])
            xpub_given = node.xpub(version=ver)
            acct = rng.choice([0, 1, 2, 5, 2 ** 31 - 3]) if k else rng.choice([0, 2 ** 31 - 2])
            xfp = root.fingerprint().hex()
            if twin:
                acct, xfp = 0, "00000000"
            recs.append({"xfp": xfp, "path": path, "xpub_parent": xpub_given, "account_index": acct})
            raw = b58dec(node.xpub(version=bytes.fromhex(PUBVER[fam][0])))[:-4]
            jrecs.append({"xfp": T(xfp), "path": T(path[1:]), "acct": le(acct), "raw78": B(raw)})
            children.append((node.pub, acct))
        d = outcome(P2WSHSortedMulti, m, [dict(r) for r in recs])
        text = str(d[1]) if d[0] == "ok" else ""
        back = outcome(P2WSHSortedMulti.parse, text) if d[0] == "ok" else ("raise", None)
        hr = [h256row(bytes(j["raw78"])) for j in jrecs]
        cases.append({"id": "w%d" % wi, "kind": "desc", "m": m, "recs": jrecs, "hr": hr, "res": d[0], "text": T(text), "parse_ok": back[0] == "ok", "reparsed": T(str(back[1])) if back[0] == "ok" else []})
        ctx.nontriv(("desc", m, n, net))
        if d[0] != "ok":
            continue
        desc = d[1]
        cases.append({"id": "w%d.cs" % wi, "kind": "csum", "text": T(desc.descriptor_text), "out": T(outcome(calc_core_checksum, desc.descriptor_text)[1])})
        # addresses
        for (is_change, off) in [(False, 0), (True, 0), (False, 1), (True, rng.choice([5, 2 ** 31 - 1])), (False, rng.randrange(2 ** 31))][: (3 if q and wi > 1 else 5)]:
            secs = []
            okc = True
            for pub, acct in children:
                ch = outcome(lambda: pub.child(acct + (1 if is_change else 0)).child(off).sec())
                if ch[0] != "ok":
                    okc = False
                    break
                secs.append(ch[1])
            if not okc:
                continue
            a = outcome(desc.get_address, off, is_change)
            script = bytes([0x50 + m]) + b"".join(b"\x21" + s for s in sorted(secs)) + bytes([0x50 + n, 0xAE])
            cases.append({"id": "w%d.a%s%d" % (wi, "c" if is_change else "r", off), "kind": "addr", "net": desc.network, "m": m, "secs": [B(s) for s in secs], "res": a[0], "addr": T(a[1]) if a[0] == "ok" else [],
                          "hr": [{"fn": "sha256", "in": B(script), "out": B(hash_prim("sha256", script))}]})
            ctx.nontriv(("addr", m, n, is_change, off if off < 2 else "big"))
        ra, ca = outcome(desc.get_address, 3, False), outcome(desc.get_address, 3, True)
        cases.append({"id": "w%d.dj" % wi, "kind": "neq", "a": T(ra[1]) if ra[0] == "ok" else [0], "b": T(ca[1]) if ca[0] == "ok" else [1], "what": "receive-and-change-address-coincide"})
        # supply order
        if n <= 4 and n > 1:
            for pi, perm in enumerate(itertools.permutations(range(n))):
                if pi == 0 or (q and pi > 3):
                    continue
                d2 = outcome(P2WSHSortedMulti, m, [dict(recs[i]) for i in perm])
                cases.append({"id": "w%d.p%d" % (wi, pi), "kind": "eq", "a": T(str(d2[1])) if d2[0] == "ok" else [0], "b": T(text), "what": "descriptor-depends-on-supply-order"})
                a2 = outcome(lambda: d2[1].get_address(2, True))
                a1 = outcome(desc.get_address, 2, True)
                cases.append({"id": "w%d.pa%d" % (wi, pi), "kind": "eq", "a": T(a2[1]) if a2[0] == "ok" else [0], "b": T(a1[1]) if a1[0] == "ok" else [1], "what": "address-depends-on-supply-order"})
        # single-character substitutions
        if wi < (1 if q else 6):
            # the '#' separator is neither body nor checksum: a text without it is a descriptor without checksum (plus ignored trailing text)
            poss = [p_ for p_ in range(len(text)) if p_ != text.rindex("#")]
            for pos in poss:
                orig = text[pos]
                alts = set()
                if orig.isalpha():
                    alts.add(orig.swapcase())
                alts.add(CHARSET[(CHARSET.index(orig) + 1) % len(CHARSET)])
                alts.add(CHARSET[(CHARSET.index(orig) + 32) % len(CHARSET)] if CHARSET.index(orig) + 32 < len(CHARSET) else CHARSET[CHARSET.index(orig) % 32])
                if not q or pos % 7 == 0:
                    alts.update(rng.sample(CHARSET, 4 if q else 10))      # (each candidate costs a full descriptor parse: ~20 ms of pure-python EC)
                alts.discard(orig)
                for ch in alts:
                    cand = text[:pos] + ch + text[pos + 1:]
                    got = outcome(P2WSHSortedMulti.parse, cand)
                    region = "checksum" if pos > text.rindex("#") else "hash-sign" if pos == text.rindex("#") else "xfp" if text[max(0, pos - 9):pos].count("[") and "]" not in text[text.rindex("[", 0, pos + 1):pos] and pos - text.rindex("[", 0, pos + 1) <= 8 else "body"
                    cases.append({"id": "w%d.s%d.%d" % (wi, pos, ord(ch)), "kind": "sub", "text": T(cand), "accepted": got[0] == "ok", "region": region})
            ctx.nontriv(("sub", wi))
    for c in cases:
        c.setdefault("hr", [])
    byid = {c["id"]: c for c in cases}
    ctx.sample({k: v for k, v in cases[0].items() if k in ("id", "kind", "m", "res")})
    ctx.sample({"descriptor": "".join(chr(x) for x in cases[0]["text"])})
    bad = ctx.validate("descriptor/C16Cases.tla", [{k: v for k, v in c.items() if k != "region"} for c in cases], "C16Cases.cfg", timeout=7200, per_shard_min=40)
    for cid, why in bad.items():
        c = byid[cid]
        ctx.violation("%s:%s:%s" % (c["kind"], why, c.get("region", "")), "%s case %s: %s %s" % (c["kind"], cid, why, "".join(chr(x) for x in c["text"])[:160] if c["kind"] == "sub" else ""),
                      {"kind": "case", "case": {k: v for k, v in c.items() if k != "hr"}})
