"""C12 — taproot commitments (specs/taproot/*).

(C) MC_TapTree: every labelled binary tree shape up to a bound grown by a Split action, with free-constructor hashes:
    merkle paths recompute the root for every leaf, control blocks round-trip, mirroring subtrees keeps the root, and
    altering the leaf script / version / any path hash / the path length changes it.
(B) real trees (all shapes up to 8 leaves sampled, leaf versions, scripts, internal keys of both parities): TLC recomputes
    the tree hash and every leaf's control block from the certified tagged-hash rows and checks the tweak algebra
    (tweaked private key = discrete log of the output key) with certificates; every single-byte alteration of sampled
    control blocks and leaf scripts must raise or change the recomputed key / parity.
"""
import random

from ..core import B, outcome, hash_prim
from .c03 import le, N256


def th_row(tag, msg):
    return {"fn": "tag:" + tag, "in": B(msg), "out": B(hash_prim("tag:" + tag, msg))}


def rand_shape(rng, n):
    """random binary tree shape with n leaves as nested tuples of leaf indexes"""
    items = list(range(n))
    nodes = [("L", i) for i in items]
    while len(nodes) > 1:
        i = rng.randrange(len(nodes) - 1)
        nodes[i:i + 2] = [("B", nodes[i], nodes[i + 1])]
    return nodes[0]


def run(ctx):
    from buidl import taproot as TR
    from buidl.ecc import PrivateKey, S256Point
    from buidl.script import Script
    from buidl.witness import Witness
    from buidl.helper import encode_varstr
    rng = random.Random(ctx.seed)
    q = ctx.quick
    ctx.rule = ("cases = real script trees with every leaf's control block and sampled alterations, decided by TLC from certified tagged-hash rows; "
                "distinct = (number of leaves, depth of the leaf, key parity, output parity), alteration position class x outcome")
    ctx.assumptions = ["tagged SHA256 rows certified with hashlib; output points are the library's q*G (C03)"]
    if ctx.want("mc"):
        ml = 5 if q else 7
        r = ctx.mc_expect_ok("taproot/MC_TapTree.tla", "MC_TapTree.cfg", what="tree shapes / paths / alterations", env={"MAXLEAVES": ml}, timeout=7200)
        ctx.exhaustive.append("MC_TapTree: all labelled tree shapes with <= %d leaves (%d trees) x every leaf" % (ml, r.distinct))
    if not ctx.want("cases"):
        return
    cases = []

    def rb(n):
        return bytes(rng.randrange(256) for _ in range(n))
    calls = []
    import buidl.taproot as T2
    import buidl.pecc as pecc
    # (no hooks on the library's hash helpers: the certified tagged-hash rows are produced below for the inputs BIP341 prescribes)

    def varstr(b_):
        n_ = len(b_)
        return (bytes([n_]) if n_ < 0xfd else b"\xfd" + n_.to_bytes(2, "little")) + b_

    def tree_rows(leaves_, shape_):
        """BIP341 tree hash of a shape, appending the (tag, input) pairs on the way"""
        if shape_[0] == "L":
            lf_ = leaves_[shape_[1]]
            inp = bytes([lf_.tapleaf_version]) + varstr(lf_.tap_script.raw_serialize())
            calls.append(("TapLeaf", inp))
            return hash_prim("tag:TapLeaf", inp)
        l_, r_ = tree_rows(leaves_, shape_[1]), tree_rows(leaves_, shape_[2])
        inp = l_ + r_ if l_ < r_ else r_ + l_
        calls.append(("TapBranch", inp))
        return hash_prim("tag:TapBranch", inp)
    try:
        sizes = [1, 2, 3, 4, 5, 8] if q else [1, 2, 3, 3, 4, 4, 5, 5, 6, 6, 7, 7, 8, 8, 8, 8]
        for ti, n in enumerate(sizes):
            d = rng.randrange(1, N256)
            pk = PrivateKey(d)
            if ti % 2 == 0:
                while pk.point.parity != (ti // 2) % 2:
                    d = rng.randrange(1, N256)
                    pk = PrivateKey(d)
            if ti == 1:
                # an internal key whose x coordinate starts with a zero byte (found by search)
                for _ in range(3000):
                    if pk.point.xonly()[0] == 0:
                        break
                    d = rng.randrange(1, N256)
                    pk = PrivateKey(d)
            scripts = []
            leaves = []
            for k in range(n):
                sc = Script([rb(32), 0xAC]) if k % 3 else Script([rb(rng.choice([1, 20, 75, 76, 300])), 0x75, 0x51])
                if k % 4 == 2 or (n == 1 and ti % 2):
                    sc = Script([0x51, rb(rng.choice([2, 6, 32]))])          # a leaf that ends in a data push
                if n >= 4 and k == 1:
                    sc = Script(list(leaves[0].tap_script.commands))      # same script, other leaf version
                ver = 0xC0 if not (n >= 4 and k == 1) else 0xC2
                if k == n - 1 and n >= 3:
                    ver = rng.choice([0xC0, 0xC4, 0xFA, 0x00, 0x00, 0x02])
                leaves.append(TR.TapLeaf(sc, ver))
            if n >= 3 and ti % 2 == 1:
                # the same (leaf version, script) on several leaves of one tree (siblings / different depths, depending on the shape)
                leaves[n - 1] = TR.TapLeaf(Script(list(leaves[0].tap_script.commands)), leaves[0].tapleaf_version)
                if n >= 5:
                    leaves[2] = leaves[0]
            shape = rand_shape(rng, n)

            def build(s):
                return leaves[s[1]] if s[0] == "L" else TR.TapBranch(build(s[1]), build(s[2]))

            def build_m(s):
                return leaves[s[1]] if s[0] == "L" else TR.TapBranch(build_m(s[2]), build_m(s[1]))

            def jt(s):
                if s[0] == "L":
                    lf = leaves[s[1]]
                    return {"leaf": True, "ver": lf.tapleaf_version, "script": B(lf.tap_script.raw_serialize())}
                return {"leaf": False, "l": jt(s[1]), "r": jt(s[2])}
            del calls[:]
            tree_rows(leaves, shape)
            tree = build(shape)
            root = outcome(tree.hash)
            mroot = outcome(build_m(shape).hash)
            # the same leaf and branch objects are then put into other trees (another shape over the same leaves; the whole tree and its
            # left subtree as parts of larger trees): what `tree` says about its own leaves must not depend on that
            decoys = []
            if n >= 2:
                for _ in range(4):
                    shape2 = rand_shape(rng, n)
                    if shape2 != shape:
                        break
                decoys.append(outcome(lambda: build(shape2).hash()))
                decoys.append(outcome(lambda: TR.TapBranch(TR.TapLeaf(Script([0x51]), 0xC0), tree).hash()))
                if shape[0] != "L" and hasattr(tree, "left"):
                    decoys.append(outcome(lambda: TR.TapBranch(tree.left, TR.TapLeaf(Script([0x52]), 0xC0)).hash()))
            d2 = rng.randrange(1, N256)
            pk2 = PrivateKey(d2)
            for keyno, (d, pk) in enumerate([(d, pk), (d2, pk2)]):      # the same tree object under two internal keys
              kid = "t%d" % ti if keyno == 0 else "t%dk2" % ti
              out = outcome(tree.external_pubkey, pk.point) if root[0] == "ok" else ("raise", None)
              out2 = outcome(pk.point.tweaked_key, root[1]) if root[0] == "ok" else ("raise", None)
              tw = outcome(pk.tweaked_key, root[1]) if root[0] == "ok" else ("raise", None)
              if root[0] != "ok" or out[0] != "ok" or tw[0] != "ok" or out2[0] != "ok":
                ctx.violation("tree:library-raises", "tree of %d leaves: %s %s %s" % (n, root, out, tw), {"kind": "tree", "n": n})
                continue
              if out2[1] != out[1]:
                ctx.violation("tree:external_pubkey-differs-from-tweaked_key", "tree of %d leaves, key %d: tree.external_pubkey(P) != P.tweaked_key(root)" % (n, keyno), {"kind": "tree", "n": n})
              deven = N256 - d if pk.point.parity else d
              px = pk.point.xonly()
              t = int.from_bytes(hash_prim("tag:TapTweak", px + root[1]), "big")
              qs = (deven + t) % N256
              qg = qs * pecc.G
              hr = [th_row(tag, m) for tag, m in calls] + [th_row("TapTweak", px + root[1])]
              base = {"tree": jt(shape), "root": B(root[1]), "px": B(px), "qg_x": B(qg.xonly()), "qg_parity": qg.parity}
              c = dict(base)
              c.update({"id": kid, "kind": "tree", "hr": hr, "mirror_root": B(mroot[1]) if mroot[0] == "ok" else [], "d": le(d), "p_odd": bool(pk.point.parity),
                        "dq": {"q": le((deven + t) // N256), "r": le(qs)}, "tweaked_secret": le(tw[1].secret), "out_x": B(out[1].xonly()), "out_parity": out[1].parity,
                        "tweaked_pub_x": B(tw[1].point.xonly())})
              cases.append(c)
              ctx.nontriv(("tree", n, pk.point.parity, qg.parity))
              for k, lf in enumerate(leaves):
                  # every other call passes an equal-but-not-identical leaf and internal key (a caller that rebuilt them from bytes)
                  lf_arg = lf if (k + keyno) % 2 == 0 else TR.TapLeaf(Script.parse(raw=lf.tap_script.raw_serialize()), lf.tapleaf_version)
                  pt_arg = pk.point if (k + keyno) % 2 == 0 else S256Point.parse(pk.point.sec())
                  cb = outcome(tree.control_block, pt_arg, lf_arg)
                  if cb[0] != "ok" or cb[1] is None:
                      ctx.violation("leafcb:control_block-fails", "leaf %d of %d: %s" % (k, n, cb), {"kind": "leafcb", "n": n, "k": k})
                      continue
                  raw = cb[1].serialize()
                  parsed = outcome(TR.ControlBlock.parse, raw)
                  reser = outcome(parsed[1].serialize) if parsed[0] == "ok" else ("raise", b"")
                  ext = outcome(lambda: parsed[1].external_pubkey(lf.tap_script)) if parsed[0] == "ok" else ("raise", None)
                  same_obj = outcome(lambda: (parsed[1] == cb[1]) and not (parsed[1] != cb[1])) if parsed[0] == "ok" else ("raise", False)
                  # the read-back path of a script-path spend: a witness stack (with and without annex) gives back the leaf, its version
                  # and a control block that recomputes the output key
                  for annex in ([], [b"\x50" + rb(3)]):
                      wit = Witness([rb(64), lf.tap_script.raw_serialize(), raw] + annex)
                      wl = outcome(wit.tap_leaf)
                      wcb = outcome(wit.control_block)
                      wext = outcome(lambda: wit.control_block().external_pubkey(wit.tap_script()))
                      okw = (wl[0] == "ok" and wl[1].tapleaf_version == lf.tapleaf_version and wl[1].tap_script.raw_serialize() == lf.tap_script.raw_serialize()
                             and outcome(wl[1].hash) == outcome(lf.hash) and wcb[0] == "ok" and wcb[1].serialize() == raw
                             and wext[0] == "ok" and wext[1].xonly() == qg.xonly() and wext[1].parity == qg.parity)
                      if not okw:
                          ctx.violation("witness:script-path-read-back-differs:%s" % ("annex" if annex else "noannex"),
                                        "tree %d leaf %d (version %#x): Witness.tap_leaf / control_block do not give back the leaf and control block that were put in: %s %s %s"
                                        % (ti, k, lf.tapleaf_version, wl, wcb, wext), {"kind": "witness-readback", "n": n, "k": k, "version": lf.tapleaf_version})
                  lc = dict(base)
                  lc.update({"id": "%s.l%d" % (kid, k), "kind": "leafcb", "hr": hr, "lf": {"leaf": True, "ver": lf.tapleaf_version, "script": B(lf.tap_script.raw_serialize())},
                             "cb": B(raw), "parse_ok": parsed[0] == "ok", "parsed_equals_built": same_obj == ("ok", True), "reser": B(reser[1]) if reser[0] == "ok" else [],
                             "ext_x": B(ext[1].xonly()) if ext[0] == "ok" else [], "ext_parity": ext[1].parity if ext[0] == "ok" else -1})
                  cases.append(lc)
                  ctx.nontriv(("leafcb", n, (len(raw) - 33) // 32, lf.tapleaf_version))
                  # alterations of the control block and of the leaf script
                  if k in (0, n - 1) or not q:
                      poss = list(range(len(raw))) if (not q and len(raw) <= 97) else sorted({0, 1, 16, 32} | set(rng.sample(range(len(raw)), min(6, len(raw)))))
                      alts_ = [(pos, raw[:pos] + bytes([raw[pos] ^ (1 << rng.randrange(8))]) + raw[pos + 1:]) for pos in poss]
                      # the leaf-version bits of byte 0 replaced as a whole (parity bit kept): 00, c0, 02, fe
                      alts_ += [(0, bytes([v_ | (raw[0] & 1)]) + raw[1:]) for v_ in (0x00, 0xC0, 0x02, 0xFE) if (v_ | (raw[0] & 1)) != raw[0]]
                      for aj_, (pos, alt) in enumerate(alts_):
                          r2 = outcome(lambda: TR.ControlBlock.parse(alt).external_pubkey(lf.tap_script))
                          ok2 = r2[0] == "ok" and r2[1].x is not None
                          # the parity bit lives in the control block: altering byte 0's low bit changes the claimed parity, which the verifier compares
                          par2 = (alt[0] & 1)
                          cases.append({"id": "%s.l%d.a%d.%d" % (kid, k, pos, aj_), "kind": "altered", "what": "control-block", "res": "ok" if ok2 else "raise",
                                        "alt_x": B(r2[1].xonly()) if ok2 else [], "alt_parity": (r2[1].parity if (ok2 and par2 == r2[1].parity) else -2) if ok2 else -1,
                                        "qg_x": B(qg.xonly()), "qg_parity": qg.parity})
                          ctx.nontriv(("altered-cb", "byte0" if pos == 0 else "key" if pos < 33 else "path", "ok" if ok2 else "raise"))
                      sraw = lf.tap_script.raw_serialize()
                      salts = [(pos, sraw[:pos] + bytes([sraw[pos] ^ 1]) + sraw[pos + 1:]) for pos in rng.sample(range(len(sraw)), min(3, len(sraw)))]
                      # the length byte of a final data push raised (the altered script then claims more bytes than it has)
                      last = lf.tap_script.commands[-1] if lf.tap_script.commands else 0
                      if isinstance(last, bytes) and 1 <= len(last) < 0x4b:
                          lp = len(sraw) - len(last) - 1
                          salts += [(lp, sraw[:lp] + bytes([v_]) + sraw[lp + 1:]) for v_ in sorted({len(last) + 1, len(last) + 7, 0x4b} - {len(last)}) if v_ <= 0x4b]
                      for sj_, (pos, alt) in enumerate(salts):
                          r2 = outcome(lambda: cb[1].external_pubkey(Script.parse(raw=alt)))
                          ok2 = r2[0] == "ok" and r2[1].x is not None
                          cases.append({"id": "%s.l%d.s%d.%d" % (kid, k, pos, sj_), "kind": "altered", "what": "leaf-script", "res": "ok" if ok2 else "raise",
                                        "alt_x": B(r2[1].xonly()) if ok2 else [], "alt_parity": r2[1].parity if ok2 else -1, "qg_x": B(qg.xonly()), "qg_parity": qg.parity})
                          # ... and read back through a witness stack, as the interpreter does
                          wit2 = Witness([rb(64), alt, raw])
                          r3 = outcome(lambda: wit2.control_block().external_pubkey(wit2.tap_script()))
                          r4 = outcome(lambda: wit2.tap_leaf().hash())
                          ok3 = r3[0] == "ok" and r3[1].x is not None
                          cases.append({"id": "%s.l%d.w%d.%d" % (kid, k, pos, sj_), "kind": "altered", "what": "leaf-script-read-through-witness", "res": "ok" if ok3 else "raise",
                                        "alt_x": B(r3[1].xonly()) if ok3 else [], "alt_parity": r3[1].parity if ok3 else -1, "qg_x": B(qg.xonly()), "qg_parity": qg.parity})
                          if r4[0] == "ok" and r4 == outcome(lf.hash):
                              ctx.violation("witness:altered-leaf-script-hashes-like-the-original", "tree %d leaf %d: Witness.tap_leaf() of a script altered at byte %d has the hash of the unaltered leaf"
                                            % (ti, k, pos), {"kind": "witness-altered", "n": n, "k": k, "pos": pos, "script": sraw.hex(), "altered": alt.hex()})
    finally:
        pass
    byid = {c["id"]: c for c in cases}
    ctx.sample({k: v for k, v in cases[0].items() if k in ("id", "kind", "tree")})
    bad = ctx.validate("taproot/C12Cases.tla", cases, "C12Cases.cfg", timeout=7200, per_shard_min=10)
    for cid, why in bad.items():
        c = byid[cid]
        ctx.violation("%s:%s" % (c["kind"], why), "%s case %s: %s" % (c["kind"], cid, why), {"kind": "case", "case": {k: v for k, v in c.items() if k != "hr"}})
