"""C01 — ECDSA (specs/curve/Sigs.tla toy universe, specs/curve/SigCases.tla real curve).

(C/A) toy prime-order curves: TLC checks completeness / low-S / exact soundness (curve arithmetic vs discrete-log
      formulation) over every key, nonce, digest and (r, s) pair and exports the complete sign and verify tables;
      the unmodified PrivateKey.sign / S256Point.verify / Signature.der / parse run on the same toy group
      (module constants rebound, deterministic_k stubbed to the table's nonce) and must agree row by row.
(B)   secp256k1: sign / verify calls with boundary and random secrets and digests are recorded (nonce, nonce point,
      HMAC-DRBG calls, DER bytes) and decided by TLC in the scalar model with big-number certificates; RFC 6979 is
      re-derived by TLC from the certified HMAC rows; every tuple of the mutation catalogue gets the verdict the
      ECDSA equation and the range rule define.
"""
import hashlib
import hmac as pyhmac
import random

from ..core import toy_guard, B, outcome
from ..toycurve import curve_params, toy
from .c03 import le, N256, P256

TOY = [(7, 0, 3), (19, 2, 9), (31, 0, 3)]


def sigs_cfg(ctx, p, a, b):
    n, g = curve_params(p, a, b)
    path = "%s/sigs_%d_%d_%d.cfg" % (ctx.tmp, p, a, b)
    with open(path, "w") as f:
        f.write("INIT Init\nNEXT Next\nCONSTANTS\n  PP = %d\n  AA = %d\n  BB = %d\n  NN = %d\n  GX = %d\n  GY = %d\n" % (p, a, b, n, g[0], g[1]))
    return path, n, g


def toy_tables(ctx, curves, modes, zmax_fn, rsmax_fn):
    jobs = []
    for (p, a, b) in curves:
        cfg, n, g = sigs_cfg(ctx, p, a, b)
        for mode in modes:
            jobs.append((lambda cfg=cfg, mode=mode, n=n, p=p, a=a, b=b, g=g:
                         ((p, a, b, n, g), mode, ctx.table("curve/MC_Sigs.tla", cfg, env={"MODE": mode, "ZMAX": zmax_fn(n), "RSMAX": rsmax_fn(n)}, timeout=7200))))
    return ctx.parallel(jobs, workers=8)


def replay_ecdsa_toy(ctx, tables):
    cnt = 0
    for (p, a, b, n, g), mode, tab in tables:
        if not tab:
            continue
        with toy(p, a, b, n, g) as pecc:
            if mode == "ecdsa":
                if not callable(getattr(pecc.PrivateKey, "deterministic_k", None)):
                    from ..core import MachineryError
                    raise MachineryError("PrivateKey.deterministic_k is gone: the toy sign replay (nonce taken from the table) does not apply to this tree")
                for r in tab["rows"]:
                    d, z, k = r["d"], r["z"], r["k"]
                    pk = pecc.PrivateKey(d)
                    pk.deterministic_k = lambda zz, k=k: k
                    got = outcome(pk.sign, z)
                    cnt += 1
                    want = r["sig"]
                    if not want:
                        ctx.nontriv(("toy-sign-undefined", n))
                        continue          # r = 0 or s = 0: the nonce must be rejected; the library's behaviour for it is not constrained here
                    ctx.nontriv(("toy-sign", n, "high-s-flipped" if (pow(k, -1, n) * (z + want[0] * d)) % n != want[1] else "low-s"))
                    if got[0] != "ok" or (got[1].r, got[1].s) != (want[0], want[1]):
                        ctx.violation("toy-sign:wrong-signature", "toy n=%d: sign(d=%d, z=%d, k=%d) = %s, specification %s"
                                      % (n, d, z, k, (got[1].r, got[1].s) if got[0] == "ok" else got, want), {"kind": "toy-sign", "curve": [p, a, b], "row": r})
                        continue
                    sig = got[1]
                    ver = outcome(pk.point.verify, z, sig)
                    if ver != ("ok", True):
                        ctx.violation("toy-sign:own-signature-rejected", "toy n=%d: verify(sign(d=%d,z=%d,k=%d)) = %s" % (n, d, z, k, ver), {"kind": "toy-sign", "curve": [p, a, b], "row": r})
            else:
                for r in tab["rows"]:
                    Q = pecc.S256Point(r["q"][0], r["q"][1])
                    got = outcome(Q.verify, r["z"], pecc.Signature(r["r"], r["s"]))
                    acc = got == ("ok", True)
                    cnt += 1
                    if r["ok"]:
                        ctx.nontriv(("toy-verify-valid", n, r["r"], r["s"]))
                    if acc != r["ok"]:
                        cls = "s>=n" if r["s"] >= n else "r>=n" if r["r"] >= n else "r-or-s-zero" if 0 in (r["r"], r["s"]) else "in-range"
                        ctx.violation("toy-verify:%s:%s" % ("accepts-invalid" if acc else "rejects-valid", cls),
                                      "toy n=%d: verify(Q=%s, z=%d, r=%d, s=%d) = %s, specification %s" % (n, r["q"], r["z"], r["r"], r["s"], got, r["ok"]),
                                      {"kind": "toy-verify", "curve": [p, a, b], "row": r})
    ctx.evaluations += cnt
    ctx.traces += cnt


def dec(x, n=N256):
    q, r = divmod(x, n)
    return {"q": le(q), "r": le(r)}


def hm_row(key, msg):
    return {"fn": "hmac256", "in": B(key) + [-3] + B(msg), "out": B(pyhmac.new(key, msg, hashlib.sha256).digest())}


def real_cases(ctx, rng, nkeys):
    import buidl.pecc as pecc
    cases = []
    secrets = [1, 2, N256 - 1, N256 - 2, 2 ** 128, 2 ** 128 - 1, 2 ** 255, 2 ** 255 + 1]
    digests = [0, N256 - 1, N256, N256 + 1, 2 ** 256 - 1, 1, 2 ** 255]
    pairs = [(secrets[i % len(secrets)], digests[i % len(digests)]) for i in range(min(nkeys, 8))]
    pairs += [(rng.randrange(1, N256), rng.randrange(2 ** 256)) for _ in range(max(0, nkeys - len(pairs)))]
    # one key object signs several digests, and the same digest again later (the nonce and the signature depend on the digest,
    # not on what the object signed before)
    pairs += [(pairs[0][0], rng.randrange(2 ** 256)), (pairs[1][0], pairs[2][1]), (pairs[0][0], pairs[0][1]), (pairs[-1][0], rng.randrange(2 ** 256))]
    pkcache = {}
    for i, (d, z) in enumerate(pairs):
        pk = pkcache.setdefault(d, pecc.PrivateKey(d))
        # the certified HMAC rows the specification's RFC 6979 walk needs are produced here with the standard library (not by
        # recording what the library happened to call): K/V updates of the HMAC-DRBG until a candidate lies in [1, n-1]
        zred = z - N256 if z >= N256 else z
        xb, hb = d.to_bytes(32, "big"), zred.to_bytes(32, "big")
        calls = []

        def hm(key, msg):
            calls.append((key, msg))
            return pyhmac.new(key, msg, hashlib.sha256).digest()
        K, V = bytes(32), b"\x01" * 32
        K = hm(K, V + b"\x00" + xb + hb)
        V = hm(K, V)
        K = hm(K, V + b"\x01" + xb + hb)
        V = hm(K, V)
        kh = None
        for _ in range(4):
            V = hm(K, V)
            cand = int.from_bytes(V, "big")
            if 1 <= cand < N256:
                kh = cand
                break
            K = hm(K, V + b"\x00")
            V = hm(K, V)
        res = outcome(pk.sign, z)
        ks = [kh] if kh is not None else []
        zcls = "z=0" if z == 0 else "z=n" if z == N256 else "z>n" if z > N256 else "z<n"
        ctx.nontriv(("real-sign", zcls, d in secrets))
        if res[0] != "ok" or not ks:
            cases.append({"id": "s%d" % i, "kind": "esign", "res": "raise", "z": le(z), "d": le(d), "k": [], "R": [[], []], "r": [], "s": [], "hm": [],
                          "dsk": dec(0), "dnsk": dec(0), "dzrd": dec(0), "der": [], "parsed_ok": False, "pr": [], "ps": [], "verifies": False, "zcls": zcls})
            continue
        sig = res[1]
        k = ks[-1]
        R = k * pecc.G
        der = outcome(sig.der)
        parsed = outcome(pecc.Signature.parse, der[1]) if der[0] == "ok" else ("raise", "")
        ver = outcome(pk.point.verify, z, sig)
        cases.append({"id": "s%d" % i, "kind": "esign", "res": "ok", "z": le(z), "d": le(d), "k": le(k), "R": [le(R.x.num), le(R.y.num)], "r": le(sig.r), "s": le(sig.s),
                      "hm": [hm_row(kk, mm) for kk, mm in calls],
                      "dsk": dec(sig.s * k), "dnsk": dec((N256 - sig.s) * k if sig.s <= N256 else 0), "dzrd": dec(z + sig.r * d),
                      "der": B(der[1]) if der[0] == "ok" else [], "parsed_ok": parsed[0] == "ok",
                      "pr": le(parsed[1].r) if parsed[0] == "ok" else [], "ps": le(parsed[1].s) if parsed[0] == "ok" else [],
                      "verifies": ver == ("ok", True), "zcls": zcls})
        # verification catalogue around the honest tuple
        r0, s0 = sig.r, sig.s
        # the nonce behind the tuple that was actually returned (up to sign), whatever way it was chosen: the verification oracle
        # below must not depend on the RFC 6979 clause decided above
        k = ((z + r0 * d) * pow(s0, -1, N256)) % N256 if 0 < s0 < N256 else k
        d2 = rng.randrange(1, N256)
        cat = [("honest", d, z, r0, s0), ("z+1", d, (z + 1) % 2 ** 256, r0, s0), ("z-1", d, (z - 1) % 2 ** 256, r0, s0),
               ("z+n", d, z + N256 if z + N256 < 2 ** 256 else z - N256 if z >= N256 else z ^ 1, r0, s0),
               ("other-key", d2, z, r0, s0), ("swap-rs", d, z, s0, r0), ("s+n", d, z, r0, s0 + N256), ("n-s", d, z, r0, N256 - s0),
               ("r+n", d, z, r0 + N256, s0), ("s=0", d, z, r0, 0), ("r=0", d, z, 0, s0), ("s=n", d, z, r0, N256), ("r=n", d, z, N256, s0),
               ("s=2^256-1", d, z, r0, 2 ** 256 - 1), ("r=2^256-1", d, z, 2 ** 256 - 1, s0), ("s+1", d, z, r0, s0 + 1), ("r+1", d, z, r0 + 1, s0),
               ("s+2n", d, z, r0, s0 + 2 * N256), ("n-s+n", d, z, r0, 2 * N256 - s0)]
        pts = {d: pk.point, d2: None}
        for name, dd, zz, rr, ss in cat:
            Q = pts[dd] if pts[dd] is not None else pecc.PrivateKey(dd).point
            pts[dd] = Q
            # every other catalogue runs on ONE signature object (the one signing returned, already verified once) whose r and s are
            # assigned: the answer is a function of the tuple, not of what the object was asked before (a Signature that refuses
            # assignment gets a fresh object instead)
            sobj = None
            if i % 2 == 1:
                try:
                    sig.r, sig.s = rr, ss
                    sobj = sig
                except Exception:
                    sobj = None
            got = outcome(Q.verify, zz, sobj if sobj is not None else pecc.Signature(rr, ss))
            cases.append({"id": "v%d.%s" % (i, name), "kind": "everify", "name": name, "d": le(dd), "z": le(zz), "r": le(rr), "s": le(ss), "k": le(k), "rbase": le(r0),
                          "dsk": dec(ss * k), "dsnk": dec(ss * (N256 - k)), "dzrd": dec(zz + rr * dd), "accepted": got == ("ok", True), "raw": str(got)})
            ctx.nontriv(("real-verify", name, got == ("ok", True)))
    # DER shapes: every byte length 24..32 of r and s with the top bit of the leading byte clear / set (in-range values a
    # signature can take; random signing reaches a leading zero byte only once in 256 signatures)
    shapes = []
    for nb in [1, 2, 8, 16, 24, 25, 26, 27, 28, 29, 30, 31, 32]:
        for top in (0x01, 0x7f, 0x80, 0xff):
            v = (top << (8 * (nb - 1))) | rng.randrange(1 << (8 * (nb - 1))) if nb > 1 else top
            if 1 <= v < N256:
                shapes.append(v)
    halfn = N256 // 2
    for j, rr in enumerate(shapes):
        for ss in (shapes[(j * 7 + 3) % len(shapes)], shapes[(j * 5 + 1) % len(shapes)]):
            if ss > halfn:
                ss = N256 - ss
            sig = pecc.Signature(rr, ss)
            der = outcome(sig.der)
            parsed = outcome(pecc.Signature.parse, der[1]) if der[0] == "ok" else ("raise", "")
            cases.append({"id": "der%d.%d" % (j, len(cases)), "kind": "der", "r": le(rr), "s": le(ss), "der": B(der[1]) if der[0] == "ok" else [],
                          "parsed_ok": parsed[0] == "ok", "pr": le(parsed[1].r) if parsed[0] == "ok" else [], "ps": le(parsed[1].s) if parsed[0] == "ok" else []})
            ctx.nontriv(("der-shape", (rr.bit_length() + 7) // 8, rr.bit_length() % 8 == 0, (ss.bit_length() + 7) // 8, ss.bit_length() % 8 == 0))
    return cases


def run(ctx):
    rng = random.Random(ctx.seed)
    q = ctx.quick
    ctx.rule = ("cases = every (d, z, k) sign row and every (Q, z, r, s) verify row of the toy groups replayed through the "
                "library with rebound constants, plus recorded secp256k1 sign calls and the verification catalogue decided by "
                "TLC; distinct = valid toy tuples and (boundary class of digest, mutation name, verdict) on the real curve")
    ctx.assumptions = ["secp256k1 points kG, dG come from the library's scalar multiplication (validated by C03); a tuple whose r is not the "
                       "abscissa of a known nonce point is taken to be invalid (finding one is the discrete-log problem)",
                       "x(kG) >= n cannot be exhibited on secp256k1 (probability 2^-128); toy curves have n > p for the same reason",
                       "HMAC-SHA256 rows are certified with CPython hmac/hashlib"]
    if ctx.want("real"):
        cases = real_cases(ctx, rng, 10 if q else 120)
        byid = {c["id"]: c for c in cases}
        send = [{k: v for k, v in c.items() if k not in ("name", "raw", "zcls")} for c in cases]
        bad = ctx.validate("curve/SigCases.tla", send, "SigCases.cfg", timeout=7200, per_shard_min=6)
        for cid, why in bad.items():
            c = byid[cid]
            cls = c.get("name") or c.get("zcls")
            ctx.violation("real-%s:%s:%s" % (c["kind"], why, cls), "secp256k1 %s case %s (%s): %s %s" % (c["kind"], cid, cls, why, c.get("raw", "")),
                          {"kind": "case", "case": {k: v for k, v in c.items() if k != "hm"}})
        ctx.sample({k: v for k, v in cases[1].items() if k in ("id", "kind", "name", "accepted")})
    def _toy_part():
        curves = TOY[:2] if q else TOY
        tabs = toy_tables(ctx, curves, ["ecdsa", "ecdsa-verify"], lambda n: (3 if n > 13 else n + 2) if q else (8 if n > 13 else (2 * n + 1)), lambda n: (2 * n + 1) if n <= 13 else (n + 2))      # (TLC builds no set above 10^6 rows)
        replay_ecdsa_toy(ctx, tabs)
        ctx.exhaustive.append("toy groups %s: every secret, nonce, digest in 0..ZMAX and every (r, s) in (0..2n+1)^2: Complete, LowS, curve-arithmetic verdict = discrete-log verdict" % curves)
        ctx.sample({"toy_verify_row": tabs[1][2]["rows"][7] if tabs[1][2] else None})
    if ctx.want("toy"):
        toy_guard(ctx, _toy_part)
