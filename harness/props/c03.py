"""C03 — group law and encodings (specs/curve/Curve.tla, MC_Curve.tla, C03Cases.tla).

(C) MC_Curve: field axioms, group axioms (associativity over all triples), the double-and-add loop as a state
    machine with its loop invariant, for several small curves.
(A) the complete addition / scalar-multiplication / lift tables exported by TLC are replayed through the generic
    FieldElement / Point classes and through S256Point with toy parameters (same code, rebound constants).
(B) secp256k1: every Point.__add__ executed during sampled scalar multiplications is recorded and validated by TLC
    against the affine group-law relations mod p (big-number certificates), the sequence of additions against the
    double-and-add machine, plus identities and SEC / x-only encodings on the real curve.
"""
import random

from ..core import toy_guard, B, outcome
from ..toycurve import TOY_CURVES, curve_params, toy

P256 = 2 ** 256 - 2 ** 32 - 977
N256 = 0xFFFFFFFFFFFFFFFFFFFFFFFFFFFFFFFEBAAEDCE6AF48A03BBFD25E8CD0364141
MC_CURVES = [(11, 0, 7), (19, 2, 9), (7, 0, 3), (31, 0, 3), (13, 0, 7), (43, 0, 7), (67, 0, 7), (5, 0, 2), (11, 1, 6), (17, 0, 7), (23, 0, 7), (79, 0, 7), (127, 0, 7)]      # (223, 0, 7) alone takes TLC more than half an hour


def curve_cfg(ctx, p, a, b, extra=""):
    path = "%s/curve_%d_%d_%d.cfg" % (ctx.tmp, p, a, b)
    with open(path, "w") as f:
        f.write("SPECIFICATION Spec\nCONSTANTS\n  PP = %d\n  AA = %d\n  BB = %d\n%sINVARIANT LoopInvariant\nINVARIANT Done\nINVARIANT StaysOnCurve\n" % (p, a, b, extra))
    return path


def pt(x):
    return None if len(x) == 0 else (x[0], x[1])


def replay_generic(ctx, tab):
    """tables through the generic FieldElement / Point classes over the real small field"""
    from buidl.pecc import FieldElement, Point
    p, a, b = tab["p"], tab["a"], tab["b"]
    fa, fb = FieldElement(a, p), FieldElement(b, p)

    def mk(q):
        return Point(None, None, fa, fb) if q is None else Point(FieldElement(q[0], p), FieldElement(q[1], p), fa, fb)

    def proj(P_):
        return None if P_.x is None else (P_.x.num, P_.y.num)
    n = 0
    for r in tab["add"]:
        P_, Q_, want = pt(r["p"]), pt(r["q"]), pt(r["r"])
        got = outcome(lambda: proj(mk(P_) + mk(Q_)))
        n += 1
        case = "inf" if P_ is None or Q_ is None else "double-y0" if (P_ == Q_ and P_[1] == 0) else "double" if P_ == Q_ else "opposite" if P_[0] == Q_[0] else "chord"
        ctx.nontriv(("add", p, case))
        if got != ("ok", want):
            ctx.violation("generic-add:%s" % case, "y^2=x^3+%dx+%d over F_%d: %s + %s = %s, group law gives %s" % (a, b, p, P_, Q_, got, want),
                          {"kind": "add-row", "curve": [p, a, b], "row": r})
    for r in tab["mul"]:
        P_, want = pt(r["p"]), pt(r["r"])
        got = outcome(lambda: proj(r["k"] * mk(P_)))
        n += 1
        if got != ("ok", want):
            hit_y0 = any(q[1] == 0 for q in [pt(x["p"]) for x in tab["add"]] if q is not None)
            ctx.violation("generic-rmul%s" % (":curve-with-2-torsion" if hit_y0 else ""),
                          "over F_%d: %d * %s = %s, specification %s" % (p, r["k"], P_, got, want), {"kind": "mul-row", "curve": [p, a, b], "row": r})
    for r in tab["field"]:
        x, y = FieldElement(r["x"], p), FieldElement(r["y"], p)
        for name, fn in (("add", lambda: (x + y).num), ("sub", lambda: (x - y).num), ("mul", lambda: (x * y).num),
                         ("pow", lambda: (x ** r["y"]).num)):
            if name == "pow" and r["x"] == 0 and r["y"] == p - 1:
                continue        # 0^(p-1): not a field axiom; FieldElement reduces exponents mod p-1 (convention 0^0 = 1)
            got = outcome(fn)
            n += 1
            if got != ("ok", r[name]):
                cls = "pow:0^(p-1)k" if name == "pow" and r["x"] == 0 and r["y"] % (p - 1) == 0 and r["y"] > 0 else name
                ctx.violation("field-%s" % cls, "F_%d: %d %s %d = %s, specification %d" % (p, r["x"], name, r["y"], got, r[name]),
                              {"kind": "field-row", "p": p, "row": r})
        if r["y"] != 0:
            got = outcome(lambda: (x / y).num)
            n += 1
            if got != ("ok", r["div"]):
                ctx.violation("field-div", "F_%d: %d / %d = %s, specification %d" % (p, r["x"], r["y"], got, r["div"]), {"kind": "field-row", "p": p, "row": r})
    ctx.evaluations += n
    ctx.traces += n
    ctx.sample({"curve": [p, a, b], "add_row": tab["add"][len(tab["add"]) // 2]})


def replay_s256_toy(ctx, tab):
    """the same tables through S256Point with rebound module constants (toy parameters)"""
    p, a, b = tab["p"], tab["a"], tab["b"]
    n, g = curve_params(p, a, b)
    assert n == tab["order"]
    cnt = 0
    with toy(p, a, b, n, g) as pecc:
        S = pecc.S256Point

        def mk(q):
            return S(None, None) if q is None else S(q[0], q[1])

        def proj(P_):
            return None if P_.x is None else (P_.x.num, P_.y.num)
        for r in tab["add"]:
            P_, Q_, want = pt(r["p"]), pt(r["q"]), pt(r["r"])
            got = outcome(lambda: proj(mk(P_) + mk(Q_)))
            cnt += 1
            if got != ("ok", want):
                ctx.violation("s256toy-add", "toy F_%d: %s + %s = %s, group law %s" % (p, P_, Q_, got, want), {"kind": "add-row", "curve": [p, a, b], "row": r})
        mulmap = {}
        for r in tab["mul"]:
            mulmap[(r["k"], tuple(r["p"]))] = pt(r["r"])
        for r in tab["mul"]:
            P_ = pt(r["p"])
            for k in (r["k"], r["k"] - n, r["k"] + 3 * n, -r["k"]):
                want = mulmap[(k % n, tuple(r["p"]))] if (k % n, tuple(r["p"])) in mulmap else None
                if (k % n, tuple(r["p"])) not in mulmap:
                    continue
                got = outcome(lambda: proj(k * mk(P_)))
                cnt += 1
                ctx.nontriv(("s256toy-rmul", p, "neg" if k < 0 else "zero" if k % n == 0 else ">n" if k >= n else "plain"))
                if got != ("ok", want):
                    ctx.violation("s256toy-rmul:%s" % ("k=0 mod n" if k % n == 0 else "k<0" if k < 0 else "k"),
                                  "toy F_%d n=%d: %d * %s = %s, specification %s" % (p, n, k, P_, got, want), {"kind": "mul-row", "curve": [p, a, b], "k": k, "row": r})
        # encodings: SEC compressed / uncompressed / x-only for every point, lift for every x (incl. x >= p)
        for r in tab["lift"]:
            x, par = r["x"], r["par"]
            want = None if r["r"] == [-1] else (r["r"][0], r["r"][1])
            xb = x.to_bytes(32, "big")
            got = outcome(lambda: proj(S.parse_sec(bytes([2 + par]) + xb)))
            cnt += 1
            ctx.nontriv(("lift", p, want is not None, x >= p))
            if (want is None and got[0] == "ok") or (want is not None and got != ("ok", want)):
                ctx.violation("s256toy-parse_sec:%s" % ("accepts-non-point" if want is None else "wrong-point"),
                              "toy F_%d: parse_sec(%02x||%d) = %s, specification %s" % (p, 2 + par, x, got, want), {"kind": "lift-row", "curve": [p, a, b], "row": r})
            if par == 0:
                got = outcome(lambda: proj(S.parse_xonly(xb)))
                cnt += 1
                if x == 0:
                    pass      # parse_xonly(0) is the library's encoding of infinity (x = 0 is not on y^2 = x^3 + 7 over the real field)
                elif (want is None and got[0] == "ok") or (want is not None and got != ("ok", want)):
                    ctx.violation("s256toy-parse_xonly", "toy F_%d: parse_xonly(%d) = %s, specification %s" % (p, x, got, want), {"kind": "lift-row", "curve": [p, a, b], "row": r})
            if want is not None:
                P_ = mk(want)
                for comp in (True, False):
                    enc = outcome(P_.sec, comp)
                    exp = (bytes([2 + want[1] % 2]) + want[0].to_bytes(32, "big")) if comp else (b"\x04" + want[0].to_bytes(32, "big") + want[1].to_bytes(32, "big"))
                    cnt += 1
                    if enc != ("ok", exp):
                        ctx.violation("s256toy-sec", "sec(%s, compressed=%s) = %s" % (want, comp, enc), {"kind": "lift-row", "curve": [p, a, b], "row": r})
                    else:
                        back = outcome(lambda: proj(S.parse(exp)))
                        if back != ("ok", want):
                            ctx.violation("s256toy-sec-roundtrip", "parse(sec(%s)) = %s" % (want, back), {"kind": "lift-row", "curve": [p, a, b], "row": r})
                if outcome(P_.xonly) != ("ok", want[0].to_bytes(32, "big")):
                    ctx.violation("s256toy-xonly", "xonly(%s)" % (want,), {"kind": "lift-row", "curve": [p, a, b], "row": r})
        # uncompressed encodings of non-points must be rejected
        pts = {pt(r["p"]) for r in tab["add"]} - {None}
        for x in range(p):
            for y in range(p):
                if (x, y) not in pts:
                    got = outcome(S.parse_sec, b"\x04" + x.to_bytes(32, "big") + y.to_bytes(32, "big"))
                    cnt += 1
                    if got[0] == "ok":
                        ctx.violation("s256toy-parse_sec:accepts-off-curve-uncompressed", "toy F_%d: (%d,%d) accepted" % (p, x, y), {"kind": "offcurve", "curve": [p, a, b], "xy": [x, y]})
    ctx.evaluations += cnt
    ctx.traces += cnt


# ------------------------------------------------------------------ (B) real curve
def le(n):
    if isinstance(n, int) and n < 0:
        return [255] * 40       # not a natural number at all: a value no specification term can equal (the case is then decided, not dropped)
    return B(n.to_bytes((n.bit_length() + 7) // 8, "little")) if n else []


def cong(lhs, rhs, m):
    """certificate for lhs = rhs (mod m) over the naturals: lhs + (k<0 ? |k| m : 0) = rhs + (k>0 ? k m : 0)"""
    k, rem = divmod(lhs - rhs, m)
    return {"k": le(abs(k)), "neg": k < 0, "exact": rem == 0}


def add_event(P_, Q_, R_):
    """recorded Point.__add__ on secp256k1 with the slope certificate"""
    p = P256
    ev = {"p": [le(P_[0]), le(P_[1])] if P_ else [], "q": [le(Q_[0]), le(Q_[1])] if Q_ else [], "r": [le(R_[0]), le(R_[1])] if R_ else []}
    if P_ and Q_ and R_:
        x1, y1, x2, y2, x3, y3 = P_[0], P_[1], Q_[0], Q_[1], R_[0], R_[1]
        if x1 != x2:
            s = (y2 - y1) * pow(x2 - x1, p - 2, p) % p
            c1 = cong(s * x2 + y1, s * x1 + y2, p)                 # s (x2 - x1) = y2 - y1
        else:
            s = (3 * x1 * x1) * pow(2 * y1, p - 2, p) % p
            c1 = cong(2 * y1 * s, 3 * x1 * x1, p)                   # 2 y1 s = 3 x1^2  (a = 0)
        ev.update({"s": le(s), "c1": c1, "c2": cong(x3 + x1 + x2, s * s, p), "c3": cong(y3 + y1 + s * x3, s * x1, p)})
    return ev


def record_rmul(k, base=None):
    """run k * P on the real curve with every addition recorded"""
    import buidl.pecc as pecc
    events = []
    orig = pecc.Point.__add__

    def proj(P_):
        return None if P_.x is None else (P_.x.num, P_.y.num)

    def wrapped(self, other):
        r = orig(self, other)
        events.append((proj(self), proj(other), proj(r)))
        return r
    P_ = pecc.G if base is None else base
    pecc.Point.__add__ = wrapped
    try:
        res = outcome(lambda: proj(k * P_))
    finally:
        pecc.Point.__add__ = orig
    return proj(P_), res, events


def real_cases(ctx, rng, nmul):
    import buidl.pecc as pecc
    cases = []
    ks = [0, 1, 2, N256 - 1, N256, N256 + 1, -1, -5, 2 ** 256 + 12345, 2 ** 255, 3, 2 ** 128 + 1]
    ks = ks[:nmul] if nmul < len(ks) else ks + [rng.randrange(1, N256) for _ in range(nmul - len(ks))]
    bases = [None]
    for i, k in enumerate(ks):
        base = None
        if i % 3 == 2:
            base = rng.randrange(1, N256) * pecc.G
        bp, res, events = record_rmul(k, base)
        if res[0] != "ok":
            ctx.violation("real-rmul-raises", "%d * P raised %s" % (k, res), {"kind": "rmul", "k": str(k)})
            continue
        keff = k % N256
        cases.append({"id": "m%d" % i, "kind": "rmul", "k": le(keff), "base": [le(bp[0]), le(bp[1])], "res": [le(res[1][0]), le(res[1][1])] if res[1] else [],
                      "adds": [add_event(*e) for e in events]})
        ctx.nontriv(("real-rmul", "zero" if keff == 0 else "neg" if k < 0 else ">=n" if k >= N256 else "plain", len(events) > 0))
    # identities on the real curve: (a+b)G = aG + bG, a(bG) = (ab)G, P + (-P) = inf, nP = inf
    G = pecc.G

    def proj(P_):
        return None if P_.x is None else (P_.x.num, P_.y.num)

    def jp(q):
        return [le(q[0]), le(q[1])] if q else []
    for j in range(3 if nmul < 10 else 12):
        a, b = rng.randrange(1, N256), rng.randrange(1, N256)
        if j == 0:
            b = N256 - a
        lhs, rhs = outcome(lambda: proj((a + b) * G)), outcome(lambda: proj(a * G + b * G))
        cases.append({"id": "i%d.sum" % j, "kind": "ident", "lhs": jp(lhs[1]) if lhs[0] == "ok" else [[9]], "rhs": jp(rhs[1]) if rhs[0] == "ok" else [[8]]})
        lhs, rhs = outcome(lambda: proj(a * (b * G))), outcome(lambda: proj((a * b) * G))
        cases.append({"id": "i%d.prod" % j, "kind": "ident", "lhs": jp(lhs[1]) if lhs[0] == "ok" else [[9]], "rhs": jp(rhs[1]) if rhs[0] == "ok" else [[8]]})
        Pt = a * G
        neg = pecc.S256Point(Pt.x.num, P256 - Pt.y.num)
        lhs = outcome(lambda: proj(Pt + neg))
        cases.append({"id": "i%d.neg" % j, "kind": "ident", "lhs": jp(lhs[1]) if lhs[0] == "ok" else [[9]], "rhs": []})
        lhs, rhs = outcome(lambda: proj(Pt + Pt)), outcome(lambda: proj(2 * Pt))
        cases.append({"id": "i%d.dbl" % j, "kind": "ident", "lhs": jp(lhs[1]) if lhs[0] == "ok" else [[9]], "rhs": jp(rhs[1]) if rhs[0] == "ok" else [[8]]})
        # encodings of a real point and rejection of a near miss
        for comp in (True, False):
            enc = outcome(Pt.sec, comp)
            back = outcome(lambda: proj(pecc.S256Point.parse(enc[1]))) if enc[0] == "ok" else ("raise", "")
            cases.append({"id": "e%d.sec%d" % (j, comp), "kind": "sec", "pt": jp(proj(Pt)), "compressed": comp, "enc": B(enc[1]) if enc[0] == "ok" else [],
                          "back": jp(back[1]) if back[0] == "ok" and back[1] else []})
        xo = outcome(Pt.xonly)
        back = outcome(lambda: proj(pecc.S256Point.parse_xonly(xo[1])))
        cases.append({"id": "e%d.xonly" % j, "kind": "xonly", "pt": jp(proj(Pt)), "enc": B(xo[1]) if xo[0] == "ok" else [],
                      "back": jp(back[1]) if back[0] == "ok" and back[1] else []})
        # candidate encodings that are not points: x with x^3+7 a non-residue (certificate: w^2 = -(x^3+7)), x >= p, bad prefix
        x = rng.randrange(1, P256)
        while pow((x ** 3 + 7) % P256, (P256 - 1) // 2, P256) == 1:
            x += 1
        v = (x ** 3 + 7) % P256
        w = pow((P256 - v) % P256, (P256 + 1) // 4, P256)
        for name, raw in (("nonres-02", b"\x02" + x.to_bytes(32, "big")), ("nonres-xonly", x.to_bytes(32, "big")),
                          ("x>=p", b"\x03" + (P256 + j).to_bytes(32, "big")), ("xonly>=p", (P256 + 1 + j).to_bytes(32, "big")),
                          ("bad-prefix", b"\x05" + Pt.x.num.to_bytes(32, "big")), ("offcurve-04", b"\x04" + Pt.x.num.to_bytes(32, "big") + ((Pt.y.num + 1) % P256).to_bytes(32, "big")),
                          ("short", b"\x02" + Pt.x.num.to_bytes(32, "big")[:-2]), ("long", Pt.sec() + b"\x00"),
                          # a prefix with the length of the other form: 02/03 followed by 64 bytes (right and wrong parity), 04 followed by 32
                          ("compressed-prefix-65-bytes", bytes([2 + (Pt.y.num & 1)]) + Pt.x.num.to_bytes(32, "big") + Pt.y.num.to_bytes(32, "big")),
                          ("compressed-prefix-65-bytes-other-parity", bytes([3 - (Pt.y.num & 1)]) + Pt.x.num.to_bytes(32, "big") + Pt.y.num.to_bytes(32, "big")),
                          ("uncompressed-prefix-33-bytes", b"\x04" + Pt.x.num.to_bytes(32, "big")),
                          ("uncompressed-prefix-66-bytes", b"\x04" + Pt.x.num.to_bytes(32, "big") + Pt.y.num.to_bytes(32, "big") + b"\x00")):
            got = outcome(pecc.S256Point.parse, raw)
            cases.append({"id": "r%d.%s" % (j, name), "kind": "reject", "why": name, "raw": B(raw), "accepted": got[0] == "ok" and got[1].x is not None,
                          "x": le(x), "w": le(w), "cert": cong(w * w + v, 0, P256) if name.startswith("nonres") else {"k": [], "neg": False, "exact": True},
                          "vcert": cong(x * x * x + 7, v, P256), "v": le(v)})
            ctx.nontriv(("reject", name))
    # coordinates that are not field elements although they reduce to a curve point mod p: x + p and y + p for the points with
    # tiny x (x = 1, 2, 3, ...) and tiny y (y = 1, 6, 11, ...), in every encoding
    small = []
    for x in range(1, 9):
        v = (x ** 3 + 7) % P256
        if pow(v, (P256 - 1) // 2, P256) == 1:
            y = pow(v, (P256 + 1) // 4, P256)
            small.append((x, y))
            small.append((x, P256 - y))
    for y in (1, 6, 11, 13):
        a_ = (y * y - 7) % P256
        x = pow(a_, (P256 + 2) // 9, P256)
        if pow(x, 3, P256) == a_:
            small.append((x, y))
    for si_, (x, y) in enumerate(small[:10]):
        forms = []
        if x + P256 < 2 ** 256:
            forms += [("04-x>=p", b"\x04" + (x + P256).to_bytes(32, "big") + y.to_bytes(32, "big")), ("x>=p", bytes([2 + (y & 1)]) + (x + P256).to_bytes(32, "big")),
                      ("xonly>=p", (x + P256).to_bytes(32, "big"))]
        if y + P256 < 2 ** 256:
            forms += [("04-y>=p", b"\x04" + x.to_bytes(32, "big") + (y + P256).to_bytes(32, "big"))]
        if x + P256 < 2 ** 256 and y + P256 < 2 ** 256:
            forms += [("04-x>=p", b"\x04" + (x + P256).to_bytes(32, "big") + (y + P256).to_bytes(32, "big"))]
        for fi_, (name, raw) in enumerate(forms):
            got = outcome(pecc.S256Point.parse if len(raw) != 32 else pecc.S256Point.parse_xonly, raw)
            cases.append({"id": "big%d.%d.%s" % (si_, fi_, name), "kind": "reject", "why": name, "raw": B(raw), "accepted": got[0] == "ok" and got[1].x is not None,
                          "x": [], "w": [], "cert": {"k": [], "neg": False, "exact": True}, "vcert": {"k": [], "neg": False, "exact": True}, "v": []})
            ctx.nontriv(("reject-reducible", name))
        # the honest encodings of these points are accepted (so that the rejections above are about the range, not the point)
        for raw in (b"\x04" + x.to_bytes(32, "big") + y.to_bytes(32, "big"), bytes([2 + (y & 1)]) + x.to_bytes(32, "big")):
            got = outcome(lambda: proj(pecc.S256Point.parse(raw)))
            cases.append({"id": "small%d.%d" % (si_, len(raw)), "kind": "ident", "lhs": jp(got[1]) if got[0] == "ok" and got[1] else [], "rhs": jp((x, y))})
    return cases


def run(ctx):
    rng = random.Random(ctx.seed)
    q = ctx.quick
    ctx.rule = ("cases = rows of the complete addition/multiplication/lift tables of small curves replayed through "
                "FieldElement, Point and S256Point(toy parameters), plus recorded secp256k1 additions / identities / "
                "encodings decided by TLC with big-number certificates; distinct = (curve, addition case) for tables, "
                "(scalar class) for real multiplications, rejection class for encodings")
    ctx.assumptions = ["on secp256k1 every executed addition is validated; scalars and points are sampled (with the boundary scalars 0, 1, n-1, n, n+1, negative, > 2^256)"]
    curves = MC_CURVES[:6] if q else MC_CURVES
    if ctx.want("real"):
        cases = real_cases(ctx, rng, 4 if q else 60)
        byid = {c["id"]: c for c in cases}
        bad = ctx.validate("curve/C03Cases.tla", cases, "C03Cases.cfg", timeout=7200, per_shard_min=2)
        for cid, why in bad.items():
            c = byid[cid]
            ctx.violation("real:%s:%s" % (c["kind"], why), "secp256k1 %s case %s rejected: %s" % (c["kind"], cid, why), {"kind": "case", "case": {k: v for k, v in c.items() if k != "adds"}})
        ctx.sample({"real_case": {k: v for k, v in cases[0].items() if k != "adds"}, "n_additions": len(cases[0].get("adds", []))})
    def _toy_part():
        def job(c):
            p, a, b = c
            cfg = curve_cfg(ctx, p, a, b)
            n = len([1 for x in range(p) for y in range(p) if (y * y - x ** 3 - a * x - b) % p == 0]) + 1
            return ctx.table("curve/MC_Curve.tla", cfg, env={"KMAX": 2 * n + 1, "ASSOC": 1 if p <= (43 if q else 79) else 0}, timeout=7200, workers=2)
        tabs = ctx.parallel([(lambda c=c: job(c)) for c in curves], workers=8)
        for tab in tabs:
            if not tab:
                continue
            replay_generic(ctx, tab)
            # S256Point hard-codes a = 0 in parse_sec (alpha = x^3 + B): toy instances use a = 0 curves of prime order n > p, p = 3 mod 4
            if tab["a"] == 0 and tab["p"] % 4 == 3 and tab["order"] > tab["p"] and all(tab["order"] % d for d in range(2, tab["order"])):
                replay_s256_toy(ctx, tab)
        ctx.exhaustive.append("small curves %s: field axioms, group axioms incl. associativity over all triples, double-and-add machine for all k <= 2n+1 and all points; complete tables replayed" % curves)
    if ctx.want("tables"):
        toy_guard(ctx, _toy_part)
