"""C04 — transaction wire codec, txid, fetcher (specs/tx/*, specs/lib/TxWire.tla).

(C) TxLaws: Tx as a state machine of API edits, wire-codec laws + txid action properties in every state;
    MC_Fetcher: fetcher/cache machine against every server answer.
(B) C04Cases: random + boundary transactions built through the API; serialize / parse / id events decided
    by TLC evaluating TxWire on the logged fields and bytes (hash256 rows certified with hashlib).
(A) Fetcher behaviours (every (requested id, fresh, answer) sequence up to depth 2 of the model's universe)
    replayed through TxFetcher.fetch with urlopen stubbed; cache state projected and compared.
"""
import hashlib
import io
import itertools
import random

from ..core import B, outcome

BOUNDARY_PUSH = [0, 1, 2, 74, 75, 76, 77, 254, 255, 256, 257, 519, 520]


def h256(b):
    return hashlib.sha256(hashlib.sha256(b).digest()).digest()


def jcmd(c):
    return {"op": c, "d": []} if isinstance(c, int) else {"op": -1, "d": B(c)}


def jtx(version, ins, outs, locktime, segwit):
    """abstract fields -> JSON for TxWire (fixed-width integers as little-endian bytes)"""
    return {"version": B(version.to_bytes(4, "little")),
            "ins": [{"txid": B(i["txid"]), "idx": B(i["idx"].to_bytes(4, "little")), "script": [jcmd(c) for c in i["script"]],
                     "seq": B(i["seq"].to_bytes(4, "little")), "wit": [B(w) for w in i["wit"]]} for i in ins],
            "outs": [{"amount": B(o["amount"].to_bytes(8, "little")), "script": [jcmd(c) for c in o["script"]]} for o in outs],
            "locktime": B(locktime.to_bytes(4, "little")), "segwit": bool(segwit)}


def build(version, ins, outs, locktime, segwit, defaults=False):
    """defaults=True: an empty scriptSig / witness is left as the object the constructor made (what an API user gets who
    builds inputs and fills them in later, in place), instead of being assigned explicitly"""
    from buidl.tx import Tx, TxIn, TxOut
    from buidl.script import Script
    from buidl.witness import Witness
    tins = []
    for i in ins:
        if defaults and not i["script"]:
            t = TxIn(i["txid"], i["idx"], sequence=i["seq"])
        else:
            t = TxIn(i["txid"], i["idx"], Script(list(i["script"])), i["seq"])
        if not (defaults and not i["wit"]):
            t.witness = Witness(list(i["wit"]))
        tins.append(t)
    touts = [TxOut(o["amount"], Script(list(o["script"]))) for o in outs]
    return Tx(version, tins, touts, locktime, segwit=segwit)


def fields_of(tx):
    """project a library Tx object onto the abstract fields"""
    ins = [{"txid": bytes(i.prev_tx), "idx": int(i.prev_index), "script": list(i.script_sig.commands), "seq": int(i.sequence),
            "wit": [bytes(x) for x in i.witness.items]} for i in tx.tx_ins]
    outs = [{"amount": int(o.amount), "script": list(o.script_pubkey.commands)} for o in tx.tx_outs]
    return jtx(int(tx.version), ins, outs, int(tx.locktime), bool(tx.segwit))


OPCODES = [0, 79, 81, 96, 97, 99, 103, 104, 105, 106, 118, 135, 136, 169, 172, 174, 177, 178, 186, 80, 98, 101, 137, 186, 254, 255]


def rand_script(rng, big=False):
    n = rng.choice([0, 0, 1, 2, 3, 5])
    cmds = []
    for _ in range(n):
        if rng.random() < 0.45:
            cmds.append(rng.choice(OPCODES))
        else:
            ln = rng.choice(BOUNDARY_PUSH) if rng.random() < (0.5 if big else 0.15) else rng.choice([1, 2, 5, 20, 32, 33, 65, 71, 72])
            cmds.append(bytes(rng.randrange(256) for _ in range(ln)))
    return cmds


def rand_wit(rng, big):
    r = rng.random()
    if r < 0.4:
        return []
    n = rng.choice([1, 2, 3, 5])
    items = []
    for _ in range(n):
        ln = rng.choice([0, 0, 1, 32, 64, 65, 71, 72, 252, 253, 300])
        if big and rng.random() < 0.1:
            ln = rng.choice([520, 65535, 65536, 70000])
        items.append(bytes(rng.randrange(256) for _ in range(ln)) if ln < 1000 else bytes([rng.randrange(256)]) * ln)
    return items


def rand_tx(rng, nin=None, nout=None, big=False):
    if nin is None:
        nin = rng.choice([1, 1, 2, 3, 0 if rng.random() < 0.3 else 1])
    if nout is None:
        nout = rng.choice([0, 1, 1, 2, 3])
    segwit = rng.random() < 0.55
    if nin == 0:
        segwit = True            # legacy serialisation with zero inputs collides with the BIP144 marker (out of scope)
    ins = []
    for _ in range(nin):
        ins.append({"txid": bytes(rng.randrange(256) for _ in range(32)) if rng.random() < 0.8 else rng.choice([b"\x00" * 32, b"\xff" * 32, b"\x00" * 31 + b"\x01"]),
                    "idx": rng.choice([0, 1, 2, 0xFFFFFFFF, 0x80000000, rng.randrange(2 ** 32)]),
                    "script": rand_script(rng, big) if nin < 50 else rand_script(rng)[:1],
                    "seq": rng.choice([0xFFFFFFFF, 0xFFFFFFFE, 0, 1, 0x80000000, 0x400001, rng.randrange(2 ** 32)]),
                    "wit": (rand_wit(rng, big) if nin < 50 else rng.choice([[], [b""], [b"\x01\x02"]])) if segwit else []})
    outs = []
    for _ in range(nout):
        outs.append({"amount": rng.choice([0, 1, 546, 2 ** 32 - 1, 2 ** 32, 21 * 10 ** 14, 2 ** 63 - 1, 2 ** 63, 2 ** 64 - 1, rng.randrange(2 ** 64)]),
                     "script": rand_script(rng, big) if nout < 50 else rand_script(rng)[:1]})
    version = rng.choice([1, 2, 2, 0, 0xFFFFFFFF, 0x80000000, rng.randrange(2 ** 32)])
    locktime = rng.choice([0, 0, 1, 499999999, 500000000, 0xFFFFFFFF, rng.randrange(2 ** 32)])
    return version, ins, outs, locktime, segwit


def tx_events(ctx, cases, tag, spec):
    """serialize / parse / id events for one abstract transaction"""
    from buidl.tx import Tx
    version, ins, outs, locktime, segwit = spec
    j = jtx(*spec)
    tx = build(*spec)
    r = outcome(tx.serialize)
    cases.append({"id": tag + ".ser", "kind": "ser", "tx": j, "res": r[0], "bytes": B(r[1]) if r[0] == "ok" else []})
    pushlens = sorted({len(c) for i in ins for c in i["script"] if not isinstance(c, int)} | {len(c) for o in outs for c in o["script"] if not isinstance(c, int)})
    ctx.nontriv(("ser", len(ins) if len(ins) < 4 else "many", len(outs) if len(outs) < 4 else "many", segwit, tuple(p for p in pushlens if p in BOUNDARY_PUSH)))
    if r[0] != "ok":
        return
    raw = r[1]
    rid = outcome(tx.id)
    legacy = outcome(tx.serialize_legacy)
    hr = [{"fn": "hash256", "in": B(legacy[1]), "out": B(h256(legacy[1]))}] if legacy[0] == "ok" else []
    cases.append({"id": tag + ".id", "kind": "id", "tx": j, "res": rid[0], "txid": B(bytes.fromhex(rid[1])) if rid[0] == "ok" else [], "hr": hr})
    p = outcome(Tx.parse, io.BytesIO(raw))
    if p[0] == "ok":
        rs = outcome(p[1].serialize)
        cases.append({"id": tag + ".parse", "kind": "parse", "bytes": B(raw), "res": "ok" if rs[0] == "ok" else "raise",
                      "tx": fields_of(p[1]), "reser": B(rs[1]) if rs[0] == "ok" else []})
    else:
        cases.append({"id": tag + ".parse", "kind": "parse", "bytes": B(raw), "res": "raise", "tx": j, "reser": []})


def history_events(ctx, cases, rng, tag, spec, steps):
    """TxLaws' edit machine on one real object: id / hash / serialize are queried, a field is edited (witness or non-witness,
    by attribute assignment or in place), and they are queried again.  The specification is evaluated on the harness' own
    model of the fields, never on what is read back from the object."""
    import copy
    from buidl.tx import TxOut
    from buidl.script import Script
    from buidl.timelock import Sequence, Locktime
    version, ins, outs, locktime, segwit = copy.deepcopy(spec)
    defaults = rng.random() < 0.5
    if defaults:      # inputs that start empty and are filled in place afterwards
        for i in ins:
            if rng.random() < 0.7:
                i["wit"] = []
            if rng.random() < 0.5:
                i["script"] = []
    tx = build(version, ins, outs, locktime, segwit, defaults=defaults)

    def query(step, what):
        j = jtx(version, ins, outs, locktime, segwit)
        r = outcome(tx.serialize)
        cases.append({"id": "%s.%d.ser" % (tag, step), "kind": "ser", "tx": j, "res": r[0], "bytes": B(r[1]) if r[0] == "ok" else [], "after": what})
        rid = outcome(tx.id)
        legacy = outcome(tx.serialize_legacy)
        hr = [{"fn": "hash256", "in": B(legacy[1]), "out": B(h256(legacy[1]))}] if legacy[0] == "ok" else []
        # certify the hash of the model's own legacy bytes as well (the object's may be stale)
        cases.append({"id": "%s.%d.id" % (tag, step), "kind": "id", "tx": j, "res": rid[0], "txid": B(bytes.fromhex(rid[1])) if rid[0] == "ok" else [], "hr": hr, "after": what})
        rh = outcome(tx.hash)
        if rh[0] == "ok" and rid[0] == "ok" and rh[1] != bytes.fromhex(rid[1]):
            cases.append({"id": "%s.%d.hash" % (tag, step), "kind": "id", "tx": j, "res": "ok", "txid": B(rh[1]), "hr": hr, "after": what + ":hash()"})
    query(0, "build")
    for step in range(1, steps + 1):
        kinds = ["locktime", "version"]
        if ins:
            kinds += ["seq", "outpoint", "script_sig", "script_sig_inplace"]
            if segwit:
                kinds += ["wit_replace", "wit_append", "wit_append", "wit_pop"]
        if outs:
            kinds += ["amount", "out_script", "del_output"]
        kinds += ["add_output"]
        what = rng.choice(kinds)
        k = rng.randrange(len(ins)) if ins else 0
        o = rng.randrange(len(outs)) if outs else 0
        if what == "locktime":
            locktime = rng.choice([0, 1, 500000000, 0xFFFFFFFF, rng.randrange(2 ** 32)])
            tx.locktime = Locktime(locktime)
        elif what == "version":
            version = rng.choice([1, 2, 3, rng.randrange(2 ** 32)])
            tx.version = version
        elif what == "seq":
            ins[k]["seq"] = rng.choice([0, 0xFFFFFFFE, 0xFFFFFFFF, rng.randrange(2 ** 32)])
            tx.tx_ins[k].sequence = Sequence(ins[k]["seq"])
        elif what == "outpoint":
            if rng.random() < 0.5:
                ins[k]["idx"] = rng.randrange(2 ** 32)
                tx.tx_ins[k].prev_index = ins[k]["idx"]
            else:
                ins[k]["txid"] = bytes(rng.randrange(256) for _ in range(32))
                tx.tx_ins[k].prev_tx = ins[k]["txid"]
        elif what == "script_sig":
            ins[k]["script"] = rand_script(rng)
            tx.tx_ins[k].script_sig = Script(list(ins[k]["script"]))
        elif what == "script_sig_inplace":
            item = bytes(rng.randrange(256) for _ in range(rng.choice([1, 20, 33, 72])))
            ins[k]["script"] = list(ins[k]["script"]) + [item]
            tx.tx_ins[k].script_sig.commands.append(item)
        elif what == "wit_replace":
            from buidl.witness import Witness
            ins[k]["wit"] = rand_wit(rng, False)
            tx.tx_ins[k].witness = Witness(list(ins[k]["wit"]))
        elif what == "wit_append":
            item = bytes(rng.randrange(256) for _ in range(rng.choice([0, 1, 33, 64, 72])))
            ins[k]["wit"] = list(ins[k]["wit"]) + [item]
            tx.tx_ins[k].witness.items.append(item)
        elif what == "wit_pop":
            if ins[k]["wit"]:
                ins[k]["wit"] = list(ins[k]["wit"])[:-1]
                tx.tx_ins[k].witness.items.pop()
        elif what == "amount":
            outs[o]["amount"] = rng.choice([0, 1, 546, 2 ** 32, rng.randrange(2 ** 63)])
            tx.tx_outs[o].amount = outs[o]["amount"]
        elif what == "out_script":
            outs[o]["script"] = rand_script(rng)
            tx.tx_outs[o].script_pubkey = Script(list(outs[o]["script"]))
        elif what == "del_output":
            del outs[o]
            del tx.tx_outs[o]
        elif what == "add_output":
            new = {"amount": rng.randrange(2 ** 40), "script": rand_script(rng)}
            outs.append(new)
            tx.tx_outs.append(TxOut(new["amount"], Script(list(new["script"]))))
        query(step, what)
        ctx.nontriv(("history", what, segwit))


def script_events(ctx, cases, rng, lengths):
    from buidl.script import Script
    for ln in lengths:
        cmds = [rng.choice(OPCODES), bytes(rng.randrange(256) for _ in range(ln)), 172]
        if rng.random() < 0.5:
            cmds.append(bytes(rng.randrange(256) for _ in range(rng.choice(BOUNDARY_PUSH))))
        r = outcome(Script(list(cmds)).raw_serialize)
        if r[0] == "ok":
            back = outcome(Script.parse, raw=r[1])
            parsed = [jcmd(c) for c in back[1].commands] if back[0] == "ok" else []
        else:
            parsed = []
        cases.append({"id": "s%d" % ln, "kind": "script", "cmds": [jcmd(c) for c in cmds], "res": r[0],
                      "raw": B(r[1]) if r[0] == "ok" else [], "parsed": parsed, "plen": ln})
        ctx.nontriv(("script-push", ln))


# ------------------------------------------------------------------ fetcher replay (A)
def fetcher_replay(ctx, rng):
    """Replay every behaviour of specs/tx/Fetcher.tla up to depth 2 (universe: a canonical legacy tx, a legacy tx
    with a non-minimal push, a segwit tx; answers: the tx, the tx + trailing bytes, non-hex) through the real fetcher."""
    from unittest import mock
    from buidl import tx as T

    def legacy(canon):
        push = b"\x03abc" if canon else b"\x4c\x03abc"
        return (bytes.fromhex("01000000") + b"\x01" + bytes(rng.randrange(256) for _ in range(32)) + b"\x00\x00\x00\x00" +
                bytes([len(push)]) + push + b"\xff\xff\xff\xff" + b"\x01" + (1000).to_bytes(8, "little") + b"\x01\x51" + b"\x00" * 4)
    seg = build(2, [{"txid": b"\x11" * 32, "idx": 0, "script": [], "seq": 0xFFFFFFFF, "wit": [b"\x01", b"\x02\x03"]}],
                [{"amount": 5, "script": [81]}], 0, True).serialize()
    universe = {"L1": (legacy(True), True), "L2": (legacy(False), False), "S1": (seg, True)}

    def obj_id(name):        # id of the object the library would build from these bytes (spec: Id(t))
        return T.Tx.parse(io.BytesIO(universe[name][0])).id()

    answers = []
    for name, (raw, _) in universe.items():
        for extra in (b"", b"\xde\xad"):
            answers.append((name, extra, (raw + extra).hex()))
    answers.append((None, b"", "zz-not-hex"))
    ids = {}
    for name, (raw, _) in universe.items():
        ids["id:" + name] = obj_id(name)
        for extra in (b"", b"\xde\xad"):
            ids["raw:%s:%s" % (name, extra.hex())] = h256(raw + extra)[::-1].hex()
    n = 0
    steps = [(i, f, a) for i in sorted(ids) for f in (False, True) for a in range(len(answers))]
    behaviours = [(s,) for s in steps] + [(s1, s2) for s1 in rng.sample(steps, 12) for s2 in steps]
    for beh in behaviours:
        T.TxFetcher.cache = {}
        model_cache = {}
        for (idk, fresh, ai) in beh:
            tid = ids[idk]
            name, extra, text = answers[ai]

            class R:
                def read(self_inner):
                    return text.encode()
            with mock.patch.object(T, "urlopen", lambda req: R()):
                res = outcome(T.TxFetcher.fetch, tid, "mainnet", fresh)
            # specification (Fetcher.tla with CheckParsed = TRUE): a returned tx always hashes to the requested id
            n += 1
            if res[0] == "ok":
                got = outcome(res[1].id)
                ctx.nontriv(("fetch-returned", idk.split(":")[0], fresh, extra != b""))
                if got != ("ok", tid):
                    ctx.violation("fetcher:returned-tx-does-not-hash-to-requested-id:%s" % idk.split(":")[0],
                                  "fetch(%s, fresh=%s) with server answer %s%s returned a transaction whose id is %s"
                                  % (tid, fresh, name, "+trailing" if extra else "", got),
                                  {"kind": "fetcher", "behaviour": [list(map(str, s)) for s in beh]})
            for k, v in T.TxFetcher.cache.items():
                if outcome(v.id) != ("ok", k):
                    ctx.violation("fetcher:cache-entry-does-not-hash-to-key", "cache[%s] has id %s" % (k, outcome(v.id)),
                                  {"kind": "fetcher", "behaviour": [list(map(str, s)) for s in beh]})
        T.TxFetcher.cache = {}
    ctx.evaluations += n
    ctx.traces += len(behaviours)
    ctx.sample({"fetcher_behaviour": [list(map(str, s)) for s in behaviours[-1]]})


def run(ctx):
    rng = random.Random(ctx.seed)
    q = ctx.quick
    ctx.rule = ("cases = serialize/parse/id/script events of transactions built through the API from random and boundary "
                "fields, each decided by TLC with specs/lib/TxWire.tla; distinct = (input-count class, output-count class, "
                "segwit, set of boundary push lengths present) and each push length; non-trivial = the codec ran on it")
    ctx.assumptions = ["a legacy serialisation with zero inputs is indistinguishable from the BIP144 marker (format "
                       "ambiguity shared with Bitcoin Core): such transactions are generated with the segwit flag only",
                       "zero-length pushes are identified with OP_0 (identical on the wire)",
                       "parse is exercised on canonical encodings (the serialiser's own output), as the property states"]
    if ctx.want("mc"):
        r = ctx.mc_expect_ok("tx/TxLaws.tla", "TxLaws.cfg", what="wire codec laws and txid action properties",
                             env={"MAXEDITS": 4 if q else 5}, timeout=7200)
        ctx.exhaustive.append("TxLaws: every transaction reachable by <= %d API edits over the boundary universe (%d states)"
                              % (4 if q else 5, r.distinct))
        r = ctx.mc_expect_ok("tx/MC_Fetcher.tla", "MC_FetcherFixed.cfg", what="fetcher returns only transactions hashing to the requested id")
        ctx.exhaustive.append("Fetcher: all sequences of (id, fresh, answer) over 4 tx kinds x {exact, trailing bytes, non-hex}, cache <= 3 (%d states)" % r.distinct)
        # the pre-repair policy (raw hash only) must be refuted by TLC: keeps the model honest about why the check exists
        r0 = ctx.mc("tx/MC_Fetcher.tla", "MC_Fetcher.cfg")
        if not r0.invariant:
            raise Exception("vacuity: the unrepaired fetcher policy was expected to violate ReturnedHashesToId")
    if ctx.want("fetcher"):
        fetcher_replay(ctx, rng)
    if ctx.want("cases"):
        cases = []
        n = 150 if q else 1500
        for k in range(n):
            tx_events(ctx, cases, "t%d" % k, rand_tx(rng, big=(k % 5 == 0)))
        # edit histories on one object (TxLaws' edit machine bound to the code): the id follows every non-witness edit and no witness edit
        for k in range(60 if q else 600):
            sp = rand_tx(rng)
            if len(sp[1]) == 0:
                continue
            history_events(ctx, cases, rng, "h%d" % k, sp, 4 if q else 6)
        # outputs whose scripts have the SHAPE of the standard templates but arbitrary programs: to the wire codec they are just bytes
        # (a 32-byte witness-v1 program need not be a point; a "hash" need not be a hash)
        shapes = [[0x51, b"\xff" * 32], [0x51, bytes(32)], [0x51, bytes(range(2, 34))], [0x51, bytes([7]) * 32], [0, bytes(20)], [0, b"\xee" * 32], [0xA9, b"\x01" * 20, 0x87],
                  [0x76, 0xA9, bytes(20), 0x88, 0xAC], [0x60, b"\x01\x02"], [0x51, b"\x02" * 33], [0x52, b"\x03" * 32], [0x6A, b"data"], [0x51, b"\x00" * 31 + b"\x05"]]
        for k, sh in enumerate(shapes):
            sp = rand_tx(rng, 1, 1)
            sp[2][0]["script"] = list(sh)
            tx_events(ctx, cases, "shape%d" % k, sp)
        # count boundaries of the compact-size prefix
        for nin, nout in ([(252, 1), (253, 2), (1, 253)] if q else [(0, 1), (252, 1), (253, 2), (254, 0), (300, 300), (1, 252), (2, 253), (1, 300)]):
            tx_events(ctx, cases, "c%d_%d" % (nin, nout), rand_tx(rng, nin, nout))
        # every push length 0..520 (quick: boundaries + sample)
        lens = sorted(set(BOUNDARY_PUSH + [rng.randrange(521) for _ in range(40)])) if q else list(range(521))
        script_events(ctx, cases, rng, lens)
        if not q:
            for k in range(6):
                tx_events(ctx, cases, "big%d" % k, rand_tx(rng, 1, 1, big=True))
        byid = {c["id"]: c for c in cases}
        ctx.sample({k: (v if k != "tx" else "...") for k, v in cases[0].items() if k in ("id", "kind", "res")})
        ctx.sample({"tx_fields": cases[0]["tx"]})
        bad = ctx.validate("tx/C04Cases.tla", cases, "C04Cases.cfg", timeout=7200, per_shard_min=20, heap="4g")
        for cid, why in bad.items():
            c = byid[cid]
            key = "%s:%s" % (c["kind"], why)
            if c["kind"] == "script":
                key += ":push%d" % c["plen"]
            if "after" in c and c["after"] != "build":
                key += ":after-edit:" + c["after"]
            ctx.violation(key, "recorded %s event rejected by TxWire: %s (case %s)" % (c["kind"], why, cid), {"kind": "case", "case": c})
