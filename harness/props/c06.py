"""C06 — input verification (specs/spend/SpendRef.tla, C06Cases.tla).

Every standard output type is spent through the library's own signing helpers with fresh keys; each honest
spend and every mutation of the catalogue is run through Tx.verify_input and decided by TLC with the byte-level
reference verifier SpendRef (P2SH / BIP141 / BIP143 / BIP341 / BIP342 rules) whose cryptography is given by
by-construction oracles (which key made which signature over which fields; which control block commits to which
output key; certified hash rows).  Checked:  honest => accepted;  accepted => the reference accepts.
"""
import contextlib
import io
import random
from concurrent.futures import ProcessPoolExecutor

from ..core import B, outcome, hash_prim, NCPU
from .c04 import jcmd

TYPES = ["p2pkh", "p2sh", "p2wpkh", "p2sh-p2wpkh", "p2wsh", "p2sh-p2wsh", "p2tr-key", "p2tr-key-tree", "p2tr-pk", "p2tr-multi"]
N_ORDER = 0xFFFFFFFFFFFFFFFFFFFFFFFFFFFFFFFEBAAEDCE6AF48A03BBFD25E8CD0364141


class Scenario:
    def __init__(self, typ, m, n, seed):
        from buidl.ecc import PrivateKey
        self.rng = random.Random(seed)
        self.typ, self.m, self.n = typ, m, n
        r = self.rng
        self.keys = [PrivateKey(r.randrange(1, N_ORDER)) for _ in range(n)]
        self.foreign = PrivateKey(r.randrange(1, N_ORDER))
        self.sigrows = []      # by-construction signature oracle
        self.taprows = []
        self.build()

    # ------------------------------------------------------------------ construction
    def rb(self, k):
        return bytes(self.rng.randrange(256) for _ in range(k))

    def build(self):
        from buidl.tx import Tx, TxIn, TxOut
        from buidl.script import Script, P2PKHScriptPubKey, P2SHScriptPubKey, P2WPKHScriptPubKey, P2WSHScriptPubKey, \
            P2TRScriptPubKey, RedeemScript, WitnessScript
        from buidl.taproot import TapBranch, MultiSigTapScript, P2PKTapScript
        from buidl.helper import hash160, sha256
        r = self.rng
        nin = r.choice([1, 2, 3])
        self.j = r.randrange(nin)
        tins = []
        for k in range(nin):
            t = TxIn(self.rb(32), r.randrange(4), sequence=r.choice([0xFFFFFFFF, 0xFFFFFFFE, 5]))
            t._value = r.randrange(10 ** 4, 10 ** 9)
            t._script_pubkey = P2PKHScriptPubKey(self.rb(20)) if self.typ not in ("p2tr-key", "p2tr-key-tree", "p2tr-pk", "p2tr-multi") else P2TRScriptPubKey(self.rb(32))
            tins.append(t)
        touts = [TxOut(r.randrange(1, 10 ** 8), P2PKHScriptPubKey(self.rb(20))) for _ in range(r.choice([1, 2, 3]))]
        self.tx = Tx(2, tins, touts, r.choice([0, 500000]), segwit=self.typ not in ("p2pkh", "p2sh"))
        ti = tins[self.j]
        K = self.keys
        typ = self.typ
        self.redeem = self.wscript = None
        if typ == "p2pkh":
            ti._script_pubkey = P2PKHScriptPubKey(K[0].point.hash160())
        elif typ in ("p2sh", "p2wsh", "p2sh-p2wsh"):
            secs = [k.point.sec() for k in K]
            if r.random() < 0.7:
                order = sorted(range(self.n), key=lambda i: secs[i])
                self.keys = K = [K[i] for i in order]
                secs = [secs[i] for i in order]
            cmds = [0x50 + self.m] + secs + [0x50 + self.n, 174]
            if typ == "p2sh":
                self.redeem = RedeemScript(cmds)
                ti._script_pubkey = P2SHScriptPubKey(hash160(self.redeem.raw_serialize()))
            else:
                self.wscript = WitnessScript(cmds)
                prog = P2WSHScriptPubKey(sha256(self.wscript.raw_serialize()))
                if typ == "p2wsh":
                    ti._script_pubkey = prog
                else:
                    self.redeem = RedeemScript(prog.commands)
                    ti._script_pubkey = P2SHScriptPubKey(hash160(self.redeem.raw_serialize()))
        elif typ == "p2wpkh":
            ti._script_pubkey = P2WPKHScriptPubKey(K[0].point.hash160())
        elif typ == "p2sh-p2wpkh":
            self.redeem = K[0].point.p2sh_p2wpkh_redeem_script()
            ti._script_pubkey = P2SHScriptPubKey(hash160(self.redeem.raw_serialize()))
        elif typ == "p2tr-key":
            self.root = b""
            self.internal = K[0]
            ti._script_pubkey = P2TRScriptPubKey(K[0].point.tweaked_key(b""))
        else:
            # script trees: the leaf we spend plus 0..2 decoy leaves
            self.internal = self.foreign if typ != "p2tr-key-tree" else K[0]
            if typ == "p2tr-multi":
                self.tapscript = MultiSigTapScript([k.point for k in K], self.m)
            else:
                self.tapscript = P2PKTapScript(K[0].point if typ == "p2tr-pk" else self.foreign.point)
            leaf = self.tapscript.tap_leaf()
            decoys = [P2PKTapScript(self.rb(32)).tap_leaf() for _ in range(r.choice([0, 1, 2]))]
            nodes = decoys + [leaf]
            r.shuffle(nodes)
            self.tree = TapBranch.combine(nodes)
            self.leaf = leaf
            self.root = self.tree.hash()
            self.outpoint = self.internal.point.tweaked_key(self.root)
            ti._script_pubkey = P2TRScriptPubKey(self.outpoint)
            self.cb = self.tree.control_block(self.internal.point, leaf)
            for lf in nodes:
                c = self.tree.control_block(self.internal.point, lf)
                self.taprows.append({"cb": B(c.serialize()), "script": B(lf.tap_script.raw_serialize()), "outkey": B(self.outpoint.xonly())})
            self.decoys = decoys
        self.spk = list(ti._script_pubkey.commands)

    def add_sigrow(self, sig, pub, alg, ht, scriptkey=True):
        self.sigrows.append({"sig": B(sig), "pub": B(pub), "alg": alg, "ht": ht, "changed": [], "scriptkey": scriptkey})

    def required_items(self):
        """items the output commits to and a spend must therefore carry (besides signatures)"""
        typ = self.typ
        req = []
        if typ in ("p2pkh", "p2wpkh", "p2sh-p2wpkh"):
            req.append(self.keys[0].point.sec())
        if typ in ("p2sh", "p2sh-p2wpkh", "p2sh-p2wsh"):
            req.append(self.redeem.raw_serialize())
        if typ in ("p2wsh", "p2sh-p2wsh"):
            req.append(self.wscript.raw_serialize())
        if typ in ("p2tr-pk", "p2tr-multi"):
            req += [self.tapscript.raw_serialize(), self.cb.serialize()]
        return [B(x) for x in req]

    def ecdsa(self, key, alg):
        """signature by `key` over the current transaction for input j (the library's own helper)"""
        tx, j = self.tx, self.j
        if alg == "legacy":
            sig = tx.get_sig_legacy(j, key, redeem_script=self.redeem)
        else:
            sig = tx.get_sig_segwit(j, key, redeem_script=self.redeem if self.typ == "p2sh-p2wpkh" else None, witness_script=self.wscript)
        self.add_sigrow(sig, key.point.sec(), alg, 1)
        return sig

    def sign_honest(self, signers=None):
        """build the honest spend with the library's helpers; returns (script_sig cmds, witness items)"""
        from buidl.script import Script
        from buidl.witness import Witness
        tx, j, typ = self.tx, self.j, self.typ
        ti = tx.tx_ins[j]
        K = self.keys
        signers = list(range(self.m)) if signers is None else signers
        if typ == "p2pkh":
            sig = self.ecdsa(K[0], "legacy")
            ti.finalize_p2pkh(sig, K[0].point.sec())
        elif typ == "p2wpkh":
            sig = self.ecdsa(K[0], "bip143")
            ti.finalize_p2wpkh(sig, K[0].point.sec())
        elif typ == "p2sh-p2wpkh":
            sig = self.ecdsa(K[0], "bip143")
            ti.finalize_p2wpkh(sig, K[0].point.sec(), self.redeem)
        elif typ == "p2sh":
            sigs = [self.ecdsa(K[i], "legacy") for i in signers]
            ti.finalize_p2sh_multisig(sigs, self.redeem)
        elif typ == "p2wsh":
            sigs = [self.ecdsa(K[i], "bip143") for i in signers]
            ti.finalize_p2wsh_multisig(sigs, self.wscript)
        elif typ == "p2sh-p2wsh":
            sigs = [self.ecdsa(K[i], "bip143") for i in signers]
            ti.finalize_p2sh_p2wsh_multisig(sigs, self.wscript)
        elif typ in ("p2tr-key", "p2tr-key-tree"):
            tweaked = self.internal.tweaked_key(self.root)
            sig = tx.get_sig_taproot(j, tweaked, ext_flag=0)
            self.add_sigrow(sig, tweaked.point.xonly(), "bip341-key", 0)
            ti.finalize_p2tr_keypath(sig)
        elif typ == "p2tr-pk":
            ti.witness = Witness([self.tapscript.raw_serialize(), self.cb.serialize()])
            sig = tx.get_sig_taproot(j, K[0], ext_flag=1)
            self.add_sigrow(sig, K[0].point.xonly(), "tapscript", 0)
            ti.witness = Witness([sig, self.tapscript.raw_serialize(), self.cb.serialize()])
        elif typ == "p2tr-multi":
            tx.initialize_p2tr_multisig(j, self.cb, self.tapscript)
            sigs = []
            for i in signers:
                s = tx.get_sig_taproot(j, K[i], ext_flag=1)
                self.add_sigrow(s, K[i].point.xonly(), "tapscript", 0)
                sigs.append(s)
            with contextlib.redirect_stdout(io.StringIO()):
                outcome(tx.finalize_p2tr_multisig, j, sigs)
        return list(ti.script_sig.commands), list(ti.witness.items)

    # ------------------------------------------------------------------ evaluation
    def verdict(self, ssig, wit):
        from buidl.script import Script
        from buidl.witness import Witness
        ti = self.tx.tx_ins[self.j]
        ti.script_sig = Script(list(ssig))
        ti.witness = Witness(list(wit))
        with contextlib.redirect_stdout(io.StringIO()):
            res = outcome(self.tx.verify_input, self.j)
        return "accept" if res == ("ok", True) else "reject", res

    def case(self, cid, label, ssig, wit, honest, changed=()):
        v, res = self.verdict(ssig, wit)
        strings = set()
        for c in list(ssig) + list(self.spk):
            if isinstance(c, bytes):
                strings.add(c)
        for w in wit:
            strings.add(bytes(w))
        # pushes inside serialized scripts that may get parsed and executed
        from buidl.script import Script
        for s in list(strings):
            if 2 <= len(s) <= 600:
                try:
                    with contextlib.redirect_stdout(io.StringIO()):
                        for c in Script.parse(raw=s).commands:
                            if isinstance(c, bytes):
                                strings.add(c)
                except Exception:
                    pass
        hr = []
        for s in strings:
            hr.append({"fn": "hash160", "in": B(s), "out": B(hash_prim("hash160", s))})
            hr.append({"fn": "sha256", "in": B(s), "out": B(hash_prim("sha256", s))})
        rows = [dict(rw, changed=sorted(set(rw["changed"]) | set(changed))) for rw in self.sigrows]
        ti = self.tx.tx_ins[self.j]
        return {"id": cid, "label": label, "typ": self.typ, "m": self.m, "n": self.n, "honest": honest, "verdict": v, "raw": str(res),
                "ssig": [jcmd(c) for c in ssig], "spk": [jcmd(c) for c in self.spk], "wit": [B(w) for w in wit],
                "sigs": rows, "tap": self.taprows, "hr": hr, "required": self.required_items(),
                "locktime": B(int(self.tx.locktime).to_bytes(4, "little")), "sequence": B(int(ti.sequence).to_bytes(4, "little")),
                "version": B(int(self.tx.version).to_bytes(4, "little"))}

    # ------------------------------------------------------------------ mutation catalogue
    def run(self, tag):
        from buidl.timelock import Sequence, Locktime
        out = []
        r = self.rng
        typ = self.typ
        tx, j = self.tx, self.j
        ssig, wit = self.sign_honest()
        out.append(self.case(tag + ".honest", "honest", ssig, wit, True))
        multisig = typ in ("p2sh", "p2wsh", "p2sh-p2wsh")
        in_wit = typ not in ("p2pkh", "p2sh")

        def items():
            return list(wit) if in_wit else list(ssig)

        def put(new):
            return (list(ssig), new) if in_wit else (new, list(wit))

        def emit(label, s, w, changed=()):
            out.append(self.case("%s.%s" % (tag, label), label, s, w, False, changed))

        its = items()
        # positions of signatures in the item list
        if multisig:
            sigpos = list(range(1, 1 + self.m))
        elif typ == "p2tr-multi":
            sigpos = [k for k in range(len(its) - 2) if len(its[k]) > 0]
        elif typ in ("p2tr-pk", "p2tr-key", "p2tr-key-tree", "p2pkh", "p2wpkh", "p2sh-p2wpkh"):
            sigpos = [0]
        # foreign-key signature over the same transaction (a real signature, wrong key)
        if typ in ("p2tr-key", "p2tr-key-tree"):
            fsig = tx.get_sig_taproot(j, self.foreign, ext_flag=0)
            self.add_sigrow(fsig, self.foreign.point.xonly(), "bip341-key", 0, False)
        elif typ in ("p2tr-pk", "p2tr-multi"):
            fsig = tx.get_sig_taproot(j, self.foreign, ext_flag=1)
            self.add_sigrow(fsig, self.foreign.point.xonly(), "tapscript", 0, False)
        else:
            fsig = self.ecdsa(self.foreign, "legacy" if typ in ("p2pkh", "p2sh") else "bip143")
            self.sigrows[-1]["scriptkey"] = False
        for p in sigpos:
            a = list(its)
            a[p] = fsig
            emit("foreign-sig@%d" % p, *put(a))
            sg = its[p]
            # the hash-type byte says something else than what was signed: another type, the ANYONECANPAY bit, and 0x00 (which no
            # ECDSA digest treats as ALL)
            if len(sg) != 64:
                flips = [("", sg[:-1] + bytes([sg[-1] ^ 0x02])), ("-zero", sg[:-1] + b"\x00"), ("-acp", sg[:-1] + bytes([sg[-1] ^ 0x80]))]
            else:
                # (sg + 00 is left out: BIP341 refuses it as an encoding, but it is the same signature over the same digest, so the
                # spend does not lack authorisation; the library accepts it, which is noted in DESIGN.md as an observation)
                flips = [("", sg + b"\x02"), ("-all", sg + b"\x01")]
            for fl, alt in flips:
                a = list(its)
                a[p] = alt
                emit("flip-sighash%s@%d" % (fl, p), *put(a))
            a = list(its)
            a[p] = b""
            emit("empty-sig@%d" % p, *put(a))
            a = list(its)
            del a[p]
            emit("drop-sig@%d" % p, *put(a))
            a = list(its)
            a[p] = bytes([a[p][0]]) + bytes([a[p][1] ^ 1]) + a[p][2:]
            emit("corrupt-sig@%d" % p, *put(a))
        if len(sigpos) >= 2:
            a = list(its)
            a[sigpos[0]], a[sigpos[1]] = a[sigpos[1]], a[sigpos[0]]
            emit("swap-sigs", *put(a))
            a = list(its)
            a[sigpos[1]] = a[sigpos[0]]
            emit("dup-sig", *put(a))
        if multisig or typ == "p2tr-multi":
            # fewer than m valid signatures, padded in several ways
            if self.m >= 2:
                a = list(its)
                a[sigpos[-1]] = fsig
                emit("m-1-valid+foreign", *put(a))
            if self.n > self.m and multisig:
                # a different valid quorum (other signer subset) must still be fine: not checked as honest, just decided
                pass
        if typ in ("p2pkh", "p2wpkh", "p2sh-p2wpkh"):
            a = list(its)
            a[1] = self.foreign.point.sec()
            emit("wrong-pubkey", *put(a))
            a = list(its)
            a[0] = fsig
            a[1] = self.foreign.point.sec()
            emit("foreign-sig-and-pubkey", *put(a))
        # committed fields changed after signing
        saved = (int(tx.tx_ins[j].sequence), int(tx.locktime), tx.version, tx.tx_ins[j]._value, tx.tx_outs[0].amount, tx.tx_ins[j].prev_index)
        def restore():
            tx.tx_ins[j].sequence = Sequence(saved[0]); tx.locktime = Locktime(saved[1]); tx.version = saved[2]
            tx.tx_ins[j]._value = saved[3]; tx.tx_outs[0].amount = saved[4]; tx.tx_ins[j].prev_index = saved[5]
        tx.tx_outs[0].amount += 1
        emit("changed-output", ssig, wit, ["outputs"]); restore()
        tx.tx_ins[j]._value += 1
        emit("changed-amount", ssig, wit, ["amount_self"]); restore()
        tx.tx_ins[j].sequence = Sequence(saved[0] ^ 1)
        emit("changed-sequence", ssig, wit, ["seq_self"]); restore()
        tx.locktime = Locktime(saved[1] + 1)
        emit("changed-locktime", ssig, wit, ["locktime"]); restore()
        tx.tx_ins[j].prev_index = saved[5] + 1
        emit("changed-outpoint", ssig, wit, ["outpoint_self"]); restore()
        tx.version = 1
        emit("changed-version", ssig, wit, ["version"]); restore()
        if len(tx.tx_ins) > 1:
            o = (j + 1) % len(tx.tx_ins)
            sv = int(tx.tx_ins[o].sequence)
            tx.tx_ins[o].sequence = Sequence(sv ^ 2)
            emit("changed-other-sequence", ssig, wit, ["seq_other"])
            tx.tx_ins[o].sequence = Sequence(sv)
            if typ.startswith("p2tr"):
                ov = tx.tx_ins[o]._value
                tx.tx_ins[o]._value = ov + 1
                emit("changed-other-amount", ssig, wit, ["amount_other"])
                tx.tx_ins[o]._value = ov
        # truncated / annex-only / empty witnesses, scriptSigs without signatures
        junk = self.rb(r.choice([1, 20, 32, 33, 71]))
        if in_wit:
            emit("empty-witness", ssig, [])
            emit("annex-only-witness", ssig, [b"\x50" + self.rb(8)])
            emit("junk-witness", ssig, [junk])
            emit("truncated-witness", ssig, list(wit)[1:])
            emit("witness-last-only", ssig, list(wit)[-1:])
            if typ in ("p2wpkh", "p2wsh", "p2tr-key", "p2tr-key-tree", "p2tr-pk", "p2tr-multi"):
                emit("nonempty-scriptsig-no-witness", [junk], [])
                emit("nonempty-scriptsig-true-no-witness", [0x51], [])
                emit("nonempty-scriptsig+witness", [junk], wit)
                emit("op1-scriptsig+witness", [0x51], wit)
            if typ in ("p2sh-p2wpkh", "p2sh-p2wsh"):
                rd = ssig[-1]
                emit("extra-push-before-redeem", [junk, rd], wit)
                emit("extra-op-before-redeem", [0x51, rd], wit)
                emit("redeem-only-no-witness", [rd], [])
                emit("junk+redeem-no-witness", [junk, rd], [])
                emit("op1+redeem-no-witness", [0x51, rd], [])
        if typ == "p2sh":
            rd = ssig[-1]
            emit("redeem-only", [rd], [])
            emit("op0+redeem", [0, rd], [])
            emit("op0+junk-sigs+redeem", [0] + [b"\x30" + self.rb(70) + b"\x01"] * self.m + [rd], [])
            emit("op1s+redeem", [0x51] * (self.m + 1) + [rd], [])
            emit("op0+op1s+redeem", [0] + [0x51] * self.m + [rd], [])
            emit("sigs-without-redeem", ssig[:-1], [])
            other = bytes([0x51]) + bytes([33]) + self.foreign.point.sec() + bytes([0x51, 174])
            emit("swapped-redeem-script", ssig[:-1] + [other], [])
            emit("true-redeem-script", [bytes([0x51])], [])
        if typ == "p2pkh":
            emit("empty-scriptsig", [], [])
            emit("op1-scriptsig", [0x51], [])
            emit("pubkey-only", [ssig[1]], [])
            emit("op1+pubkey", [0x51, ssig[1]], [])
            # signature-free scriptSigs whose opcodes try to swallow or skip the scriptPubKey
            emit("unterminated-notif", [0x51, 0x51, 100], [])
            emit("unterminated-notif-else", [0x51, 0, 100, 103], [])
            emit("unterminated-if", [0x51, 0, 99], [])
            emit("unterminated-if-else", [0x51, 0x51, 99, 103], [])
            emit("pubkey+unterminated-notif", [ssig[1], 0x51, 0x51, 100], [])
            emit("nested-unterminated", [0x51, 0x51, 0x51, 100, 99, 104], [])
            emit("op-return-first", [0x51, 106], [])
        if typ in ("p2wsh", "p2sh-p2wsh"):
            other = bytes([0x51])
            emit("swapped-witness-script-true", ssig, list(wit)[:-1] + [other])
            emit("witness-script-only", ssig, [wit[-1]])
            emit("op1s+witness-script", ssig, [b""] + [b"\x01"] * self.m + [wit[-1]])
        if typ in ("p2tr-pk", "p2tr-multi"):
            cbb = wit[-1]
            for pos in (0, 1, len(cbb) - 1):
                mc = cbb[:pos] + bytes([cbb[pos] ^ 1]) + cbb[pos + 1:]
                emit("altered-control-block@%d" % pos, ssig, list(wit)[:-1] + [mc])
            emit("truncated-control-block", ssig, list(wit)[:-1] + [cbb[:-32] if len(cbb) > 33 else cbb[:-1]])
            emit("swapped-leaf-script-true", ssig, list(wit)[:-2] + [bytes([0x51]), cbb])
            emit("no-sigs-leaf+cb", ssig, list(wit)[-2:])
            if self.decoys:
                dl = self.decoys[0]
                dcb = self.tree.control_block(self.internal.point, dl).serialize()
                emit("decoy-leaf-with-our-sigs", ssig, list(wit)[:-2] + [dl.tap_script.raw_serialize(), dcb])
                emit("our-leaf-with-decoy-cb", ssig, list(wit)[:-1] + [dcb])
            emit("annex-appended", ssig, list(wit) + [b"\x50" + self.rb(3)], ["annex"])
        if typ in ("p2tr-key", "p2tr-key-tree"):
            emit("sig+annex", ssig, list(wit) + [b"\x50\x01"], ["annex"])
        return out


# ------------------------------------------------------------------ binding A: replay of the SpendMC universe
MC_KINDS = [("p2pkh", 1), ("p2sh", 1), ("p2sh", 2), ("p2wpkh", 1), ("p2wsh", 1), ("p2wsh", 2), ("p2sh-p2wpkh", 1),
            ("p2sh-p2wsh", 1), ("p2sh-p2wsh", 2), ("p2tr-key", 1), ("p2tr-multi", 2)]


def replay_rows(args):
    """concretise every spend of the model's universe with real keys / signatures / scripts and run verify_input"""
    from ..core import setup_repo_import
    setup_repo_import()
    kind, m, rows, seed = args
    typ = {"p2tr-multi": "p2tr-multi"}.get(kind, kind)
    n = 2 if kind in ("p2sh", "p2wsh", "p2sh-p2wsh", "p2tr-multi") else 1
    sc = Scenario(typ, m if n == 2 else 1, n, seed)
    sc.keys = sc.keys            # script order: A = first key of the script, B = second
    ssig_h, wit_h = sc.sign_honest(list(range(n)))     # signatures by every script key
    tx, j = sc.tx, sc.j
    K = sc.keys
    atoms = {"junk": sc.rb(3), "empty": b"", "one": b"\x01", "annex": b"\x50\x07", "op0": 0, "op1": 0x51}
    rowsig = {bytes(r["pub"]): bytes(r["sig"]) for r in sc.sigrows}
    if kind in ("p2tr-key", "p2tr-multi"):
        ext = 0 if kind == "p2tr-key" else 1
        def sch(key):
            return tx.get_sig_taproot(j, key, ext_flag=ext)
        if kind == "p2tr-key":
            atoms["sigOut"] = wit_h[0]
            atoms["sigA"] = sch(K[0])
            atoms["sigB"] = sch(sc.foreign)
            atoms["sigF"] = tx.get_sig_taproot(j, type(K[0])(12345), ext_flag=0)
        else:
            xs = [p.xonly() for p in sc.tapscript.points]           # script order
            atoms["sigA"] = rowsig[xs[0]]
            atoms["sigB"] = rowsig[xs[1]]
            atoms["sigF"] = sch(sc.foreign)
            atoms["leaf"] = sc.tapscript.raw_serialize()
            atoms["cb"] = sc.cb.serialize()
    else:
        alg = "legacy" if kind in ("p2pkh", "p2sh") else "bip143"
        atoms["sigA"] = rowsig[K[0].point.sec()]
        atoms["sigB"] = rowsig[K[1].point.sec()] if n == 2 else sc.ecdsa(type(K[0])(777), alg)
        atoms["sigF"] = sc.ecdsa(sc.foreign, alg)
        atoms["pubA"] = K[0].point.sec()
        atoms["pubF"] = sc.foreign.point.sec()
        if sc.wscript is not None:
            atoms["wscript"] = sc.wscript.raw_serialize()
        if sc.redeem is not None:
            atoms["redeem"] = sc.redeem.raw_serialize()
    out = []
    for r in rows:
        ssig = [atoms[x] for x in r["ssig"]]
        wit = [atoms[x] for x in r["wit"]]
        v, res = sc.verdict(ssig, wit)
        out.append((r["ssig"], r["wit"], r["accept"], r["need"], v, str(res)))
    return kind, m, out


def work(args):
    from ..core import setup_repo_import
    setup_repo_import()
    typ, m, n, seed, tag = args
    try:
        return Scenario(typ, m, n, seed).run(tag)
    except Exception as e:      # scenario construction failure is a machinery problem, reported upstream
        import traceback
        return [{"error": "%s: %s" % (tag, traceback.format_exc()[-1500:])}]


def run(ctx):
    rng = random.Random(ctx.seed)
    q = ctx.quick
    ctx.rule = ("cases = honest spends of every standard output type built and signed through the library, and every "
                "mutation of the catalogue applied to them; distinct = (output type, m-of-n, mutation label, library verdict); "
                "non-trivial = Tx.verify_input ran on the spend and TLC evaluated the reference verifier on it")
    ctx.assumptions = ["ideal signatures: a signature verifies only under the key that made it, over the fields it commits to "
                       "(forgery is C01/C02's subject); hash160/sha256 rows from hashlib",
                       "Committed(alg, hash type) in SpendRef.tla decides whether a field changed after signing invalidates a signature"]
    if ctx.want("mc"):
        maxitems = 3 if q else 4
        thunks = []
        for kind, m in MC_KINDS:
            thunks.append(lambda kind=kind, m=m: (kind, m, ctx.table("spend/MC_Spend.tla", "MC_Spend.cfg", workers=2, timeout=7200,
                                                                       env={"KIND": kind, "M": m, "MAXITEMS": maxitems, "EXPORT": 1})))
        tables = ctx.parallel(thunks, workers=8)
        ctx.exhaustive.append("SpendMC: every spend of <= %d witness/scriptSig items from the adversary alphabet for %d output kinds: "
                              "OnlyAuthorisedAccepted, HonestAccepted" % (maxitems, len(MC_KINDS)))
        rjobs = []
        for kind, m, rows in tables:
            # split big tables over several processes (each builds its own keys; atoms are per scenario)
            chunk = 700
            for k in range(0, len(rows), chunk):
                rjobs.append((kind, m, rows[k:k + chunk], rng.randrange(2 ** 60)))
        nrep = 0
        from ..core import pool_map
        if True:
            for kind, m, res in pool_map(ctx, replay_rows, rjobs):
                for (ss, ww, acc, need, v, raw) in res:
                    nrep += 1
                    if v == "accept":
                        ctx.nontriv(("mc-replay-accept", kind, m, tuple(ss), tuple(ww)))
                    if v == "accept" and not need:
                        shape = "%s|%s" % (",".join(ss), ",".join(ww))
                        ctx.violation("mc-replay:accepts-unauthorised-spend:%s:%s" % (kind, shape),
                                      "%s (m=%d): scriptSig %s witness %s accepted by verify_input although it lacks authorisation (SpendMC.NeedOf)" % (kind, m, ss, ww),
                                      {"kind": "mc-row", "output": kind, "m": m, "ssig": ss, "wit": ww})
                    # the model's honest spend (accepted by the reference with the canonical shape) must be accepted
                ctx.nontriv(("mc-replay", kind, m))
        ctx.evaluations += nrep
        ctx.traces += nrep
        ctx.sample({"mc_row": {"kind": tables[0][0], "ssig": tables[0][2][1]["ssig"], "wit": tables[0][2][1]["wit"], "accept": tables[0][2][1]["accept"]}})
    if not ctx.want("cases"):
        return
    jobs = []
    quorums = [(1, 1), (1, 2), (2, 2), (2, 3)] if q else [(1, 1), (1, 2), (2, 2), (1, 3), (2, 3), (3, 3), (2, 4), (3, 5), (5, 5), (1, 5)]
    reps = 1 if q else 3
    for rep in range(reps):
        for typ in TYPES:
            if typ in ("p2sh", "p2wsh", "p2sh-p2wsh", "p2tr-multi"):
                for (m, n) in quorums:
                    jobs.append((typ, m, n, rng.randrange(2 ** 60), "%s_%dof%d_r%d" % (typ, m, n, rep)))
            else:
                jobs.append((typ, 1, 1, rng.randrange(2 ** 60), "%s_r%d" % (typ, rep)))
    cases = []
    from ..core import pool_map
    if True:
        for res in pool_map(ctx, work, jobs):
            for c in res:
                if "error" in c:
                    raise Exception("scenario construction failed: " + c["error"])
                cases.append(c)
    byid = {c["id"]: c for c in cases}
    for c in cases:
        ctx.nontriv((c["typ"], c["m"], c["n"], c["label"].split("@")[0], c["verdict"]))
    ctx.sample({k: cases[0][k] for k in ("id", "label", "typ", "verdict", "ssig", "wit")})
    ctx.sample({"labels": sorted({c["label"].split("@")[0] for c in cases})})
    send = [{k: v for k, v in c.items() if k not in ("label", "typ", "n", "raw")} for c in cases]
    bad = ctx.validate("spend/C06Cases.tla", send, "C06Cases.cfg", timeout=7200, per_shard_min=10)
    for cid, why in bad.items():
        c = byid[cid]
        ctx.violation("%s:%s:%s" % (why, c["typ"], c["label"].split("@")[0]),
                      "%s %d-of-%d, mutation %s: library verdict %s (%s); %s" % (c["typ"], c["m"], c["n"], c["label"], c["verdict"], c["raw"], why),
                      {"kind": "case", "case": c})
