"""C02 — BIP340 Schnorr (specs/curve/Sigs.tla toy universe, specs/curve/SigCases.tla real curve).

(C/A) toy prime-order curves (a = 0, p = 3 mod 4) with the tagged hashes rebound to the toy hash family of Sigs.tla:
      TLC checks that every signature it derives verifies and exports the complete sign table (every secret of both
      parities x messages x aux) and verify table (every x-only key candidate incl. non-points, every (R, s) incl.
      R >= p, s >= n); sign_schnorr / verify_schnorr / SchnorrSignature.parse / parse_xonly run unmodified on the toy
      group and must agree row by row.
(B)   secp256k1: sign_schnorr calls (secrets of both parities, boundary and random messages / aux) are recorded with
      nonce, points and certified tagged-hash rows; TLC re-derives t, rand, k, e, s with big-number certificates and
      compares the 64 bytes; verification verdicts for the honest signature, every single-bit flip of sampled
      signatures and the boundary catalogue are decided by TLC in the scalar model.
"""
import random

from ..core import toy_guard, B, outcome, hash_prim
from ..toycurve import toy
from .c01 import sigs_cfg, dec
from .c03 import le, N256, P256

TOY = [(7, 0, 3), (31, 0, 3), (67, 0, 7)]


def replay_toy(ctx, tables):
    cnt = 0
    for (p, a, b, n, g), mode, tab in tables:
        if not tab:
            continue
        with toy(p, a, b, n, g, toy_hash=True) as pecc:
            if mode == "schnorr":
                pks = {}
                # one PrivateKey object per secret, rows of one (secret, message) adjacent: signing must not depend on earlier calls
                for r in sorted(tab["rows"], key=lambda r: (r["d"], r["m"], r["aux"])):
                    d, m, aux, want = r["d"], bytes(r["m"]), bytes(r["aux"]), bytes(r["sig"])
                    if d not in pks:
                        pks[d] = pecc.PrivateKey(d)
                    pk = pks[d]
                    got = outcome(lambda: pk.sign_schnorr(m, aux).serialize())
                    cnt += 1
                    if not want:
                        ctx.nontriv(("toy-ssign-k0", n))
                        if got[0] == "ok":
                            ctx.violation("toy-schnorr-sign:signs-with-zero-nonce", "toy n=%d d=%d: nonce 0 must fail, got %s" % (n, d, got[1].hex()), {"kind": "toy-ssign", "curve": [p, a, b], "row": r})
                        continue
                    ctx.nontriv(("toy-ssign", n, pk.point.parity, want[:32]))
                    if got != ("ok", want):
                        ctx.violation("toy-schnorr-sign:differs-from-bip340:keyparity%d" % pk.point.parity,
                                      "toy n=%d: sign_schnorr(d=%d, m=%s.., aux=%s..) = %s, specification %s"
                                      % (n, d, m[:2].hex(), aux[:2].hex(), got[1].hex() if got[0] == "ok" else got, want.hex()), {"kind": "toy-ssign", "curve": [p, a, b], "row": r})
            else:
                for r in tab["rows"]:
                    m = bytes(r["m"])
                    pxb = r["px"].to_bytes(32, "big")
                    sig = r["r"].to_bytes(32, "big") + r["s"].to_bytes(32, "big")

                    def call():
                        pt = pecc.S256Point.parse_xonly(pxb)
                        return pt.verify_schnorr(m, pecc.SchnorrSignature.parse(sig))
                    if r["px"] == 0 and (b % p) in [(y * y) % p for y in range(p)]:
                        continue       # x = 0 is on this toy curve, but the library uses 0 as its encoding of infinity (x = 0 is not on secp256k1)
                    got = outcome(call)
                    acc = got == ("ok", True)
                    cnt += 1
                    if r["ok"]:
                        ctx.nontriv(("toy-sverify-valid", n, r["px"], r["r"], r["s"]))
                    if acc != r["ok"]:
                        cls = "s>=n" if r["s"] >= n else "R>=p" if r["r"] >= p else "R=0" if r["r"] == 0 else "in-range"
                        ctx.violation("toy-schnorr-verify:%s:%s" % ("accepts-invalid" if acc else "rejects-valid", cls),
                                      "toy p=%d n=%d: verify(px=%d, m=%s.., R=%d, s=%d) = %s, specification %s" % (p, n, r["px"], m[:2].hex(), r["r"], r["s"], got, r["ok"]),
                                      {"kind": "toy-sverify", "curve": [p, a, b], "row": r})
    ctx.evaluations += cnt
    ctx.traces += cnt


def th_row(tag, msg):
    return {"fn": "tag:" + tag, "in": B(msg), "out": B(hash_prim("tag:" + tag, msg))}


def real_cases(ctx, rng, nkeys, nflip):
    import buidl.pecc as pecc
    cases = []
    secrets = [1, 2, 3, N256 - 1, N256 - 2, 2 ** 128, 2 ** 255]
    keys = secrets[:min(nkeys, len(secrets))] + [rng.randrange(1, N256) for _ in range(max(0, nkeys - len(secrets)))]
    # at least two fresh keys of each parity whose negation does not occur elsewhere in the run
    want = {0: 2, 1: 2}
    while want[0] or want[1]:
        d_ = rng.randrange(1, N256)
        par = (d_ * pecc.G).parity
        if want[par]:
            want[par] -= 1
            keys.append(d_)
    msgs = [b"\x00" * 32, b"\xff" * 32]
    for i, d in enumerate(keys):
        # (how the key object would serialise its public key -- compressed or not, which network -- is irrelevant to BIP340)
        pk = pecc.PrivateKey(d) if i % 3 else pecc.PrivateKey(d, network=["mainnet", "testnet"][i % 2], compressed=False)
        m = msgs[i] if i < len(msgs) else bytes(rng.randrange(256) for _ in range(32))
        aux = b"\x00" * 32 if i % 3 == 0 else bytes(rng.randrange(256) for _ in range(32))
        # (no hook on the library's nonce helper: the specified nonce is recomputed below from the tagged hashes)
        if i % 2 == 1 or pk.point.parity:
            # other uses of the same key material in this process come first: an ECDSA verification under the full (both-parity)
            # public key, a multiplication of the odd-y and the even-y form, a verification call with a message of another length
            z_ = rng.randrange(2 ** 256)
            outcome(pk.point.verify, z_, pk.sign(z_))
            outcome(lambda: 3 * pk.point)
            outcome(lambda: 3 * pk.point.even_point())
            outcome(pk.point.verify_schnorr, bytes(40), pecc.SchnorrSignature.parse(bytes(31) + b"\x01" + bytes(31) + b"\x01"))
        if i % 3 != 0:
            # the aux bytes, the message and the public key have been through the library's OTHER tagged hashes before (as when a
            # taproot address was derived from them): every one-argument hash_* helper of buidl.hash is asked about them first
            import buidl.hash as BH
            for nm in sorted(dir(BH), reverse=True):      # (the BIP340 tags come last)
                fn_ = getattr(BH, nm)
                if nm.startswith("hash_") and callable(fn_):
                    for x_ in (aux, m, pk.point.xonly(), aux + m):
                        outcome(fn_, x_)
            outcome(lambda: pk.point.p2tr_address())
        if i % 2 == 0:
            # history independence: an earlier signature of the same message with ANOTHER aux on the same object comes first
            outcome(pk.sign_schnorr, m, bytes(32) if aux != bytes(32) else b"\x01" * 32)
        res = outcome(pk.sign_schnorr, m, aux)
        Pt = pk.point
        ctx.nontriv(("real-ssign", Pt.parity, d in secrets))
        if res[0] != "ok":
            cases.append({"id": "s%d" % i, "kind": "ssign", "res": "raise", "d": le(d), "P": [le(Pt.x.num), le(Pt.y.num)], "R": [[], []], "m": B(m), "aux": B(aux), "k0": [],
                          "hr": [], "dk0": dec(0), "de": dec(0), "ds": dec(0), "sig": [], "verifies": False})
            continue
        sig = res[1]
        sigb = sig.serialize()
        dd = N256 - d if Pt.parity else d
        haux = hash_prim("tag:BIP0340/aux", aux)
        t = bytes(x ^ y for x, y in zip(dd.to_bytes(32, "big"), haux))
        nonce_in = t + Pt.x.num.to_bytes(32, "big") + m
        rand = int.from_bytes(hash_prim("tag:BIP0340/nonce", nonce_in), "big")
        k0 = rand % N256                    # BIP340: k' = int(rand) mod n (the specification's nonce, checked by TLC against the rows)
        R0 = k0 * pecc.G                    # nonce point before normalisation
        keven = N256 - k0 if R0.parity else k0
        chal_in = R0.x.num.to_bytes(32, "big") + Pt.x.num.to_bytes(32, "big") + m
        e = int.from_bytes(hash_prim("tag:BIP0340/challenge", chal_in), "big")
        ver = outcome(Pt.verify_schnorr, m, sig)
        cases.append({"id": "s%d" % i, "kind": "ssign", "res": "ok", "d": le(d), "P": [le(Pt.x.num), le(Pt.y.num)], "R": [le(R0.x.num), le(R0.y.num)],
                      "m": B(m), "aux": B(aux), "k0": le(k0),
                      "hr": [th_row("BIP0340/aux", aux), th_row("BIP0340/nonce", nonce_in), th_row("BIP0340/challenge", chal_in)],
                      "dk0": dec(rand), "de": dec(e), "ds": dec(keven + (e % N256) * dd), "sig": B(sigb), "verifies": ver == ("ok", True)})
        # verification catalogue
        rx = R0.x.num
        s = int.from_bytes(sigb[32:], "big")
        cat = [("honest", sigb, m, True), ("m-flip", sigb, bytes([m[0] ^ 1]) + m[1:], True),
               ("R=0", b"\x00" * 32 + sigb[32:], m, True), ("R=p", P256.to_bytes(32, "big") + sigb[32:], m, True),
               ("R=p+1", (P256 + 1).to_bytes(32, "big") + sigb[32:], m, True), ("R=2^256-1", b"\xff" * 32 + sigb[32:], m, True),
               ("s=0", sigb[:32] + b"\x00" * 32, m, True), ("s=n", sigb[:32] + N256.to_bytes(32, "big"), m, True),
               ("s+n", sigb[:32] + ((s + N256) % 2 ** 256).to_bytes(32, "big") if s + N256 < 2 ** 256 else sigb[:32] + b"\xff" * 32, m, True),
               ("n-s", sigb[:32] + ((N256 - s) % N256).to_bytes(32, "big"), m, True), ("s=2^256-1", sigb[:32] + b"\xff" * 32, m, True),
               ("other-key", sigb, m, False), ("swap-halves", sigb[32:] + sigb[:32], m, True)]
        x = rng.randrange(1, P256)
        while pow((x ** 3 + 7) % P256, (P256 - 1) // 2, P256) == 1:
            x += 1
        cat.append(("R-not-on-curve", x.to_bytes(32, "big") + sigb[32:], m, True))
        bits = list(range(512)) if i < nflip else rng.sample(range(512), 8)
        for bit in bits:
            mut = bytearray(sigb)
            mut[bit // 8] ^= 1 << (bit % 8)
            cat.append(("bitflip-%s" % ("R" if bit < 256 else "s"), bytes(mut), m, True))
        other = pecc.PrivateKey(rng.randrange(1, N256)).point
        sG = rng.randrange(1, 1000)
        while (sG * pecc.G).parity:
            sG += 1
        cat.append(("zero-key-forgery", (sG * pecc.G).xonly() + sG.to_bytes(32, "big"), m, None))
        for j, (name, cand, mm, ours) in enumerate(cat):
            pxb = bytes(32) if ours is None else (Pt if ours else other).x.num.to_bytes(32, "big")
            ours = bool(ours)

            def call():
                return pecc.S256Point.parse_xonly(pxb).verify_schnorr(mm, pecc.SchnorrSignature.parse(cand))
            got = outcome(call)
            cin = cand[:32] + pxb + mm
            e2 = int.from_bytes(hash_prim("tag:BIP0340/challenge", cin), "big")
            cases.append({"id": "v%d.%d.%s" % (i, j, name), "kind": "sverify", "name": name, "sig": B(cand), "m": B(mm), "px": B(pxb), "key_is_ours": ours,
                          "rx": le(rx), "keven": le(keven), "dd": le(dd), "hr": [th_row("BIP0340/challenge", cin)], "de": dec(e2), "ds": dec(keven + (e2 % N256) * dd),
                          "accepted": got == ("ok", True), "raw": str(got)})
            ctx.nontriv(("real-sverify", name, got == ("ok", True)))
    return cases


def run(ctx):
    rng = random.Random(ctx.seed)
    q = ctx.quick
    ctx.rule = ("cases = every row of the toy sign/verify tables replayed through sign_schnorr / verify_schnorr with rebound constants "
                "and toy hashes, plus recorded secp256k1 signatures and the verification catalogue (all 512 single-bit flips of sampled "
                "signatures) decided by TLC; distinct = (key parity, nonce point) for signing rows, valid toy triples, (mutation, verdict)")
    ctx.assumptions = ["points dG, kG come from the library's scalar multiplication (validated by C03); a candidate whose R is not the abscissa of the "
                       "known nonce point, or whose key is not ours, is taken to be invalid (discrete-log assumption)",
                       "tagged SHA256 rows are certified with hashlib; in the toy instances the hashes are the toy family of Sigs.tla"]
    if ctx.want("real"):
        cases = real_cases(ctx, rng, 8 if q else 80, 1 if q else 6)
        byid = {c["id"]: c for c in cases}
        send = [{k: v for k, v in c.items() if k not in ("name", "raw")} for c in cases]
        bad = ctx.validate("curve/SigCases.tla", send, "SigCases.cfg", timeout=7200, per_shard_min=20)
        for cid, why in bad.items():
            c = byid[cid]
            ctx.violation("real-%s:%s:%s" % (c["kind"], why, c.get("name", "")), "secp256k1 %s case %s: %s %s" % (c["kind"], cid, why, c.get("raw", "")),
                          {"kind": "case", "case": {k: v for k, v in c.items() if k != "hr"}})
        ctx.sample({k: v for k, v in cases[1].items() if k in ("id", "kind", "name", "accepted")})
    def _toy_part():
        curves = TOY[:2] if q else TOY
        jobs = []
        for (p, a, b) in curves:
            cfg, n, g = sigs_cfg(ctx, p, a, b)
            for mode in ("schnorr", "schnorr-verify"):
                if mode == "schnorr-verify" and p > (7 if q else 31):
                    continue
                jobs.append((lambda cfg=cfg, mode=mode, n=n, p=p, a=a, b=b, g=g:
                             ((p, a, b, n, g), mode, ctx.table("curve/MC_Sigs.tla", cfg, env={"MODE": mode, "ZMAX": 1, "RSMAX": 1}, timeout=7200))))
        tabs = ctx.parallel(jobs, workers=8)
        replay_toy(ctx, tabs)
        ctx.exhaustive.append("toy groups %s with toy hashes: every secret x 4 messages x 2 aux signed; every (x-only key candidate 0..p+1, R 0..p+1, s 0..n+1) verified" % curves)
        ctx.sample({"toy_sign_row": tabs[0][2]["rows"][3] if tabs[0][2] else None})
    if ctx.want("toy"):
        toy_guard(ctx, _toy_part)
