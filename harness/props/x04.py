"""X04 — absolute and relative timelocks (specs/timelock/Timelock.tla); specification growth beyond the listed properties.

buidl/timelock.py is exercised by the listed properties only through the two timelock opcodes (C07).  This specification
states what the Locktime / Sequence classes mean (BIP65 / BIP68 / BIP112: units, the 500000000 threshold, the disable and
type flags, the 16-bit mask, comparisons that refuse mixed units) and states the consensus rule of each opcode twice, once
directly from the BIPs and once composed from the class API the way op.py composes it.

(C) MC_Timelock: the two statements agree; comparisons raise exactly on mixed units and are strict total orders inside one
    unit; a satisfied lock stays satisfied as the transaction's value grows; constructors lose less than one unit; every
    verdict occurs (vacuity) -- over a grid of 32-bit words straddling every boundary the classes distinguish.
(B) TimelockCases: every class method on real objects for word pairs of that grid (plus random words), constructor range
    refusal, from_relative_time / from_relative_blocks, and OP_CHECKLOCKTIMEVERIFY / OP_CHECKSEQUENCEVERIFY evaluated on a
    real Tx for (locktime, sequence, version, operand) combinations; TLC decides each recorded call.
"""
import io
import random

from ..core import outcome

HI = [0, 1, 63, 64, 65, 127, 128, 7628, 7629, 7630, 32767, 32768, 32769, 32832, 65534, 65535]
LO = [0, 1, 2, 511, 512, 25855, 25856, 25857, 32767, 32768, 65534, 65535]


def W(n):
    return [n >> 16, n & 0xffff]


def opt(v):
    return -1 if v is None else int(v)


def run(ctx):
    ctx.level = "model_checking"
    ctx.rule = "a case = one method family on one (pair of) 32-bit word(s); distinct by (kind, unit of a, unit of b, verdict)"
    ctx.trusted += ["Timelock.tla as the statement of BIP65 / BIP68 / BIP112", "script-number encoding of operands written in the harness"]
    q = ctx.quick
    rng = random.Random(ctx.seed)
    if ctx.want("mc"):
        r = ctx.mc_expect_ok("timelock/MC_Timelock.tla", "MC_Timelock.cfg", what="laws of the timelock classes and the two opcode rules", workers=2)
        ctx.exhaustive.append("MC_Timelock: 192 words (pairs), 49 words (triples): agreement of the two statements of CLTV / CSV, order laws, monotonicity, constructors, vacuity guards")
    if not ctx.want("cases"):
        return
    from buidl.timelock import Locktime, Sequence
    from buidl.tx import Tx, TxIn, TxOut
    from buidl.script import Script
    from buidl.op import op_checklocktimeverify, op_checksequenceverify, encode_num
    grid = [(h << 16) | l for h in HI for l in LO]
    extra = [rng.randrange(1 << 32) for _ in range(40 if q else 400)]
    words = grid + extra
    npairs = 3000 if q else 40000
    pairs = [(rng.choice(words), rng.choice(words)) for _ in range(npairs)]
    pairs += [(a, a) for a in grid] + [(a, a ^ 1) for a in grid] + [(a, (a + 1) & 0xffffffff) for a in grid]
    cases = []

    def add(c):
        c["id"] = len(cases)
        cases.append(c)
    for (a, b) in pairs:
        la, lb = Locktime(a), Locktime(b)
        lt = outcome(lambda: la < lb)
        add({"kind": "lock", "a": W(a), "b": W(b),
             "height": W(la.block_height()) if la.block_height() is not None else [],
             "mtp": W(la.mtp()) if la.mtp() is not None else [],
             "comparable": bool(la.is_comparable(lb)),
             "lt": ("true" if lt[1] else "false") if lt[0] == "ok" else "raise",
             "ser": W(int(Locktime.parse(io.BytesIO(la.serialize()))))})
        sa, sb = Sequence(a), Sequence(b)
        lt = outcome(lambda: sa < sb)
        add({"kind": "seq", "a": W(a), "b": W(b), "relative": bool(sa.is_relative()), "is_time": bool(sa.is_relative_time()),
             "is_block": bool(sa.is_relative_block()), "blocks": opt(sa.relative_blocks()), "time": opt(sa.relative_time()),
             "rbf": bool(sa.is_rbf_able()), "max": bool(sa.is_max()), "comparable": bool(sa.is_comparable(sb)),
             "lt": ("true" if lt[1] else "false") if lt[0] == "ok" else "raise",
             "ser": W(int(Sequence.parse(io.BytesIO(sa.serialize()))))})
        ctx.nontriv(("pair", cases[-2]["lt"], cases[-1]["lt"]))
    for s in [0, 1, 511, 512, 513, 1023, 1024, 33553919, 33553920, 33554431] + [rng.randrange(1 << 25) for _ in range(100)]:
        add({"kind": "from", "what": "time", "n": s, "word": W(int(Sequence.from_relative_time(s)))})
    for n in LO + [rng.randrange(1 << 16) for _ in range(100)]:
        add({"kind": "from", "what": "blocks", "n": n, "word": W(int(Sequence.from_relative_blocks(n)))})
    for cls in (Locktime, Sequence):
        for n in (-1, -2 ** 31, 0, 1, 2 ** 31 - 1, 2 ** 31, 2 ** 32 - 1, 2 ** 32, 2 ** 32 + 1, 2 ** 40):
            add({"kind": "range", "cls": cls.__name__, "accepted": outcome(cls, n)[0] == "ok", "inrange": 0 <= n < 2 ** 32})
    # the opcodes on a real transaction
    nops = 1500 if q else 20000
    for _ in range(nops):
        lock, seq, operand = rng.choice(words), rng.choice(words + [0xffffffff] * 8), rng.choice(words)
        version = rng.choice([1, 2, 2, 3])
        tx = Tx(version, [TxIn(bytes(32), 0, sequence=seq)], [TxOut(1, Script([]))], lock)
        for name, fn in (("cltv", op_checklocktimeverify), ("csv", op_checksequenceverify)):
            stack = [encode_num(operand)]
            o = outcome(fn, stack, tx, 0)
            add({"kind": "op", "op": name, "lock": W(lock), "seq": W(seq), "version": version, "operand": W(operand),
                 "ok": o == ("ok", True)})
            ctx.nontriv(("op", name, cases[-1]["ok"]))
    ctx.traces += len(cases)
    rej = ctx.validate("timelock/TimelockCases.tla", cases, "TimelockCases.cfg")
    for cid, why in sorted(rej.items())[:40]:
        c = cases[cid]
        ctx.violation("timelock:%s" % why, "recorded call %s is not explained by Timelock.tla: %s" % (c, why), {"kind": "timelock", "case": c})
    ctx.sample({"case": cases[len(cases) // 2]})
