"""C20 — BCUR / bc32 / CBOR (specs/bcur/*, specs/lib/Bech32.tla).

(C) MC_Reassembly: BCURMulti.parse as the code's loop against an adversary choosing parts of two payloads, corrupted
    fragments and lying part counts, in any order and multiplicity; chunking law for all lengths <= 300 x sizes <= 60.
(B) recorded calls decided by TLC: bc32 encode/decode on random and boundary bytes, single-character corruptions,
    CBOR at every length-prefix boundary, bcur_encode (certified sha256), BCURMulti.encode part texts for many
    (payload length, chunk size) pairs, and parse of honest / permuted / truncated / duplicated / foreign /
    corrupted part lists.
"""
import base64
import itertools
import random

from ..core import B, outcome, hash_prim

ALPH = "qpzry9x8gf2tvdw0s3jn54khce6mua7l"


def T(s):
    return [ord(c) for c in s]


def run(ctx):
    from buidl import bech32 as BE, bcur as BC
    rng = random.Random(ctx.seed)
    q = ctx.quick
    ctx.rule = ("cases = recorded bc32/CBOR/BCUR calls and reassembly attempts decided by TLC; distinct = (codec, length class), "
                "(chunk-size class), (mutation of the part list, outcome)")
    ctx.assumptions = ["sha256 rows certified with hashlib", "payload bytes are random; CBOR lengths use a repeated fill byte above 300 bytes (content independent)"]
    if ctx.want("mc"):
        r = ctx.mc_expect_ok("bcur/MC_Reassembly.tla", "MC_Reassembly.cfg", what="reassembly loop vs adversary; chunking law")
        ctx.exhaustive.append("MC_Reassembly: all sequences of <= 4 parts from 12 candidate parts (2 payloads x 3 parts, corrupted, wrong count); ChunkLaw for L <= 300, m <= 60 (%d states)" % r.distinct)
    if not ctx.want("cases"):
        return
    cases = []

    def rb(n):
        return bytes(rng.randrange(256) for _ in range(n))
    # bc32
    for i, n in enumerate([0, 1, 2, 3, 4, 5, 6, 10, 20, 31, 32, 33, 64, 100] + ([300, 1000] if not q else [])):
        data = rb(n)
        t = outcome(BE.bc32encode, data)
        back = outcome(BE.bc32decode, t[1]) if t[0] == "ok" else ("raise", None)
        cases.append({"id": "b%d" % i, "kind": "bc32", "data": B(data), "text": T(t[1]) if t[0] == "ok" else [], "back": B(back[1]) if back[0] == "ok" and back[1] is not None else [-9]})
        ctx.nontriv(("bc32", n))
        if t[0] == "ok" and n in (5, 20, 33):
            text = t[1]
            poss = range(len(text)) if (n <= 20 or not q) else rng.sample(range(len(text)), 12)
            for pos in poss:
                for ch in (ALPH if n == 5 else rng.sample(ALPH, 3)):
                    if ch == text[pos]:
                        continue
                    mt = text[:pos] + ch + text[pos + 1:]
                    got = outcome(BE.bc32decode, mt)
                    cases.append({"id": "bb%d.%d.%s" % (i, pos, ch), "kind": "bc32bad", "text": T(mt), "accepted": got[0] == "ok" and got[1] is not None})
            ctx.nontriv(("bc32bad", n))
    # bc32 texts without any letter (digits only, found by enumeration) and without any digit: the case rule must not misfire on them
    special = [bytes.fromhex(h) for h in ("29fded", "2bcb1a", "2d4e7f", "3bebed", "578ba3d625", "f469a8c69a", "2ea3eac555")]
    tries = 0
    while len(special) < 10 and tries < 200000:
        tries += 1
        d_ = rb(3)
        if not any(ch.isdigit() for ch in BE.bc32encode(d_)):
            special.append(d_)
    for i, data in enumerate(special):
        t = outcome(BE.bc32encode, data)
        back = outcome(BE.bc32decode, t[1]) if t[0] == "ok" else ("raise", None)
        cases.append({"id": "bs%d" % i, "kind": "bc32", "data": B(data), "text": T(t[1]) if t[0] == "ok" else [], "back": B(back[1]) if back[0] == "ok" and back[1] is not None else [-9]})
        ctx.nontriv(("bc32-special", "digits" if t[0] == "ok" and t[1].isdigit() else "letters"))
    # cbor
    for i, n in enumerate([0, 1, 22, 23, 24, 25, 254, 255, 256, 257, 65534, 65535, 65536, 65537, 70000]):
        fill = rng.randrange(256)
        data = bytes([fill]) * n
        e = outcome(BE.cbor_encode, data)
        back = outcome(BE.cbor_decode, e[1]) if e[0] == "ok" else ("raise", None)
        cases.append({"id": "c%d" % i, "kind": "cbor", "n": n, "fill": fill, "prefix": B(e[1][:len(e[1]) - n]) if e[0] == "ok" else [], "enc_len": len(e[1]) if e[0] == "ok" else -1,
                      "back_ok": back == ("ok", data) and (e[0] == "ok" and e[1][len(e[1]) - n:] == data)})
        ctx.nontriv(("cbor", n))
    # bcur_encode + chunking + parsing
    sizes = [0, 1, 10, 23, 24, 100, 255, 256, 400] + ([2000, 70000] if not q else [])
    for i, n in enumerate(sizes):
        payload = rb(n) if n < 5000 else bytes([7]) * n
        text_b64 = base64.b64encode(payload).decode()
        enc = outcome(BC.bcur_encode, payload)
        cbor = BE.cbor_encode(payload)
        if n <= 2000:
            cases.append({"id": "u%d" % i, "kind": "bcur", "payload": B(payload), "enc": T(enc[1][0]) if enc[0] == "ok" else [], "enc_hash": T(enc[1][1]) if enc[0] == "ok" else [],
                          "hr": [{"fn": "sha256", "in": B(cbor), "out": B(hash_prim("sha256", cbor))}]})
        if enc[0] != "ok":
            continue
        L = len(enc[1][0])
        ms = sorted({1, 2, 3, 7, L - 1, L, L + 1, 300, 2000, max(1, L // 2), max(1, L // 3), rng.randrange(1, 2001)}) if L <= 700 else [300, 2000, 1999, 777]
        for m in ms:
            if m < 1 or L // m > 150:
                continue
            multi = BC.BCURMulti(text_b64=text_b64)
            parts = outcome(multi.encode, m)
            if n <= 2000:
                cases.append({"id": "k%d.%d" % (i, m), "kind": "chunks", "enc": T(enc[1][0]), "enc_hash": T(enc[1][1]), "m": m, "parts": [T(p) for p in parts[1]] if parts[0] == "ok" else []})
            ctx.nontriv(("chunks", "m=1" if m == 1 else "m>=L" if m >= L else "mid"))
            if parts[0] != "ok":
                continue
            plist = parts[1]
            y = len(plist)
            other = BC.BCURMulti(text_b64=base64.b64encode(rb(max(n, 1))).decode()).encode(m)
            trials = [("honest", plist, True)]
            if y >= 2:
                trials += [("drop-last", plist[:-1], False), ("drop-first", plist[1:], False), ("swap", [plist[1], plist[0]] + plist[2:], False),
                           ("dup", plist + [plist[-1]], False), ("reverse", plist[::-1], False)]
                if y <= 4:
                    for perm in itertools.permutations(range(y)):
                        if list(perm) != list(range(y)):
                            trials.append(("perm", [plist[k] for k in perm], False))
                    for r_ in range(1, y):
                        for sub in itertools.combinations(range(y), r_):
                            trials.append(("omit", [plist[k] for k in sub], False))
                if len(other) == y:
                    trials.append(("foreign-part", plist[:-1] + [other[-1]], False))
                    trials.append(("foreign-first", [other[0]] + plist[1:], False))
            p0 = plist[rng.randrange(y)]
            k0 = plist.index(p0)
            body = p0.rsplit("/", 1)
            for _ in range(6 if q else 40):
                pos = rng.randrange(len(body[1])) if body[1] else 0
                if not body[1]:
                    break
                ch = rng.choice([c for c in ALPH if c != body[1][pos]])
                mut = body[0] + "/" + body[1][:pos] + ch + body[1][pos + 1:]
                trials.append(("corrupt-char", plist[:k0] + [mut] + plist[k0 + 1:], False))
            hs = p0.split("/")
            if len(hs) == 4:
                pos = rng.randrange(len(hs[2]))
                ch = rng.choice([c for c in ALPH if c != hs[2][pos]])
                hs2 = list(hs)
                hs2[2] = hs[2][:pos] + ch + hs[2][pos + 1:]
                trials.append(("corrupt-checksum", plist[:k0] + ["/".join(hs2)] + plist[k0 + 1:], False))
            # a digit of the x-of-y header substituted: parts that disagree on the number of parts are not one transmission (strict);
            # an altered x is judged like any other corruption (never different data)
            for pk_ in range(y):
                hs_ = plist[pk_].split("/")
                if len(hs_) == 4 and "of" in hs_[1]:
                    x_, y_ = hs_[1].split("of")
                    for newy in {str(int(y_) + 1), str(int(y_) + 5), y_ + "0"}:
                        h2 = list(hs_)
                        h2[1] = x_ + "of" + newy
                        trials.append(("corrupt-header-y", plist[:pk_] + ["/".join(h2)] + plist[pk_ + 1:], False))
                    if int(x_) + 1 <= int(y_):
                        h2 = list(hs_)
                        h2[1] = str(int(x_) + 1) + "of" + y_
                        trials.append(("corrupt-header-x", plist[:pk_] + ["/".join(h2)] + plist[pk_ + 1:], False))
            if n > 2000:
                trials = trials[:6]
            for j, (name, lst, honest) in enumerate(trials):
                got = outcome(BC.BCURMulti.parse, lst)
                acc = got[0] == "ok"
                res = base64.b64decode(got[1].text_b64) if acc else b""
                big = n > 2000
                cases.append({"id": "p%d.%d.%d.%s" % (i, m, j, name), "kind": "parse", "honest": honest, "strict": name == "corrupt-header-y" and y >= 2, "accepted": acc, "mut": name,
                              "payload": B(payload) if not big else [len(payload) % 251], "result": B(res) if not big else ([len(payload) % 251] if res == payload else [0, 0])})
                ctx.nontriv(("parse", name, acc))
        # single-part form
        single = BC.BCURSingle(text_b64=text_b64)
        for use in (True, False):
            s = single.encode(use_checksum=use)
            got = outcome(BC.BCURSingle.parse, s)
            acc = got[0] == "ok"
            if n <= 2000:
                cases.append({"id": "s%d.%s" % (i, use), "kind": "parse", "honest": True, "strict": False, "accepted": acc, "mut": "single", "payload": B(payload), "result": B(base64.b64decode(got[1].text_b64)) if acc else []})
    byid = {c["id"]: c for c in cases}
    ctx.sample({k: v for k, v in cases[0].items() if k in ("id", "kind", "data")})
    bad = ctx.validate("bcur/C20Cases.tla", [{k: v for k, v in c.items() if k != "mut"} for c in cases], "C20Cases.cfg", timeout=7200, per_shard_min=30)
    for cid, why in bad.items():
        c = byid[cid]
        ctx.violation("%s:%s%s" % (c["kind"], why, ":" + c["mut"] if "mut" in c else ""), "%s case %s: %s" % (c["kind"], cid, why),
                      {"kind": "case", "case": {k: (v if not isinstance(v, list) or len(v) < 400 else "...") for k, v in c.items()}})
