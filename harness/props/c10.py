"""C10 — PSBT codec and signing workflow (specs/psbt/*).

(C) Workflow: several PSBT copies in flight, every interleaving of Sign / Combine / Finalize for m-of-n: what a copy holds
    and what it finalises to is a function of the set of contributing signers; finalisable iff >= m contributed.
(A) the model's behaviours replayed on real wallets (P2PKH, P2WPKH, P2SH-P2WPKH, P2SH / P2WSH / P2SH-P2WSH m-of-n, one and
    two inputs, real HD keys): every signer subset, sequential signing in every order and parallel signing + combining in
    every order; PSBTs reached for the same signer set must be byte-identical, finalise/extract verifies iff >= m.
(B) every PSBT reached is logged with its bytes: TLC parses the BIP174 container (PSBTWire), checks that the embedded
    transaction is non-witness with empty scriptSigs, the partial-signature counts, and parse/serialise identity;
    loads of malformed containers and of PSBTs carrying invalid partial signatures (alone or next to valid ones) must fail.
"""
import contextlib
import io
import itertools
import random

from ..core import B, outcome, NCPU
from concurrent.futures import ProcessPoolExecutor

KINDS = ["p2pkh", "p2wpkh", "p2sh-p2wpkh", "p2sh", "p2wsh", "p2sh-p2wsh"]


class Wallet:
    def __init__(self, kind, m, n, nin, seed, reuse=False):
        from buidl import hd
        from buidl.psbt import PSBT, NamedHDPublicKey
        from buidl.tx import Tx, TxIn, TxOut
        from buidl.script import Script, P2PKHScriptPubKey, P2SHScriptPubKey, P2WPKHScriptPubKey, P2WSHScriptPubKey, RedeemScript, WitnessScript
        from buidl.helper import hash160, sha256
        self.rng = rng = random.Random(seed)
        self.kind, self.m, self.n, self.nin = kind, m, n, nin

        def rb(k):
            return bytes(rng.randrange(256) for _ in range(k))
        self.roots = [hd.HDPrivateKey.from_seed(rb(32), network="testnet") for _ in range(n)]
        base = "m/45'/1'"
        self.bip32base, self.reuse = base, reuse
        self.tx_lookup, self.pubkey_lookup, self.redeem_lookup, self.witness_lookup = {}, {}, {}, {}
        outs_prev = []
        for j in range(nin):
            named = [NamedHDPublicKey.from_hd_priv(r, "%s/0/%d" % (base, 0 if reuse else j)) for r in self.roots]     # reuse: every input pays to the same address
            for nm in named:
                self.pubkey_lookup[nm.sec()] = nm
                self.pubkey_lookup[nm.hash160()] = nm
            secs = sorted(nm.sec() for nm in named)
            if kind == "p2pkh":
                spk = P2PKHScriptPubKey(named[0].hash160())
            elif kind == "p2wpkh":
                spk = P2WPKHScriptPubKey(named[0].hash160())
            elif kind == "p2sh-p2wpkh":
                rs = RedeemScript([0, named[0].hash160()])
                self.redeem_lookup[rs.hash160()] = rs
                spk = P2SHScriptPubKey(rs.hash160())
            else:
                cmds = [0x50 + m] + secs + [0x50 + n, 174]
                if kind == "p2sh":
                    rs = RedeemScript(cmds)
                    self.redeem_lookup[rs.hash160()] = rs
                    spk = P2SHScriptPubKey(rs.hash160())
                else:
                    ws = WitnessScript(cmds)
                    self.witness_lookup[ws.sha256()] = ws
                    if kind == "p2wsh":
                        spk = P2WSHScriptPubKey(ws.sha256())
                    else:
                        rs = RedeemScript([0, ws.sha256()])
                        self.redeem_lookup[rs.hash160()] = rs
                        spk = P2SHScriptPubKey(rs.hash160())
            outs_prev.append(TxOut(100000 + j, spk))
        prev = Tx(1, [TxIn(rb(32), 0)], outs_prev, 0, network="testnet")
        self.tx_lookup[prev.hash()] = prev
        tins = [TxIn(prev.hash(), j) for j in range(nin)]
        touts = [TxOut(100000 * nin - 2000, P2WPKHScriptPubKey(rb(20)))]
        tx = Tx(rng.choice([1, 2]), tins, touts, 0, network="testnet", segwit=rng.choice([True, False]))
        self.base = PSBT.create(tx, tx_lookup=self.tx_lookup, pubkey_lookup=self.pubkey_lookup, redeem_lookup=self.redeem_lookup, witness_lookup=self.witness_lookup)
        # unknown key-values and a global xpub survive the round trip
        if rng.random() < 0.7:
            self.base.extra_map[b"\xfc\x05verif\x01"] = rb(7)
            self.base.psbt_ins[0].extra_map[b"\xfc\x02ab"] = b""
            self.base.psbt_outs[0].extra_map[b"\x99"] = rb(3)
        self.base_bytes = self.base.serialize()

    def clone(self):
        from buidl.psbt import PSBT
        return PSBT.parse(io.BytesIO(self.base_bytes), network="testnet")


def signers_needed(kind, n):
    return 1 if kind in ("p2pkh", "p2wpkh", "p2sh-p2wpkh") else n


def flow(args):
    from ..core import setup_repo_import
    setup_repo_import()
    from buidl.psbt import PSBT
    from buidl.tx import Tx
    kind, m, n, nin, seed, tag, full = args
    cases = []
    try:
        w = Wallet(kind, m, n, nin, seed, reuse=tag.endswith("_reuse"))
    except Exception as e:
        import traceback
        return [{"error": "%s: %s" % (tag, traceback.format_exc()[-1200:])}]

    def log_psbt(name, ps, nsigs):
        raw = ps.serialize()
        back = outcome(lambda: PSBT.parse(io.BytesIO(raw), network="testnet").serialize())
        cases.append({"id": "%s.%s" % (tag, name), "kind": "psbt", "bytes": B(raw), "reser": B(back[1]) if back[0] == "ok" else [], "nsigs": nsigs, "label": name.split(".")[0]})
        return raw
    log_psbt("base", w.base, [0] * nin)
    nsign = signers_needed(kind, n)
    # the two signing entry points agree: sign(hd root) and sign_with_private_keys(the signer's keys for the inputs), also when
    # one key locks several inputs (address reuse)
    for s in range(nsign):
        c1, c2 = w.clone(), w.clone()
        r1 = outcome(c1.sign, w.roots[s])
        keys, seen = [], set()
        for j in range(nin):
            pk = w.roots[s].traverse("%s/0/%d" % (w.bip32base, 0 if w.reuse else j)).private_key
            if pk.secret not in seen:
                seen.add(pk.secret)
                keys.append(pk)
        w.rng.shuffle(keys)
        r2 = outcome(c2.sign_with_private_keys, keys)
        a_ = c1.serialize() if r1 == ("ok", True) else b"sign-did-not-sign"
        b_ = c2.serialize() if r2 == ("ok", True) else b"sign_with_private_keys-did-not-sign"
        cases.append({"id": "%s.api.%d" % (tag, s), "kind": "eq", "a": B(b_), "b": B(a_), "what": "sign_with_private_keys-differs-from-sign", "label": "signing-api"})
    # partial signatures much shorter than the usual 71-73 bytes: signed with the nonce (n+1)/2, whose r has 21 bytes (a valid ECDSA
    # signature under the wallet's own keys; RFC 6979 produces one below 70 bytes about once in 12000).  The container has to carry
    # them like any other, and they have to finalise to a valid transaction.
    from buidl.ecc import Signature
    N_ = 0xFFFFFFFFFFFFFFFFFFFFFFFFFFFFFFFEBAAEDCE6AF48A03BBFD25E8CD0364141
    R_HALF = 0x3B78CE563F89A0ED9414F5AA28AD0D96D6795F9C63

    class ShortNonceKey:
        def __init__(self, pk):
            self.pk, self.point, self.secret, self.network = pk, pk.point, pk.secret, getattr(pk, "network", "testnet")

        def sign(self, z):
            s_ = (2 * (z + R_HALF * self.pk.secret)) % N_          # k = 1/2, so k^-1 = 2
            return Signature(R_HALF, N_ - s_ if s_ > N_ // 2 else s_)

        def __getattr__(self, name):
            return getattr(self.pk, name)
    c3 = w.clone()
    short_keys = []
    for s in range(min(m, nsign) if nsign > 1 else 1):
        for j in range(nin):
            short_keys.append(ShortNonceKey(w.roots[s].traverse("%s/0/%d" % (w.bip32base, 0 if w.reuse else j)).private_key))
    r3 = outcome(c3.sign_with_private_keys, short_keys)
    if r3 == ("ok", True) and all(len(sg) <= 62 for pin in c3.psbt_ins for sg in pin.sigs.values()) and any(pin.sigs for pin in c3.psbt_ins):
        raw3 = log_psbt("shortsig", c3, [len(c3.psbt_ins[0].sigs)] * nin)
        with contextlib.redirect_stdout(io.StringIO()):
            back3 = outcome(lambda: PSBT.parse(io.BytesIO(raw3), network="testnet"))
            fin3 = outcome(back3[1].finalize) if back3[0] == "ok" else ("raise", None)
            ftx3 = outcome(back3[1].final_tx) if fin3[0] == "ok" else ("raise", None)
            ok3 = False
            if ftx3[0] == "ok":
                for k_, ti in enumerate(ftx3[1].tx_ins):
                    ti._value = w.base.psbt_ins[k_].tx_in._value
                    ti._script_pubkey = w.base.psbt_ins[k_].tx_in._script_pubkey
                ok3 = all(outcome(ftx3[1].verify_input, k_) == ("ok", True) for k_ in range(nin))
        cases.append({"id": "%s.shortsig.final" % tag, "kind": "eq", "a": [ok3], "b": [True], "what": "psbt-with-short-partial-signatures-does-not-complete", "label": "short-signatures"})
    subsets = [s for r_ in range(0, nsign + 1) for s in itertools.combinations(range(nsign), r_)]
    for sub in subsets:
        results = {}
        orders = list(itertools.permutations(sub)) if (full or len(sub) <= 2) else [sub, sub[::-1]]
        for oi, order in enumerate(orders):
            # sequential
            ps = w.clone()
            for s in order:
                ps.sign(w.roots[s])
            results[("seq", order)] = ps.serialize()
            # parallel + combine in this order
            copies = []
            for s in order:
                c = w.clone()
                c.sign(w.roots[s])
                copies.append(c)
            acc = w.clone()
            for c in copies:
                acc.combine(c)
            results[("par", order)] = acc.serialize()
            # tree-shaped combine: fold from the right into the last copy
            if len(copies) >= 2:
                acc2 = copies[-1]
                for c in copies[-2::-1]:
                    acc2.combine(c)
                results[("rfold", order)] = acc2.serialize()
        # a combiner that starts from the creator's bare PSBT (UTXOs only: no scripts, no derivations) and merges the signers' copies in
        if len(sub) >= 1 and (len(sub) == nsign or len(sub) == min(m, nsign)):
            bare = outcome(lambda: PSBT.create(Tx.parse(io.BytesIO(w.base.tx_obj.serialize()), network="testnet"), True, w.tx_lookup, {}, {}, {}))
            if bare[0] == "ok":
                accb = bare[1]
                for s in orders[0]:
                    c = w.clone()
                    c.sign(w.roots[s])
                    accb.combine(c)
                # the unknown key-values / xpubs of the wallet's base PSBT are not in the bare one: compare after dropping nothing else
                rb_ = outcome(accb.serialize)
                results[("bare", orders[0])] = rb_[1] if rb_[0] == "ok" else b"combine-onto-bare-psbt-raises"
        ref = results[("seq", orders[0])]
        for key, val in results.items():
            if val != ref:
                cases.append({"id": "%s.conf.%s.%s.%s" % (tag, "".join(map(str, sub)), key[0], "".join(map(str, key[1]))), "kind": "eq", "a": B(val), "b": B(ref),
                              "what": "combined-psbt-depends-on-order:%s" % key[0], "label": "confluence"})
        cases.append({"id": "%s.confok.%s" % (tag, "".join(map(str, sub))), "kind": "eq", "a": [len(set(results.values()))], "b": [1], "what": "combined-psbt-depends-on-order", "label": "confluence"})
        final = PSBT.parse(io.BytesIO(ref), network="testnet")
        log_psbt("signed.%s" % "".join(map(str, sub)), final, [len(sub)] * nin)
        need = m if nsign > 1 else 1
        with contextlib.redirect_stdout(io.StringIO()):
            fz = outcome(final.finalize)
            ftx = outcome(final.final_tx) if fz[0] == "ok" else ("raise", None)
            ver = False
            if ftx[0] == "ok":
                t = ftx[1]
                for k_, ti in enumerate(t.tx_ins):
                    ti._value = w.base.psbt_ins[k_].tx_in._value
                    ti._script_pubkey = w.base.psbt_ins[k_].tx_in._script_pubkey
                ver = all(outcome(t.verify_input, k_) == ("ok", True) for k_ in range(nin))
        if ftx[0] == "ok":
            # shape of every finalised input against the partial signatures that were in the PSBT
            pre = PSBT.parse(io.BytesIO(ref), network="testnet")
            for k_, ti in enumerate(ftx[1].tx_ins):
                pin = pre.psbt_ins[k_]
                sc = pin.witness_script or pin.redeem_script
                single = kind in ("p2pkh", "p2wpkh", "p2sh-p2wpkh")
                if single:
                    keys = sorted(pin.sigs.keys())[:1]
                    script_raw = b""
                else:
                    keys = [c_ for c_ in sc.commands if isinstance(c_, bytes) and len(c_) == 33]
                    script_raw = sc.raw_serialize()
                if kind in ("p2pkh", "p2sh"):
                    items = [(b"" if c_ == 0 else c_) for c_ in ti.script_sig.commands]
                else:
                    items = list(ti.witness.items)
                if any(isinstance(x, int) for x in items):
                    items = [x if isinstance(x, bytes) else bytes([0xFF, x & 0xFF]) for x in items]      # an opcode where data is expected: never equal to a signature
                cases.append({"id": "%s.final.%s.%d" % (tag, "".join(map(str, sub)), k_), "kind": "final", "single": single, "m": need, "keys": [B(x) for x in keys],
                              "sigs": [[B(sec_), B(sig_)] for sec_, sig_ in sorted(pin.sigs.items())], "items": [B(x) for x in items], "script": B(script_raw), "label": "final-shape"})
        cases.append({"id": "%s.flow.%s" % (tag, "".join(map(str, sub))), "kind": "flow", "signed": len(sub), "m": need, "res": "ok" if ftx[0] == "ok" else "raise", "verifies": ver, "label": "flow"})
        if fz[0] == "ok":
            log_psbt("final.%s" % "".join(map(str, sub)), final, [0] * nin)
            # the PSBT object is still serialisable / loadable after extraction
            after = outcome(final.serialize)
            re = outcome(lambda: PSBT.parse(io.BytesIO(after[1]), network="testnet").serialize()) if after[0] == "ok" else ("raise", b"")
            cases.append({"id": "%s.after.%s" % (tag, "".join(map(str, sub))), "kind": "psbt", "bytes": B(after[1]) if after[0] == "ok" else [], "reser": B(re[1]) if re[0] == "ok" else [],
                          "nsigs": [0] * nin, "label": "after-extract"})
    # loading PSBTs with invalid partial signatures (alone, and next to valid ones)
    if nsign >= 1:
        good = w.clone()
        for s in range(min(nsign, max(m, 2) if nsign > 1 else 1)):
            good.sign(w.roots[s])
        other = Wallet(kind, m, n, nin, seed)          # same keys ...
        o = other.clone()
        o.tx_obj.tx_outs[0].amount -= 1                # ... signing a different transaction
        for s in range(nsign):
            o.sign(w.roots[s])
        for variant in ("all-bad", "first-bad", "last-bad"):
            ps = PSBT.parse(io.BytesIO(good.serialize()), network="testnet")
            secs = sorted(ps.psbt_ins[0].sigs.keys())
            if not secs:
                continue
            bad_for = secs if variant == "all-bad" else [secs[0]] if variant == "first-bad" else [secs[-1]]
            if variant != "all-bad" and len(secs) < 2:
                continue
            for sec in bad_for:
                ps.psbt_ins[0].sigs[sec] = o.psbt_ins[0].sigs[sec]
            raw = ps.serialize()
            got = outcome(PSBT.parse, io.BytesIO(raw), "testnet")
            cases.append({"id": "%s.badsig.%s" % (tag, variant), "kind": "load", "bytes": B(raw), "expect": "bad-partial-sig", "accepted": got[0] == "ok", "label": "badsig-" + variant})
    # a finalised input that still carries a partial signature (what finalised.combine(partially_signed) produces): the partial
    # signature is checked on load like any other
    if nsign >= 1:
        fin = w.clone()
        for s in range(nsign):
            fin.sign(w.roots[s])
        bad_src = PSBT.parse(io.BytesIO(o.serialize()), network="testnet")       # same keys, signatures over a different transaction
        with contextlib.redirect_stdout(io.StringIO()):
            fz = outcome(fin.finalize)
        if fz[0] == "ok" and bad_src.psbt_ins[0].sigs:
            for variant, src in (("invalid", bad_src),):       # (whether a finalised input may carry VALID partial signatures is not part of the property)
                ps = PSBT.parse(io.BytesIO(fin.serialize()), network="testnet")
                good_src = w.clone()
                for s in range(nsign):
                    good_src.sign(w.roots[s])
                take = (src or good_src).psbt_ins[0].sigs
                sec0 = sorted(take)[0]
                ps.psbt_ins[0].sigs = {sec0: take[sec0]}
                raw = outcome(ps.serialize)
                if raw[0] != "ok":
                    continue
                got = outcome(PSBT.parse, io.BytesIO(raw[1]), "testnet")
                carried = got[0] != "ok" or bool(got[1].psbt_ins[0].sigs)
                if variant == "invalid" and got[0] == "ok" and not carried:
                    continue            # the serialiser dropped the partial signature of a finalised input: nothing invalid was loaded
                cases.append({"id": "%s.finsig.%s" % (tag, variant), "kind": "load", "bytes": B(raw[1]), "expect": "bad-partial-sig" if variant == "invalid" else "valid",
                              "accepted": got[0] == "ok", "label": "finalised-input-with-%s-partial-signature" % variant})
    # a partial signature that is valid for ANOTHER input of the same transaction (address reuse: same keys, same script) does not
    # verify where it was put: loading must fail in both directions
    if nin >= 2:
        wr = Wallet(kind, m, n, nin, seed + 1, reuse=True)
        g = wr.clone()
        for s in range(nsign):
            g.sign(wr.roots[s])
        graw = g.serialize()
        for src, dst in ((0, 1), (1, 0)):
            ps = PSBT.parse(io.BytesIO(graw), network="testnet")
            if not ps.psbt_ins[src].sigs or set(ps.psbt_ins[src].sigs) != set(ps.psbt_ins[dst].sigs):
                continue
            moved = 0
            for sec in sorted(ps.psbt_ins[dst].sigs):
                if ps.psbt_ins[dst].sigs[sec] != ps.psbt_ins[src].sigs[sec]:
                    ps.psbt_ins[dst].sigs[sec] = ps.psbt_ins[src].sigs[sec]
                    moved += 1
                    break
            if not moved:
                continue
            raw = ps.serialize()
            got = outcome(PSBT.parse, io.BytesIO(raw), "testnet")
            cases.append({"id": "%s.badsig.transplant%d%d" % (tag, src, dst), "kind": "load", "bytes": B(raw), "expect": "bad-partial-sig", "accepted": got[0] == "ok",
                          "label": "badsig-transplant-%d-to-%d" % (src, dst)})
    return cases


def run(ctx):
    rng = random.Random(ctx.seed)
    q = ctx.quick
    ctx.rule = ("cases = PSBTs reached in replayed workflows (every signer subset x signing / combining orders) and load attempts, decided by TLC; "
                "distinct = (wallet kind, m-of-n, inputs, stage), (signer count vs m, outcome), malformed / bad-signature variant")
    ctx.assumptions = ["validity of the extracted transaction is observed through Tx.verify_input (validated by C06)", "hd keys are random; amounts fixed"]
    if ctx.want("mc"):
        for (nn, mm) in ([(3, 2)] if q else [(3, 2), (3, 1), (3, 3), (4, 2)]):
            cfg = "%s/wf_%d_%d.cfg" % (ctx.tmp, nn, mm)
            with open(cfg, "w") as f:
                f.write("SPECIFICATION Spec\nCONSTANTS\n  N = %d\n  M = %d\n  Copies = {1, 2, 3}\nINVARIANT Confluence\nINVARIANT FinalIsFunctionOfSet\nINVARIANT ExactlyWhenEnough\nINVARIANT SameSetSameResult\nPROPERTY Monotone\n" % (nn, mm))
            r = ctx.mc_expect_ok("psbt/Workflow.tla", cfg, what="signing workflow confluence", timeout=7200)
        ctx.exhaustive.append("Workflow: all interleavings of Sign / Combine / Finalize over 3 copies for m-of-n up to n = %d" % (3 if q else 4))
    if not ctx.want("cases"):
        return
    jobs = []
    combos = [("p2pkh", 1, 1, 1), ("p2wpkh", 1, 1, 2), ("p2sh-p2wpkh", 1, 1, 1), ("p2sh", 1, 2, 1), ("p2sh", 2, 3, 2), ("p2wsh", 2, 2, 1), ("p2wsh", 2, 3, 1), ("p2sh-p2wsh", 2, 3, 1)]
    if not q:
        combos += [(k, m, n, nin) for k in ("p2sh", "p2wsh", "p2sh-p2wsh") for n in (1, 2, 3, 4) for m in range(1, n + 1) for nin in (1, 3)] + [("p2pkh", 1, 1, 3), ("p2wpkh", 1, 1, 3)]
    for ci, (kind, m, n, nin) in enumerate(combos):
        jobs.append((kind, m, n, nin, rng.randrange(2 ** 60), "%s_%dof%d_%din_%d" % (kind, m, n, nin, ci), not q))
    # wallets whose inputs all pay to one address (one key locks several inputs)
    for ci, (kind, m, n, nin) in enumerate([("p2wpkh", 1, 1, 2), ("p2sh", 1, 2, 2), ("p2wsh", 2, 3, 2)] + ([] if q else [("p2pkh", 1, 1, 3), ("p2sh-p2wpkh", 1, 1, 2), ("p2sh-p2wsh", 2, 2, 3)])):
        jobs.append((kind, m, n, nin, rng.randrange(2 ** 60), "%s_%dof%d_%din_%d_reuse" % (kind, m, n, nin, ci), False))
    cases = []
    from ..core import pool_map
    if True:
        for res in pool_map(ctx, flow, jobs):
            for c in res:
                if "error" in c:
                    raise Exception("wallet construction failed: " + c["error"])
                cases.append(c)
    # the repository's BIP174 vectors that must load
    byid = {c["id"]: c for c in cases}
    for c in cases:
        ctx.nontriv((c["id"].split("_")[0], c["label"], c.get("res", c.get("accepted", ""))))
    ctx.sample({k: v for k, v in cases[0].items() if k in ("id", "kind", "nsigs", "label")})
    bad = ctx.validate("psbt/C10Cases.tla", [{k: v for k, v in c.items() if k != "label"} for c in cases], "C10Cases.cfg", timeout=7200, per_shard_min=8)
    for cid, why in bad.items():
        c = byid[cid]
        ctx.violation("%s:%s:%s:%s" % (c["kind"], why, c["label"], cid.split("_")[0]), "%s case %s: %s" % (c["kind"], cid, why),
                      {"kind": "case", "case": {k: (v if not isinstance(v, list) or len(v) < 600 else "...") for k, v in c.items()}})
