"""C05 — signature hashes (specs/sighash/*).

(C) SigHashCache: Tx midstate memo as a state machine; the pre-repair policy ("memo") must be refuted by TLC
    (query-edit-query counterexample), the repaired policy ("recompute") must satisfy Fresh.
(B/A) C05Cases: random histories (<= 6 steps) of digest queries and edits on one real Tx object; for every query
    TLC evaluates SigHash.tla on the *current* snapshot and exports the digest term (free-constructor hashes);
    the harness evaluates the term with hashlib and compares with what the library returned.
"""
import random

from ..core import B, outcome, eval_term, hash_prim
from .c04 import jcmd

HTS = [0, 1, 2, 3, 0x81, 0x82, 0x83]


def jscript(cmds):
    return [jcmd(c) for c in cmds]


class Fixture:
    """a real Tx whose inputs have known kinds and spent outputs"""

    def __init__(self, rng, unsigned_taproot=False, script_inputs=False):
        from buidl.tx import Tx, TxIn, TxOut
        from buidl.script import Script
        from buidl.witness import Witness
        self.rng = rng
        nin = rng.choice([1, 1, 2, 3, 4, 6]) if not unsigned_taproot else rng.choice([2, 3, 4])
        if script_inputs:
            nin = rng.choice([3, 4])
        nout = rng.choice([0, 1, 1, 2, 3, 6])
        self.kinds = []
        self.meta = []
        tins = []
        for k in range(nin):
            kind = rng.choice(["p2pkh", "p2sh", "p2wpkh", "p2sh-p2wpkh", "p2wsh", "p2sh-p2wsh", "p2tr-key", "p2tr-script"])
            if unsigned_taproot:
                kind = "p2tr-key" if k < nin - 1 or rng.random() < 0.7 else "p2pkh"
            if script_inputs:
                kind = ["p2wsh", "p2sh", "p2sh-p2wsh", "p2wsh", "p2sh-p2wpkh"][(k + nin) % 5]
            m = self.make_input(kind)
            if unsigned_taproot:
                m["witness"], m["script_sig"] = [], []          # nothing signed yet
            t = TxIn(bytes(rng.randrange(256) for _ in range(32)), rng.choice([0, 1, 7, 0xFFFFFFFF, rng.randrange(2 ** 32)]),
                     Script(list(m["script_sig"])), rng.choice([0xFFFFFFFF, 0xFFFFFFFE, 0, 5, 0x80000001, rng.randrange(2 ** 32)]))
            if m["witness"]:
                t.witness = Witness(list(m["witness"]))
            # else: keep the witness TxIn.__init__ gave the input (a spend that has not been signed yet)
            t._value = m["amount"]
            t._script_pubkey = Script(list(m["spk"]))
            tins.append(t)
            self.kinds.append(kind)
            self.meta.append(m)
        # the harness' own model of every input's witness stack: edits go to the model and to the object, the specification
        # is evaluated on the model (an in-place edit of one input must leave the other inputs as they were built)
        self.wit_model = [list(m["witness"]) for m in self.meta]
        touts = [TxOut(self.rand_amount(), Script(self.rand_spk())) for _ in range(nout)]
        self.tx = Tx(rng.choice([1, 2, 2, 0xFFFFFFFF]), tins, touts, rng.choice([0, 0, 500000000, 0xFFFFFFFF, rng.randrange(2 ** 32)]),
                     segwit=True)

    def rand_amount(self):
        r = self.rng
        return r.choice([0, 1, 546, 10 ** 8, 2 ** 32, 2 ** 63 - 1, r.randrange(2 ** 63)])

    def rb(self, n):
        return bytes(self.rng.randrange(256) for _ in range(n))

    def rand_spk(self):
        r = self.rng
        return r.choice([[0x76, 0xA9, self.rb(20), 0x88, 0xAC], [0xA9, self.rb(20), 0x87], [0, self.rb(20)], [0, self.rb(32)],
                         [0x51, self.rb(32)], [0x6A, self.rb(r.choice([1, 40, 75, 76, 80]))], []])

    def make_input(self, kind):
        from buidl.script import Script
        r = self.rng
        m = {"amount": self.rand_amount(), "script_sig": [], "witness": [], "redeem": [], "wscript": []}
        multisig = [0x51, b"\x02" + self.rb(32), b"\x03" + self.rb(32), 0x52, 0xAE]
        if r.random() < 0.3:
            multisig = [0x52, b"\x02" + self.rb(32), b"\x03" + self.rb(32), b"\x02" + self.rb(32), 0x53, 0xAE]
        fakesig = b"\x30" + self.rb(70)
        if kind == "p2pkh":
            m["spk"] = [0x76, 0xA9, self.rb(20), 0x88, 0xAC]
            m["script_sig"] = [fakesig, b"\x02" + self.rb(32)]
        elif kind == "p2sh":
            raw = Script(list(multisig)).raw_serialize()
            m["redeem"] = multisig
            m["spk"] = [0xA9, hash_prim("hash160", raw), 0x87]
            m["script_sig"] = [0, fakesig, raw]
        elif kind == "p2wpkh":
            m["spk"] = [0, self.rb(20)]
            m["witness"] = [fakesig, b"\x02" + self.rb(32)]
        elif kind == "p2sh-p2wpkh":
            m["redeem"] = [0, self.rb(20)]
            raw = Script(list(m["redeem"])).raw_serialize()
            m["spk"] = [0xA9, hash_prim("hash160", raw), 0x87]
            m["script_sig"] = [raw]
            m["witness"] = [fakesig, b"\x02" + self.rb(32)]
        elif kind in ("p2wsh", "p2sh-p2wsh"):
            m["wscript"] = multisig
            raw = Script(list(multisig)).raw_serialize()
            prog = [0, hash_prim("sha256", raw)]
            m["witness"] = [b"", fakesig, raw]
            if kind == "p2wsh":
                m["spk"] = prog
            else:
                m["redeem"] = prog
                rraw = Script(list(prog)).raw_serialize()
                m["spk"] = [0xA9, hash_prim("hash160", rraw), 0x87]
                m["script_sig"] = [rraw]
        elif kind == "p2tr-key":
            m["spk"] = [0x51, self.rb(32)]
            sig = bytes([r.choice([0x50, 0x11, 0x00, 0xFF])]) + self.rb(63)
            m["witness"] = r.choice([[], [sig], [sig + b"\x01"], [sig, b"\x50" + self.rb(r.choice([0, 1, 30]))]])
        elif kind == "p2tr-script":
            m["spk"] = [0x51, self.rb(32)]
            leaf = [self.rb(32), 0xAC] if r.random() < 0.6 else [self.rb(32), 0xAC, self.rb(32), 0xBA, 0x52, 0x87]
            m["leaf"] = leaf
            m["leafver"] = r.choice([0xC0, 0xC0, 0xC2])
            raw = Script(list(leaf)).raw_serialize()
            from buidl.ecc import PrivateKey
            xonly = PrivateKey(r.randrange(1, 2 ** 200)).point.xonly()     # a valid internal key (fixture only)
            cb = bytes([m["leafver"] | r.choice([0, 1])]) + xonly + self.rb(32 * r.choice([0, 1, 2]))
            m["witness"] = [self.rb(64), raw, cb]
            if r.random() < 0.4:
                m["witness"].append(b"\x50" + self.rb(r.choice([0, 5, 300])))
        return m

    # ---- snapshot -----------------------------------------------------------------------
    def snapshot(self):
        tx = self.tx
        ins = [{"txid": B(i.prev_tx), "idx": B(int(i.prev_index).to_bytes(4, "little")), "script": jscript(i.script_sig.commands),
                "seq": B(int(i.sequence).to_bytes(4, "little")), "wit": [B(x) for x in self.wit_model[n]]} for n, i in enumerate(tx.tx_ins)]
        outs = [{"amount": B(int(o.amount).to_bytes(8, "little")), "script": jscript(o.script_pubkey.commands)} for o in tx.tx_outs]
        j = {"version": B(int(tx.version).to_bytes(4, "little")), "ins": ins, "outs": outs,
             "locktime": B(int(tx.locktime).to_bytes(4, "little")), "segwit": True}
        spent = [{"amount": B(int(i._value).to_bytes(8, "little")), "script": jscript(i._script_pubkey.commands)} for i in tx.tx_ins]
        return j, spent

    # ---- steps ----------------------------------------------------------------------------
    def edit(self, what=None, k=None):
        from buidl.tx import TxIn, TxOut
        from buidl.script import Script
        from buidl.timelock import Sequence, Locktime
        r = self.rng
        tx = self.tx
        choices = ["in_seq", "in_outpoint", "locktime", "version", "spent_amount", "add_output", "add_input"]
        if len(tx.tx_ins) >= 2:
            choices += ["del_input", "swap_inputs", "swap_inputs"]
        if tx.tx_outs:
            choices += ["out_amount", "out_script", "del_output", "out_amount", "out_script"]
        if any(k.startswith("p2tr") for k in self.kinds):
            choices += ["annex"]
        forced = k
        what = what or r.choice(choices)
        k = r.randrange(len(tx.tx_ins)) if forced is None else forced
        if what in ("del_input", "swap_inputs", "add_input"):
            # the list of inputs itself changes: another input now sits at an index that was queried before
            from buidl.witness import Witness
            if what == "del_input":
                del tx.tx_ins[k], self.kinds[k], self.meta[k], self.wit_model[k]
            elif what == "swap_inputs":
                j = (k + 1 + r.randrange(len(tx.tx_ins) - 1)) % len(tx.tx_ins)
                for lst in (tx.tx_ins, self.kinds, self.meta, self.wit_model):
                    lst[k], lst[j] = lst[j], lst[k]
            else:
                kind = r.choice(["p2pkh", "p2sh", "p2wpkh", "p2sh-p2wpkh", "p2wsh", "p2sh-p2wsh", "p2tr-key", "p2tr-script"])
                m = self.make_input(kind)
                t = TxIn(self.rb(32), r.randrange(2 ** 32), Script(list(m["script_sig"])), r.choice([0xFFFFFFFF, 0, r.randrange(2 ** 32)]))
                if m["witness"]:
                    t.witness = Witness(list(m["witness"]))
                t._value = m["amount"]
                t._script_pubkey = Script(list(m["spk"]))
                at = r.randrange(len(tx.tx_ins) + 1)
                tx.tx_ins.insert(at, t)
                self.kinds.insert(at, kind)
                self.meta.insert(at, m)
                self.wit_model.insert(at, list(m["witness"]))
        elif what == "in_seq":
            tx.tx_ins[k].sequence = Sequence(r.choice([0, 1, 0xFFFFFFFF, r.randrange(2 ** 32)]))
        elif what == "in_outpoint":
            if r.random() < 0.5:
                tx.tx_ins[k].prev_tx = self.rb(32)
            else:
                tx.tx_ins[k].prev_index = r.randrange(2 ** 32)
        elif what == "locktime":
            tx.locktime = Locktime(r.randrange(2 ** 32))
        elif what == "version":
            tx.version = r.choice([1, 2, 3])
        elif what == "spent_amount":
            tx.tx_ins[k]._value = self.rand_amount()
        elif what == "add_output":
            tx.tx_outs.insert(r.randrange(len(tx.tx_outs) + 1), TxOut(self.rand_amount(), Script(self.rand_spk())))
        elif what == "out_amount":
            tx.tx_outs[r.randrange(len(tx.tx_outs))].amount = self.rand_amount()
        elif what == "out_script":
            tx.tx_outs[r.randrange(len(tx.tx_outs))].script_pubkey = Script(self.rand_spk())
        elif what == "del_output":
            del tx.tx_outs[r.randrange(len(tx.tx_outs))]
        elif what == "annex":
            cand = [i for i, kd in enumerate(self.kinds) if kd.startswith("p2tr")]
            k = r.choice(cand) if forced is None else forced
            w = tx.tx_ins[k].witness.items
            wm = self.wit_model[k]
            if len(wm) >= 2 and wm[-1][:1] == b"\x50":
                w.pop()
                wm.pop()
            elif len(wm) >= 1:
                ax = b"\x50" + self.rb(r.choice([0, 1, 64]))
                w.append(ax)
                wm.append(ax)
            else:                                   # unsigned key-path input: sign in place (signature + annex), as finalize_* helpers do
                items = [self.rb(64), b"\x50" + self.rb(r.choice([0, 2]))]
                w.extend(items)
                wm.extend(items)
        return what

    def query(self, cid, k=None, ht=None, mode=None):
        """one digest query on the real object; returns the case for TLC"""
        from buidl.script import Script, RedeemScript, WitnessScript
        r = self.rng
        tx = self.tx
        if k is None:
            k = r.randrange(len(tx.tx_ins))
            if r.random() < 0.04:
                k = len(tx.tx_ins)           # out-of-range index (legacy "one" rule)
        ht = r.choice(HTS) if ht is None else ht
        kind = self.kinds[k] if k < len(self.kinds) else "p2pkh"
        m = self.meta[k] if k < len(self.meta) else None
        mode = (mode or r.choice(["direct", "direct", "dispatch"])) if m is not None else "direct"
        case = {"id": cid, "idx": k, "ht": ht, "kind": kind, "redeem": [], "wscript": [], "sc": [], "ext": 0, "leafver": 0,
                "leafscript": [], "mode": mode}
        if m is None or kind in ("p2pkh", "p2sh") or (mode == "direct" and r.random() < 0.15 and kind not in ("p2tr-key", "p2tr-script")):
            if ht == 0:
                ht = case["ht"] = 1
            case["alg"] = "legacy"
            if m is None:
                sc = [0x51]
                call = lambda: tx.sig_hash_legacy(k, Script(list(sc)), ht)
                mode = case["mode"] = "direct"
            elif kind == "p2sh" or (kind != "p2pkh" and m["redeem"]):
                sc = m["redeem"] if m["redeem"] else m["spk"]
                call = (lambda: tx.sig_hash_legacy(k, RedeemScript(list(sc)), ht)) if (mode == "direct" or kind != "p2sh") else (lambda: tx.sig_hash(k, ht))
                if kind != "p2sh":
                    case["mode"] = "direct"
            else:
                sc = m["spk"]
                call = (lambda: tx.sig_hash_legacy(k, None, ht)) if (mode == "direct" or kind != "p2pkh") else (lambda: tx.sig_hash(k, ht))
                if kind != "p2pkh":
                    case["mode"] = "direct"
            case["sc"] = jscript(sc)
        elif kind in ("p2wpkh", "p2sh-p2wpkh", "p2wsh", "p2sh-p2wsh"):
            if ht == 0:
                ht = case["ht"] = 1
            case["alg"] = "bip143"
            case["redeem"] = jscript(m["redeem"])
            case["wscript"] = jscript(m["wscript"])
            red = RedeemScript(list(m["redeem"])) if m["redeem"] else None
            wsc = WitnessScript(list(m["wscript"])) if m["wscript"] else None
            call = (lambda: tx.sig_hash_bip143(k, red, wsc, ht)) if mode == "direct" else (lambda: tx.sig_hash(k, ht))
        else:
            case["alg"] = "bip341"
            w = self.wit_model[k]
            has_annex = len(w) >= 2 and w[-1][:1] == b"\x50"
            nitems = len(w) - (1 if has_annex else 0)
            if kind == "p2tr-script":
                case["ext"] = 1
                case["leafver"] = m["leafver"]
                case["leafscript"] = B(Script(list(m["leaf"])).raw_serialize())
                case["nitems"] = nitems
            else:
                case["ext"] = 0
            ext = case["ext"]
            call = (lambda: tx.sig_hash_bip341(k, ext, ht)) if mode == "direct" else (lambda: tx.sig_hash(k, ht))
            case["annex"] = has_annex
        import contextlib
        import io
        with contextlib.redirect_stdout(io.StringIO()):
            res = outcome(call)
        j, spent = self.snapshot()
        case["tx"], case["spent"] = j, spent
        if res[0] == "ok":
            d = res[1]
            case["res"] = "ok"
            case["digest"] = d.to_bytes(32, "big") if isinstance(d, int) else bytes(d)
        else:
            case["res"] = "raise:" + res[1]
            case["digest"] = b""
        return case


# ------------------------------------------------------------------ binding A: histories of the SigHashCache model
# action alphabet = Next of specs/sighash/SigHashCache.tla (edits of the four field groups, queries of the three algorithms
# under hash types that do / do not use each midstate); every sequence up to the depth bound is replayed on one real Tx.
MODEL_ACTIONS = ["EditOutput", "EditSequence", "EditOutpoint", "EditSpent", "QueryLegacy", "Query143(ALL)", "Query143(ACP|SINGLE)",
                 "Query143(NONE)", "Query341(DEFAULT)", "Query341(ACP|NONE)", "Query341(SINGLE)"]


def model_histories(ctx, rng, depth):
    import itertools
    from buidl.tx import Tx, TxIn, TxOut
    from buidl.script import Script
    from buidl.timelock import Sequence
    from buidl.witness import Witness

    def fresh():
        ins = []
        for spk, wit in (([0, b"\x11" * 20], [b"\x30" * 71, b"\x02" * 33]), ([0x51, b"\x22" * 32], [b"\x33" * 64]), ([0x76, 0xA9, b"\x44" * 20, 0x88, 0xAC], [])):
            t = TxIn(bytes([len(ins) + 1]) * 32, len(ins), sequence=0xFFFFFFFE)
            t._value = 10000 * (len(ins) + 1)
            t._script_pubkey = Script(list(spk))
            t.witness = Witness(list(wit))
            ins.append(t)
        outs = [TxOut(5000, Script([0, b"\x55" * 20])), TxOut(7000, Script([0x51, b"\x66" * 32]))]
        return Tx(2, ins, outs, 0, segwit=True)

    class FX:
        pass
    results = {}       # (state, action) -> {digest: example history}
    snaps = {}
    nq = 0
    for d in range(1, depth + 1):
        for hist in itertools.product(range(len(MODEL_ACTIONS)), repeat=d):
            if MODEL_ACTIONS[hist[-1]].startswith("Edit"):
                continue               # a history that ends with an edit adds nothing beyond its prefix
            tx = fresh()
            st = [0, 0, 0, 0]          # outV, seqV, prevV, spentV (mod 3, as MaxV = 2 in the model)
            for a in hist:
                name = MODEL_ACTIONS[a]
                if name == "EditOutput":
                    st[0] = (st[0] + 1) % 3
                    tx.tx_outs[0].amount = 5000 + st[0]
                elif name == "EditSequence":
                    st[1] = (st[1] + 1) % 3
                    tx.tx_ins[0].sequence = Sequence(0xFFFFFFFE - st[1])
                elif name == "EditOutpoint":
                    st[2] = (st[2] + 1) % 3
                    tx.tx_ins[1].prev_index = 1 + 10 * st[2]
                elif name == "EditSpent":
                    st[3] = (st[3] + 1) % 3
                    tx.tx_ins[1]._value = 20000 + st[3]
                else:
                    if name == "QueryLegacy":
                        alg, idx, ht, call = "legacy", 2, 1, (lambda: tx.sig_hash_legacy(2, None, 1))
                    elif name.startswith("Query143"):
                        ht = {"ALL": 1, "ACP|SINGLE": 0x83, "NONE": 2}[name[9:-1]]
                        alg, idx, call = "bip143", 0, (lambda: tx.sig_hash_bip143(0, None, None, ht))
                    else:
                        ht = {"DEFAULT": 0, "ACP|NONE": 0x82, "SINGLE": 3}[name[9:-1]]
                        alg, idx, call = "bip341", 1, (lambda: tx.sig_hash_bip341(1, 0, ht))
                    res = outcome(call)
                    nq += 1
                    dig = (res[1].to_bytes(32, "big") if isinstance(res[1], int) else bytes(res[1])) if res[0] == "ok" else b"raise:" + str(res[1]).encode()
                    key = (tuple(st), name)
                    if key not in snaps:
                        fx = FX()
                        fx.tx = tx
                        fx.wit_model = [[b"\x30" * 71, b"\x02" * 33], [b"\x33" * 64], []]     # as built by fresh(); this machine never edits witnesses
                        j, spent = Fixture.snapshot(fx)
                        snaps[key] = {"id": "mh%d" % len(snaps), "alg": alg, "idx": idx, "ht": ht, "kind": "p2wpkh", "redeem": [], "wscript": [],
                                      "sc": jscript(tx.tx_ins[2]._script_pubkey.commands), "ext": 0, "leafver": 0, "leafscript": [], "tx": j, "spent": spent}
                    results.setdefault(key, {}).setdefault(dig, [MODEL_ACTIONS[x] for x in hist])
    ctx.evaluations += nq
    return snaps, results, nq


def run(ctx):
    rng = random.Random(ctx.seed)
    q = ctx.quick
    ctx.rule = ("cases = digest queries inside random histories (<= 6 steps of queries and edits) on real Tx objects with "
                "1..6 inputs of all standard kinds and 0..6 outputs; distinct = (algorithm, hash type, key/script path, annex, "
                "index-vs-output-count class, direct/dispatch, kind of the edit that preceded the query); non-trivial = a "
                "digest was computed and compared with the specification's term")
    ctx.assumptions = ["script codes are the standard ones (no OP_CODESEPARATOR / FindAndDelete)",
                       "hash primitives (SHA-256, RIPEMD-160, tagged hash) are trusted: CPython hashlib evaluates the exported terms"]
    if ctx.want("mc"):
        r0 = ctx.mc("sighash/SigHashCache.tla", "MC_Memo.cfg")
        if not r0.invariant:
            raise Exception("vacuity: the never-invalidated memo policy was expected to violate Fresh")
        r = ctx.mc_expect_ok("sighash/SigHashCache.tla", "MC_Recompute.cfg", what="digest freshness under edits")
        ctx.exhaustive.append("SigHashCache: all interleavings of 4 edit kinds and 13 query kinds up to depth 7 (%d states); "
                              "memo policy refuted, recompute policy satisfies Fresh" % r.distinct)
    if ctx.want("histories"):
        depth = 4 if q else 5
        snaps, results, nq = model_histories(ctx, rng, depth)
        got = ctx.validate("sighash/C05Cases.tla", list(snaps.values()), "C05Cases.cfg", timeout=7200, per_shard_min=10)
        byid = {v["id"]: k for k, v in snaps.items()}
        for cid, e in got.items():
            key = byid[cid]
            want = eval_term(e["term"]) if e["ok"] else None
            for dig, hist in results[key].items():
                ctx.nontriv(("model-history", key[1], key[0]))
                if want is None or dig != want:
                    ctx.violation("history:%s:after-%s" % (key[1], "+".join(sorted({h for h in hist[:-1] if h.startswith("Edit")})) or "queries-only"),
                                  "after the history %s the library returned %s for %s; the digest of the current transaction is %s"
                                  % (hist, dig.hex() if not dig.startswith(b"raise") else dig, key[1], want.hex() if want else None),
                                  {"kind": "history", "history": hist, "state": list(key[0])})
        ctx.traces += nq
        ctx.exhaustive.append("every sequence of <= %d actions of SigHashCache.Next (4 edits, 7 queries) replayed on one real Tx: %d queries, %d distinct (state, query) pairs decided by TLC"
                              % (depth, nq, len(snaps)))
        ctx.sample({"model_history": results[next(iter(results))][next(iter(results[next(iter(results))]))]})
    if ctx.want("cases"):
        nh = 120 if q else 2500
        cases = []
        cmeta = {}
        for h in range(nh):
            fx = Fixture(rng)
            last_edit = "none"
            nsteps = rng.choice([1, 3, 6, 6])
            trace = []
            for s in range(nsteps):
                if s > 0 and rng.random() < 0.45:
                    last_edit = fx.edit()
                    trace.append("edit:" + last_edit)
                else:
                    c = fx.query("h%d.s%d" % (h, s))
                    c["after_edit"] = last_edit
                    c["step"] = s
                    trace.append("query:%s:%#x:%d" % (c["alg"], c["ht"], c["idx"]))
                    cases.append(c)
            if h == 0:
                ctx.sample({"history": trace})
        # signing an unsigned taproot transaction input by input, in place (what finalize_* helpers do): the digest of every
        # other input is queried after each signature lands
        for h in range(4 if q else 40):
            fx = Fixture(rng, unsigned_taproot=True)
            nin = len(fx.tx.tx_ins)
            step = 0
            for k in range(nin):
                if fx.kinds[k] != "p2tr-key":
                    continue
                last = "none" if k == 0 else "sign-in-place:%d" % (k - 1)
                for j in range(nin):
                    c = fx.query("u%d.s%d" % (h, step), k=j, ht=rng.choice([0, 1, 3, 0x81]))
                    c["after_edit"], c["step"] = last, step
                    cases.append(c)
                    step += 1
                fx.edit(what="annex", k=k)
            for j in range(nin):
                c = fx.query("u%d.s%d" % (h, step), k=j, ht=0)
                c["after_edit"], c["step"] = "sign-in-place:%d" % (nin - 1), step
                cases.append(c)
                step += 1
        # the list of inputs changes between queries made through the dispatcher Tx.sig_hash (which works out the algorithm and the
        # script code of input i from the input itself): every input is queried, the list is edited, every input is queried again
        for h in range(6 if q else 60):
            fx = Fixture(rng, script_inputs=True)
            step = 0
            last = "none"
            for round_ in range(3):
                for j in range(len(fx.tx.tx_ins)):
                    c = fx.query("li%d.s%d" % (h, step), k=j, ht=rng.choice([1, 1, 3, 0x81, 0x82]), mode="dispatch")
                    c["after_edit"], c["step"] = last, step
                    cases.append(c)
                    step += 1
                last = fx.edit(what=rng.choice(["del_input", "swap_inputs", "swap_inputs", "add_input"]) if len(fx.tx.tx_ins) >= 2 else "add_input",
                               k=rng.randrange(len(fx.tx.tx_ins)))
        send = []
        for c in cases:
            cmeta[c["id"]] = c
            send.append({k: (B(v) if isinstance(v, (bytes, bytearray)) else v) for k, v in c.items()
                         if k in ("id", "alg", "idx", "ht", "kind", "redeem", "wscript", "sc", "ext", "leafver", "leafscript", "tx", "spent")})
        got = ctx.validate("sighash/C05Cases.tla", send, "C05Cases.cfg", timeout=7200, per_shard_min=10)
        for cid, e in got.items():
            c = cmeta[cid]
            nouts = len(c["tx"]["outs"])
            idxcls = "idx>=nin" if c["idx"] >= len(c["tx"]["ins"]) else ("idx>=nout" if c["idx"] >= nouts else "idx<nout")
            cls = "%s:ht=%#x:%s:%s" % (c["alg"], c["ht"], idxcls, c["mode"])
            if c["alg"] == "bip341":
                cls += ":ext%d:%s" % (c["ext"], "annex" if c.get("annex") else "noannex")
            ctx.nontriv((cls, c["after_edit"], c["step"] > 0))
            if not e["ok"]:
                # the specification defines no digest here (invalid hash type / SINGLE without output in BIP341): library must not return one
                if c["res"] == "ok":
                    ctx.violation("digest-returned-where-undefined:" + cls, "library returned a digest where the specification defines none: %s" % cls,
                                  {"kind": "case", "case": {k: v for k, v in c.items() if k != "digest"}})
                continue
            want = eval_term(e["term"])
            if c["res"] != "ok":
                ctx.violation("raises:" + cls, "library raised %s where the specification defines digest %s" % (c["res"], want.hex()),
                              {"kind": "case", "case": {k: (v.hex() if isinstance(v, bytes) else v) for k, v in c.items()}})
            elif want != c["digest"]:
                stale = c["after_edit"] != "none" and c["step"] > 0
                ctx.violation("digest-differs:" + cls, "library digest %s, specification %s (after edit: %s)"
                              % (c["digest"].hex(), want.hex(), c["after_edit"]),
                              {"kind": "case", "case": {k: (v.hex() if isinstance(v, bytes) else v) for k, v in c.items()}})
        ctx.sample({k: v for k, v in send[0].items() if k in ("id", "alg", "idx", "ht", "kind", "ext")})
