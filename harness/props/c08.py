"""C08 — BIP32 (specs/bip32/BIP32Toy.tla, BIP32Cases.tla).

(C/A) toy group + toy HMAC: TLC explores the wallet tree as a state machine deriving the private and the public chain in
      lockstep (PubPrivConsistent in every state, paths to depth 3 over boundary indexes) and exports the complete
      CKDpriv / CKDpub tables, replayed through HDPrivateKey.child / HDPublicKey.child on the toy group.
(B)   secp256k1: master keys from seeds of 16..64 bytes, child steps at boundary and random indexes (certified
      HMAC-SHA512 / hash160 rows, scalar arithmetic with certificates), all 20 version prefixes through
      serialise/parse, path traversals in both notations and cases against step-by-step derivation, blinding.
"""
import hashlib
import hmac as pyhmac
import random

from ..core import toy_guard, B, outcome, hash_prim
from ..toycurve import curve_params, toy
from .c03 import le, N256
from .c09 import T, h256row

TOY = [(7, 0, 3), (31, 0, 3)]
VERSIONS = {"prv-main": ["0488ade4", "049d7878", "04b2430c", "0295b005", "02aa7a99"], "pub-main": ["0488b21e", "049d7cb2", "04b24746", "0295b43f", "02aa7ed3"],
            "prv-test": ["04358394", "044a4e28", "045f18bc", "024285b5", "02575048"], "pub-test": ["043587cf", "044a5262", "045f1cf6", "024289ef", "02575483"]}


def replay_toy(ctx, curve, tab):
    from buidl import hd
    p, a, b = curve
    n, g = tab["n"], tuple(tab["g"])
    cnt = 0
    with toy(p, a, b, n, g, toy_hmac=True) as pecc:
        for r in tab["priv"]:
            idx = (2 ** 31 if r["i"]["h"] else 0) + r["i"]["v"]
            node = hd.HDPrivateKey(pecc.PrivateKey(r["k"]), r["c"].to_bytes(32, "big"))
            got = outcome(node.child, idx)
            cnt += 1
            ctx.nontriv(("toy-ckdpriv", n, r["i"]["h"], r["i"]["v"]))
            if not r["r"]["ok"]:
                if got[0] == "ok":
                    ctx.violation("toy-ckdpriv:zero-child-key-not-refused", "toy n=%d k=%d i=%d" % (n, r["k"], idx), {"kind": "toy-priv", "row": r})
                continue
            if got[0] != "ok" or got[1].private_key.secret != r["r"]["k"] or got[1].chain_code != r["r"]["c"].to_bytes(32, "big") or got[1].child_number != idx or got[1].depth != 1:
                ctx.violation("toy-ckdpriv:%s" % ("hardened" if r["i"]["h"] else "normal"), "toy n=%d: child(k=%d, c=%d, i=%d) = %s, specification %s"
                              % (n, r["k"], r["c"], idx, (got[1].private_key.secret, got[1].chain_code[-2:].hex()) if got[0] == "ok" else got, r["r"]), {"kind": "toy-priv", "row": r})
        for r in tab["pub"]:
            idx = r["i"]["v"]
            node = hd.HDPublicKey(pecc.S256Point(r["K"][0], r["K"][1]), r["c"].to_bytes(32, "big"), 0, b"\x00" * 4, 0)
            got = outcome(node.child, idx)
            cnt += 1
            if not r["r"]["ok"]:
                continue
            want = tuple(r["r"]["K"])
            if got[0] != "ok" or (got[1].point.x.num, got[1].point.y.num) != want or got[1].chain_code != r["r"]["c"].to_bytes(32, "big"):
                ctx.violation("toy-ckdpub", "toy n=%d: pub child(K=%s, c=%d, i=%d) = %s, specification %s" % (n, r["K"], r["c"], idx, got, r["r"]), {"kind": "toy-pub", "row": r})
            hard = outcome(node.child, idx + 2 ** 31)
            if hard[0] == "ok":
                ctx.violation("toy-ckdpub:hardened-not-refused", "public derivation of hardened index accepted", {"kind": "toy-pub", "row": r})
    ctx.evaluations += cnt
    ctx.traces += cnt


def hm512(key, msg):
    return {"fn": "hmac512", "in": B(key) + [-3] + B(msg), "out": B(pyhmac.new(key, msg, hashlib.sha512).digest())}


def dec(x):
    q, r = divmod(x, N256)
    return {"q": le(q), "r": le(r)}


def real_cases(ctx, rng, nseeds):
    from buidl import hd
    from buidl.blinding import blind_xpub, combine_bip32_paths
    cases = []

    def rb(n):
        return bytes(rng.randrange(256) for _ in range(n))
    idxs = [0, 1, 2 ** 31 - 1, 2 ** 31, 2 ** 31 + 1, 2 ** 32 - 1]
    for si in range(nseeds):
        seed = rb([16, 32, 64, 17, 63][si % 5])
        if si in (1, 2):
            # a master key (si = 1) / master chain code (si = 2) whose leading byte is zero: found by search with hmac
            for t_ in range(100000):
                seed = b"seed-%d-%d" % (si, t_) + rb(8)
                if pyhmac.new(b"Bitcoin seed", seed, hashlib.sha512).digest()[0 if si == 1 else 32] == 0:
                    break
        net = ["mainnet", "testnet", "signet", "regtest"][si % 4]
        # certified HMAC-SHA512 rows are produced here for the inputs BIP32 prescribes (not recorded from the library's calls)
        calls = [(b"Bitcoin seed", seed)]
        try:
            root = hd.HDPrivateKey.from_seed(seed, network=net)
            cases.append({"id": "m%d" % si, "kind": "master", "seed": B(seed), "k": le(root.private_key.secret), "chain": B(root.chain_code), "depth": root.depth,
                          "fp": B(root.parent_fingerprint), "number4": B(root.child_number.to_bytes(4, "big")), "hr": [hm512(k_, m_) for k_, m_ in calls]})
            node = root
            for step in range(3 if si else 6):
                idx = idxs[(si + step) % len(idxs)] if (step + si) % 3 else rng.randrange(2 ** 32)
                if si == 1 and step == 1:
                    # a child whose private key has a leading zero byte (non-hardened, so the public side goes the same way)
                    sec_ = node.private_key.point.sec()
                    for cand in range(0, 200000):
                        il_ = int.from_bytes(pyhmac.new(node.chain_code, sec_ + cand.to_bytes(4, "big"), hashlib.sha512).digest()[:32], "big")
                        if il_ < N256 and ((il_ + node.private_key.secret) % N256) >> 248 == 0:
                            idx = cand
                            break
                del calls[:]
                calls.append((node.chain_code, (b"\x00" + node.private_key.secret.to_bytes(32, "big") if idx >= 2 ** 31 else node.private_key.point.sec()) + idx.to_bytes(4, "big")))
                if (si + step) % 2 == 1:
                    # other queries on the same key objects first (uncompressed forms, addresses): derivation must not depend on them
                    outcome(node.private_key.point.hash160, False)
                    outcome(node.pub.point.address, False)
                    outcome(node.pub.point.sec, False)
                    outcome(node.xpub)
                ch = outcome(node.child, idx)
                pubch = outcome(node.pub.child, idx)
                sec = node.private_key.point.sec()
                hr = [hm512(k_, m_) for k_, m_ in calls] + [{"fn": "hash160", "in": B(sec), "out": B(hash_prim("hash160", sec))}]
                il = int.from_bytes(pyhmac.new(node.chain_code, (b"\x00" + node.private_key.secret.to_bytes(32, "big") if idx >= 2 ** 31 else sec) + idx.to_bytes(4, "big"), hashlib.sha512).digest()[:32], "big")
                c = {"id": "c%d.%d" % (si, step), "kind": "child", "k": le(node.private_key.secret), "chain": B(node.chain_code), "sec": B(sec), "idx4": B(idx.to_bytes(4, "big")),
                     "depth": node.depth, "dk": dec(il + node.private_key.secret), "hr": hr, "res": ch[0], "pub_res": pubch[0]}
                if ch[0] == "ok":
                    n2 = ch[1]
                    c.update({"child_k": le(n2.private_key.secret), "child_chain": B(n2.chain_code), "child_depth": n2.depth, "child_number4": B(n2.child_number.to_bytes(4, "big")),
                              "child_fp": B(n2.parent_fingerprint), "child_sec": B(n2.private_key.point.sec())})
                else:
                    c.update({"child_k": [], "child_chain": [], "child_depth": -1, "child_number4": [], "child_fp": [], "child_sec": []})
                if pubch[0] == "ok":
                    p2 = pubch[1]
                    c.update({"pub_child_sec": B(p2.point.sec()), "pub_child_chain": B(p2.chain_code), "pub_child_depth": p2.depth, "pub_child_number4": B(p2.child_number.to_bytes(4, "big")), "pub_child_fp": B(p2.parent_fingerprint)})
                else:
                    c.update({"pub_child_sec": [], "pub_child_chain": [], "pub_child_depth": -1, "pub_child_number4": [], "pub_child_fp": []})
                cases.append(c)
                ctx.nontriv(("child", idx if idx in idxs else "rnd", idx >= 2 ** 31))
                if ch[0] != "ok":
                    break
                node = ch[1]
        finally:
            pass
        # serialisation with every version prefix
        for fam, vers in VERSIONS.items():
            private = fam.startswith("prv")
            mainnet = fam.endswith("main")
            for v in (vers if si < 2 else vers[:1]):
                vb = bytes.fromhex(v)
                text = outcome(node.xprv, vb) if private else outcome(node.xpub, vb)
                back = outcome((hd.HDPrivateKey if private else hd.HDPublicKey).parse, text[1]) if text[0] == "ok" else ("raise", None)
                bt = outcome(back[1].xprv if private else back[1].xpub) if back[0] == "ok" else ("raise", "")
                raw = vb + bytes([node.depth]) + node.parent_fingerprint + node.child_number.to_bytes(4, "big") + node.chain_code + \
                    (b"\x00" + node.private_key.secret.to_bytes(32, "big") if private else node.private_key.point.sec())
                cases.append({"id": "x%d.%s" % (si, v), "kind": "xkey", "version": B(vb), "depth": node.depth, "fp": B(node.parent_fingerprint), "number4": B(node.child_number.to_bytes(4, "big")),
                              "chain": B(node.chain_code), "private": private, "k": le(node.private_key.secret), "sec": B(node.private_key.point.sec()), "text": T(text[1]) if text[0] == "ok" else [0],
                              "hr": [h256row(raw)], "back_ok": back[0] == "ok", "back_text": T(bt[1]) if bt[0] == "ok" else [], "mainnet": mainnet,
                              "back_mainnet": (back[1].network == "mainnet") if back[0] == "ok" else (not mainnet)})
                ctx.nontriv(("xkey", v))
        # after exports under explicit version bytes, the default serialisations of the same objects are still the key's own
        for private in (True, False):
            vb = bytes.fromhex(VERSIONS[("prv-" if private else "pub-") + ("main" if net == "mainnet" else "test")][0])
            obj = node if private else node.pub
            outcome(obj.xprv if private else obj.xpub, bytes.fromhex(VERSIONS[("prv-" if private else "pub-") + ("main" if net == "mainnet" else "test")][2]))
            text = outcome(obj.xprv) if private else outcome(obj.xpub)
            back = outcome((hd.HDPrivateKey if private else hd.HDPublicKey).parse, text[1]) if text[0] == "ok" else ("raise", None)
            bt = outcome(back[1].xprv if private else back[1].xpub) if back[0] == "ok" else ("raise", "")
            raw = vb + bytes([node.depth]) + node.parent_fingerprint + node.child_number.to_bytes(4, "big") + node.chain_code + \
                (b"\x00" + node.private_key.secret.to_bytes(32, "big") if private else node.private_key.point.sec())
            cases.append({"id": "xd%d.%s" % (si, "prv" if private else "pub"), "kind": "xkey", "version": B(vb), "depth": node.depth, "fp": B(node.parent_fingerprint),
                          "number4": B(node.child_number.to_bytes(4, "big")), "chain": B(node.chain_code), "private": private, "k": le(node.private_key.secret),
                          "sec": B(node.private_key.point.sec()), "text": T(text[1]) if text[0] == "ok" else [0], "hr": [h256row(raw)], "back_ok": back[0] == "ok",
                          "back_text": T(bt[1]) if bt[0] == "ok" else [], "mainnet": net == "mainnet", "back_mainnet": (back[1].network == "mainnet") if back[0] == "ok" else (net != "mainnet")})
            ctx.nontriv(("xkey-default-after-explicit", private))
        # SLIP-132 wallets: a root created with explicit version bytes keeps them along private and public derivation
        for vi in range(1, 5):
            if si >= 3 and vi != 1 + si % 4:
                continue
            fam = "main" if net == "mainnet" else "test"
            pv, uv = bytes.fromhex(VERSIONS["prv-" + fam][vi]), bytes.fromhex(VERSIONS["pub-" + fam][vi])
            rootv = outcome(hd.HDPrivateKey.from_seed, seed, net, pv, uv)
            if rootv[0] != "ok":
                ctx.violation("slip132:from_seed-raises", "from_seed with version bytes %s/%s: %s" % (pv.hex(), uv.hex(), rootv), {"kind": "slip132"})
                continue
            i1, i2 = rng.choice([0, 1, 2 ** 31 - 1]), rng.randrange(2 ** 31)
            for label, nd in [("root", rootv[1]), ("child", outcome(rootv[1].child, i1)), ("path", outcome(rootv[1].traverse, "m/84'/%d/%d" % (i1, i2))),
                              ("pubchild", outcome(lambda: rootv[1].pub.child(i1)))]:
                if label != "root":
                    if nd[0] != "ok":
                        ctx.violation("slip132:derivation-raises", "%s: %s" % (label, nd), {"kind": "slip132"})
                        continue
                    nd = nd[1]
                for private in ([True, False] if label != "pubchild" else [False]):
                    vb = pv if private else uv
                    text = outcome(nd.xprv) if private else outcome(nd.xpub)          # no explicit version argument: the key's own version bytes
                    back = outcome((hd.HDPrivateKey if private else hd.HDPublicKey).parse, text[1]) if text[0] == "ok" else ("raise", None)
                    bt = outcome(back[1].xprv if private else back[1].xpub) if back[0] == "ok" else ("raise", "")
                    pt = nd.private_key.point if label != "pubchild" else nd.point
                    raw = vb + bytes([nd.depth]) + nd.parent_fingerprint + nd.child_number.to_bytes(4, "big") + nd.chain_code + \
                        (b"\x00" + nd.private_key.secret.to_bytes(32, "big") if private else pt.sec())
                    cases.append({"id": "sl%d.%d.%s.%s" % (si, vi, label, "prv" if private else "pub"), "kind": "xkey", "version": B(vb), "depth": nd.depth, "fp": B(nd.parent_fingerprint),
                                  "number4": B(nd.child_number.to_bytes(4, "big")), "chain": B(nd.chain_code), "private": private,
                                  "k": le(nd.private_key.secret) if label != "pubchild" else [], "sec": B(pt.sec()), "text": T(text[1]) if text[0] == "ok" else [0],
                                  "hr": [h256row(raw)], "back_ok": back[0] == "ok", "back_text": T(bt[1]) if bt[0] == "ok" else [], "mainnet": fam == "main",
                                  "back_mainnet": (back[1].network == "mainnet") if back[0] == "ok" else (fam != "main")})
                    ctx.nontriv(("slip132", vi, label, private))
        # path traversal: notations / case / depth up to 8, private and public side, against stepwise derivation
        for pi in range(4 if si < 3 else 1):
            depth = rng.choice([0, 1, 2, 3, 5, 8])
            comps = []
            for _ in range(depth):
                v = rng.choice([0, 1, 44, 2 ** 31 - 1, rng.randrange(2 ** 31)])
                comps.append((v, rng.random() < 0.5))
            mark = rng.choice(["'", "h", "H"])
            m0 = rng.choice(["m", "M"])
            path = m0 + "".join("/%d%s" % (v, mark if h else "") for v, h in comps)
            if pi == 3:
                path = rng.choice(["m/", "x/0", "m/1x", "m/-1", "m/2147483648", "m/0//1", "", "m/0'h", "m/ 1"])
            tr = outcome(root.traverse, path)
            step = root
            ok = True
            nodes = [root]
            for v, h in comps:
                st = outcome(step.child, v + (2 ** 31 if h else 0))
                if st[0] != "ok":
                    ok = False
                    break
                step = st[1]
                nodes.append(step)
            cases.append({"id": "p%d.%d" % (si, pi), "kind": "path", "path": T(path), "res": tr[0], "text": T(tr[1].xprv()) if tr[0] == "ok" else [],
                          "stepwise_text": T(step.xprv()) if ok and pi != 3 else [], "indexes": [B((v + (2 ** 31 if h else 0)).to_bytes(4, "big")) for v, h in comps] if pi != 3 else []})
            ctx.nontriv(("path", depth, mark, m0))
            # the same walk started from a key that is itself derived (depth, parent fingerprint and child number of the result
            # are those of the whole path from the root), private and public side, for every split of the path
            if ok and pi != 3 and depth >= 2:
                for j in range(1, depth):
                    rest = m0 + "".join("/%d%s" % (v, mark if h else "") for v, h in comps[j:])
                    t2 = outcome(nodes[j].traverse, rest)
                    cases.append({"id": "pm%d.%d.%d" % (si, pi, j), "kind": "eq", "a": T(t2[1].xprv()) if t2[0] == "ok" else [0], "b": T(step.xprv()),
                                  "what": "traverse-from-a-derived-key-differs-from-stepwise-derivation"})
                    if not any(h for _, h in comps[j:]):
                        t3 = outcome(nodes[j].pub.traverse, rest)
                        cases.append({"id": "pmp%d.%d.%d" % (si, pi, j), "kind": "eq", "a": T(t3[1].xpub()) if t3[0] == "ok" else [0], "b": T(step.xpub()),
                                      "what": "public-traverse-from-a-derived-key-differs-from-stepwise-derivation"})
                    ctx.nontriv(("path-from-derived", j, depth - j))
            # public side: same verdict as private for non-hardened paths, refusal for hardened ones
            if pi != 3:
                ptr = outcome(root.pub.traverse, path)
                anyhard = any(h for _, h in comps)
                if anyhard:
                    cases.append({"id": "pp%d.%d" % (si, pi), "kind": "eq", "a": [ptr[0] == "ok"], "b": [False], "what": "public-traverse-accepts-hardened-path"})
                else:
                    cases.append({"id": "pp%d.%d" % (si, pi), "kind": "eq", "a": T(ptr[1].xpub()) if ptr[0] == "ok" else [0], "b": T(step.xpub()) if ok else [1],
                                  "what": "public-traverse-differs-from-private:%s" % m0})
        # a hardened index reaches the public side as a plain number: still a hardened derivation, still refused
        for hj, hp in enumerate(["m/2147483648", "m/0/4294967295", "M/7/%d/1" % (2 ** 31 + 44), "m/%d" % rng.randrange(2 ** 31, 2 ** 32)]):
            got = outcome(root.pub.traverse, hp)
            cases.append({"id": "ph%d.%d" % (si, hj), "kind": "eq", "a": [got[0] == "ok"], "b": [False], "what": "public-traverse-accepts-hardened-index-written-as-a-number"})
        got = outcome(root.pub.child, 2 ** 31)
        cases.append({"id": "phc%d" % si, "kind": "eq", "a": [got[0] == "ok"], "b": [False], "what": "public-child-accepts-hardened-index"})
        # blinding: the blinded child xpub is the key at the combined path from the root
        sp = "m/" + "/".join(str(rng.choice([0, 1, 2 ** 31 - 1, rng.randrange(2 ** 31)])) for _ in range(rng.choice([1, 2, 4])))
        start_path = rng.choice(["m/48h/0h/0h/2h", "m/45'/0", "m"])
        start = outcome(root.traverse, start_path)
        if start[0] == "ok":
            bl = outcome(blind_xpub, start[1].xpub(), start_path, sp)
            if bl[0] == "ok":
                full = outcome(root.traverse, bl[1]["blinded_full_path"])
                cases.append({"id": "bl%d" % si, "kind": "eq", "a": T(bl[1]["blinded_child_xpub"]), "b": T(full[1].xpub()) if full[0] == "ok" else [0], "what": "blinded-xpub-is-not-key-at-combined-path"})
            else:
                cases.append({"id": "bl%d" % si, "kind": "eq", "a": [0], "b": [1], "what": "blind_xpub-raises"})
            ctx.nontriv(("blind", start_path))
            # a starting path whose depth is not the depth the xpub itself states (too deep / too shallow): refusing is fine; whatever is
            # returned must still be the key at the returned full path.  (A wrong path of the right depth cannot be told from the
            # xpub and is outside the property: the starting path is the caller's statement of where the xpub sits.)
            for wj, wrong in enumerate(["m/48h/0h/0h/2h/0", "m/45'", "m", "m/44h/0h/0h/7h", "m/45'/1"]):
                if wrong.count("/") == start_path.count("/"):
                    continue
                blw = outcome(blind_xpub, start[1].xpub(), wrong, sp)
                if blw[0] != "ok":
                    continue
                fullw = outcome(root.traverse, blw[1]["blinded_full_path"])
                cases.append({"id": "blw%d.%d" % (si, wj), "kind": "eq", "a": T(blw[1]["blinded_child_xpub"]), "b": T(fullw[1].xpub()) if fullw[0] == "ok" else [0],
                              "what": "blinded-xpub-is-not-key-at-combined-path:inconsistent-starting-path"})
                ctx.nontriv(("blind-wrong-start", wrong))
    return cases


def run(ctx):
    rng = random.Random(ctx.seed)
    q = ctx.quick
    ctx.rule = ("cases = rows of the toy CKD tables replayed through HDPrivateKey/HDPublicKey on the toy group, plus recorded secp256k1 master/child/"
                "serialise/parse/traverse/blind calls decided by TLC; distinct = (index class, hardened), version prefix, (path depth, notation, case)")
    ctx.assumptions = ["child public points come from the library's scalar multiplication (C03); HMAC-SHA512 / hash160 / hash256 rows certified with hmac/hashlib",
                       "I_L >= n or a zero child key (probability 2^-127) cannot be exhibited on secp256k1; on toy groups the library's modular formula is the specification"]
    if ctx.want("real"):
        cases = real_cases(ctx, rng, 6 if q else 60)
        for c in cases:
            c.setdefault("hr", [])
        byid = {c["id"]: c for c in cases}
        ctx.sample({k: v for k, v in cases[1].items() if k in ("id", "kind", "idx4", "depth", "res")})
        bad = ctx.validate("bip32/BIP32Cases.tla", cases, "BIP32Cases.cfg", timeout=7200, per_shard_min=10)
        for cid, why in bad.items():
            c = byid[cid]
            ctx.violation("%s:%s" % (c["kind"], why), "%s case %s: %s" % (c["kind"], cid, why), {"kind": "case", "case": {k: v for k, v in c.items() if k != "hr"}})
    def _toy_part():
        for curve in (TOY[:1] if q else TOY):
            n, g = curve_params(*curve)
            cfg = "%s/b32_%d.cfg" % (ctx.tmp, curve[0])
            with open(cfg, "w") as f:
                f.write("SPECIFICATION Spec\nCONSTANTS\n  PP = %d\n  AA = %d\n  BB = %d\n  NN = %d\n  GX = %d\n  GY = %d\nINVARIANT PubPrivConsistent\nINVARIANT DepthIsPathLength\n" % (curve + (n, g[0], g[1])))
            tab = ctx.table("bip32/BIP32Toy.tla", cfg, env={"MAXDEPTH": 3 if q or n > 20 else 4, "EXPORT": 1}, workers=8, timeout=7200)
            if tab:
                replay_toy(ctx, curve, tab)
        ctx.exhaustive.append("BIP32Toy: every root key x 2 chain codes x every path of <= 3 steps over 6 boundary indexes: public chain = neutered private chain; complete CKD tables replayed")
    if ctx.want("toy"):
        toy_guard(ctx, _toy_part)
