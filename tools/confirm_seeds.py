#!/usr/bin/env python3
"""Confirm seeded changes independently: for each patch, in a scratch worktree of /repo (outside /repo and /verif):
the patch applies, the demonstration fails with it and passes without it, and the repository's pinned suite still passes.
Writes /tmp/seedconfirm/<name>.json.  usage: confirm_seeds.py name:patch:demo ..."""
import json, os, subprocess, sys, time
from concurrent.futures import ThreadPoolExecutor
OUT = "/tmp/seedconfirm"
os.makedirs(OUT, exist_ok=True)

def sh(cmd, cwd=None, env=None, timeout=3000):
    p = subprocess.run(cmd, cwd=cwd, env=env, stdout=subprocess.PIPE, stderr=subprocess.STDOUT, text=True, timeout=timeout, shell=isinstance(cmd, str))
    return p.returncode, p.stdout

def one(spec):
    name, patch, demo = spec.split(":")
    res = {"name": name, "patch": patch, "demo": demo}
    wt = "/tmp/wtc_" + name
    sh(["git", "-C", "/repo", "worktree", "remove", "--force", wt])
    rc, out = sh(["git", "-C", "/repo", "worktree", "add", "--detach", wt, "HEAD"])
    try:
        rc, out = sh(["git", "apply", "--3way", patch], cwd=wt)
        if rc != 0:
            rc, out = sh(["git", "apply", patch], cwd=wt)
        res["applies"] = rc == 0
        res["apply_out"] = out[-500:]
        if rc == 0:
            env = dict(os.environ); env["PYTHONPATH"] = wt; env.pop("BUIDL_VERIF_TRACE", None)
            rc1, o1 = sh(["/venv/bin/python", demo], cwd=wt, env=env, timeout=1800)
            env2 = dict(env); env2["PYTHONPATH"] = "/repo"
            rc0, o0 = sh(["/venv/bin/python", demo], cwd="/repo", env=env2, timeout=1800)
            res["demo_with_change"] = {"rc": rc1, "tail": o1[-400:]}
            res["demo_clean"] = {"rc": rc0, "tail": o0[-400:]}
            rct, ot = sh(["python3", "/verif/tools/repo_tests.py", wt, "3"], timeout=5000)
            res["tests"] = {"rc": rct, "tail": ot[-800:]}
    finally:
        sh(["git", "-C", "/repo", "worktree", "remove", "--force", wt])
    json.dump(res, open(os.path.join(OUT, name + ".json"), "w"), indent=1)
    return name

with ThreadPoolExecutor(max_workers=4) as ex:
    for n in ex.map(one, sys.argv[1:]):
        print("done", n, flush=True)
