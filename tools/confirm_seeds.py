#!/usr/bin/env python3
"""Confirm seeded changes independently: for each patch, in a scratch worktree of /repo (outside /repo and /verif):
the patch applies, the demonstration fails with it and passes without it, and the repository's pinned suite still passes.
Writes /tmp/seedconfirm/<name>.json.  usage: confirm_seeds.py name:patch:demo ..."""
import json, os, subprocess, sys, time
from concurrent.futures import ThreadPoolExecutor
OUT = "/tmp/seedconfirm"
os.makedirs(OUT, exist_ok=True)

def sh(cmd, cwd=None, env=None, timeout=3000):
    p = subprocess.run(cmd, cwd=cwd, env=env, stdout=subprocess.PIPE, stderr=subprocess.STDOUT, text=True, timeout=timeout, shell=isinstance(cmd, str))
    return p.returncode, p.stdout

def one(spec):
    name, patch, demo = spec.split(":")
    res = {"name": name, "patch": patch, "demo": demo}
    wt = "/tmp/wtc_" + name
    sh(["git", "-C", "/repo", "worktree", "remove", "--force", wt])
    rc, out = sh(["git", "-C", "/repo", "worktree", "add", "--detach", wt, "HEAD"])
    try:
        rc, out = sh(["git", "apply", "--3way", patch], cwd=wt)
        if rc != 0:
            rc, out = sh(["git", "apply", patch], cwd=wt)
        res["applies"] = rc == 0
        res["apply_out"] = out[-500:]
        if rc == 0:
            env = dict(os.environ); env["PYTHONPATH"] = wt; env.pop("BUIDL_VERIF_TRACE", None)
            rc1, o1 = sh(["/venv/bin/python", demo], cwd=wt, env=env, timeout=1800)
            # the clean run uses a second scratch worktree at the same commit (never /repo: other tools may be applying patches there)
            clean = "/tmp/wtc_clean_" + name
            sh(["git", "-C", "/repo", "worktree", "remove", "--force", clean])
            sh(["git", "-C", "/repo", "worktree", "add", "--detach", clean, "HEAD"])
            env2 = dict(env); env2["PYTHONPATH"] = clean
            rc0, o0 = sh(["/venv/bin/python", demo], cwd=clean, env=env2, timeout=1800)
            sh(["git", "-C", "/repo", "worktree", "remove", "--force", clean])
            res["demo_with_change"] = {"rc": rc1, "tail": o1[-400:]}
            res["demo_clean"] = {"rc": rc0, "tail": o0[-400:]}
            rct, ot = sh(["python3", "/verif/tools/repo_tests.py", wt, "3"], timeout=9000)
            res["tests"] = {"rc": rct, "tail": ot[-800:]}
            missing = [l.split()[-1] for l in ot.splitlines() if l.strip().startswith("MISSING")]
            cli = [m for m in missing if m.startswith("test_multiwallet.") or m.startswith("test_singlesweep.")]
            if missing and len(cli) == len(missing):
                # pexpect CLI tests have 2-second start-up timeouts and fail on a loaded machine: re-run them serially
                import xml.etree.ElementTree as ET
                want, passed, tries = set(cli), set(), 0
                while tries < 6 and not want <= passed:
                    tries += 1
                    x = "/tmp/wtc_cli_%s.xml" % name
                    sh(["/venv/bin/python", "-m", "pytest", "-q", "-p", "no:cacheprovider", "-p", "no:rerunfailures", "--timeout=900", "--junitxml=" + x,
                        "test_multiwallet.py", "test_singlesweep.py"], cwd=wt, env=env, timeout=3000)
                    for tc in ET.parse(x).getroot().iter("testcase"):
                        if not any(ch.tag in ("failure", "error", "skipped") for ch in tc):
                            passed.add("%s::%s" % (tc.get("classname"), tc.get("name")))
                    os.unlink(x)
                res["cli_retry"] = {"tries": tries, "still_missing": sorted(want - passed)}
    finally:
        sh(["git", "-C", "/repo", "worktree", "remove", "--force", wt])
    json.dump(res, open(os.path.join(OUT, name + ".json"), "w"), indent=1)
    return name

with ThreadPoolExecutor(max_workers=4) as ex:
    for n in ex.map(one, sys.argv[1:]):
        print("done", n, flush=True)
