#!/usr/bin/env python3
"""Run the repository's pinned suite (guard off) in a tree and compare with BASELINE.json stable_pass.
usage: repo_tests.py [tree=/repo] [-n workers]"""
import json, os, subprocess, sys, tempfile, xml.etree.ElementTree as ET
tree = sys.argv[1] if len(sys.argv) > 1 else "/repo"
n = sys.argv[2] if len(sys.argv) > 2 else "10"
base = json.load(open("/root/.vp/BASELINE.json"))
want = set(base["stable_pass"])
xmlf = tempfile.mktemp(suffix=".xml")
env = dict(os.environ); env.pop("BUIDL_VERIF_TRACE", None)
env["PYTHONPATH"] = tree
cmd = ["/venv/bin/python", "-m", "pytest", "-q", "-p", "no:cacheprovider", "-p", "no:rerunfailures", "-n", n, "--timeout=900",
       "--continue-on-collection-errors", "--junitxml=" + xmlf]
p = subprocess.run(cmd, cwd=tree, env=env, stdout=subprocess.PIPE, stderr=subprocess.STDOUT, text=True)
passed = set()
for tc in ET.parse(xmlf).getroot().iter("testcase"):
    if not any(ch.tag in ("failure", "error", "skipped") for ch in tc):
        passed.add("%s::%s" % (tc.get("classname"), tc.get("name")))
os.unlink(xmlf)
missing = sorted(want - passed)
print(p.stdout.strip().splitlines()[-1])
print("baseline stable_pass: %d, passed now: %d, missing: %d" % (len(want), len(want & passed), len(missing)))
for m in missing[:40]:
    print("  MISSING", m)
sys.exit(1 if missing else 0)
