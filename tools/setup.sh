#!/bin/sh
# Offline setup: syntax-check every specification with SANY and byte-compile the harness.
cd "$(dirname "$0")/.." || exit 2
rc=0
for f in specs/*/*.tla; do
  d=$(dirname "$f"); b=$(basename "$f")
  case "$d" in specs/lib) continue;; esac
  out=$(cd "$d" && java -DTLA-Library=$(ls -d /verif/specs/*/ | tr "\n" ":") -cp /opt/veriftools/tla/tla2tools.jar:/opt/veriftools/tla/CommunityModules-deps.jar tla2sany.SANY "$b" 2>&1)
  if echo "$out" | grep -q -e "Errors:" -e "Fatal error" -e "Could not"; then echo "SANY FAILED: $f"; echo "$out" | tail -15; rc=1; fi
done
PYTHONDONTWRITEBYTECODE=1 /venv/bin/python -m compileall -q harness >/dev/null || rc=1
mkdir -p evidence
[ $rc = 0 ] && echo "setup ok"
exit $rc
