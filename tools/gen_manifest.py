#!/usr/bin/env python3
"""Regenerate MANIFEST.json from the table below (run after adding a property check)."""
import json, os
ROOT = os.path.dirname(os.path.dirname(os.path.abspath(__file__)))
BASE_OFF = "cd /repo && env -u BUIDL_VERIF_TRACE /venv/bin/python -m pytest -ra -q -p no:cacheprovider --timeout=900 --continue-on-collection-errors"

CLAIMED = {
 "C11": dict(
   text="TLC explores every PSBT an adversary obtains by applying up to two tamperings of a twelve-entry catalogue (swapped scriptPubKey keeping metadata, foreign script, a committed script that only begins and ends like the multisig template (backdoor in the middle, another number in the OP_n position), foreign key with forged derivation, all change keys from one cosigner, wrong path, foreign fingerprint, changed quorum, second change output, spend dressed as change, inconsistent input) to an honest m-of-n PSBT, against the change-detection procedure written check by check like PSBTOut.validate and _describe_basic_multisig_outputs: the policies of the unrepaired library are refuted (fake change; get_quorum reading m and n off the ends of any script), the repaired policy labels change only what the reference predicate RealChange allows and rejects inconsistent inputs. Every tampering is applied to real P2SH and P2WSH PSBTs (HD keys, global xpubs, as object and re-parsed from bytes) and run through describe_basic_multisig; TLC evaluates RealChange on the abstract counterpart and the fee / conservation identities with big-number sums.",
   design="3/C11",
   note="Trusted: TLC, Review.tla / C11Cases.tla; which key sits where in a tampered PSBT is known to the harness by construction. Witness-UTXO amounts cannot contradict anything inside an unsigned PSBT: amount tampering is applied to non-witness UTXOs.",
   technique="TLA+ adversary model of the review procedure model-checked by TLC + scenario replay on real PSBTs decided by TLC with the reference predicate"),
 "C10": dict(
   text="TLC explores the signing workflow with several PSBT copies in flight (every interleaving of Sign / Combine / Finalize for m-of-n): what a copy holds and what it finalises to is a function of the set of contributing signers, and a copy is finalisable iff at least m contributed. The model's behaviours are replayed on real wallets (P2PKH, P2WPKH, P2SH-P2WPKH, P2SH / P2WSH / P2SH-P2WSH m-of-n, 1..2 inputs, HD keys, unknown key-values): every signer subset, sequential signing in every order and parallel signing with left and right folds of combine; PSBTs reached for the same signer set must be byte-identical and finalise/extract verifies iff at least m signed. Every PSBT reached is parsed by TLC with the BIP174 container specification (unique keys, map counts, unsigned transaction in non-witness format with empty scriptSigs, partial-signature counts, parse/serialise identity, still loadable after extraction); PSBTs carrying invalid partial signatures, alone or next to valid ones, must fail to load.",
   design="3/C10",
   note="Trusted: TLC, Workflow.tla / PSBTWire.tla; validity of extracted transactions is observed through Tx.verify_input (C06). Keys random, amounts fixed; n = 4 and 3 inputs only in the thorough tier.",
   technique="TLA+ workflow state machine model-checked by TLC, behaviours replayed on real wallets, TLC validation of every recorded PSBT against the container specification"),
 "C16": dict(
   text="TLC proves by linearity of Core's descriptor checksum that every single-symbol error and every pair of symbol errors at most three positions apart -- all a one-character substitution can cause (its 5-bit symbol and its class-group symbol) -- is detected, for all value differences up to a maximal stream length. For random wallets with 1 <= m <= n <= 6 (SLIP-132 prefixes, account indexes to 2^31-2, both path notations) TLC rebuilds the descriptor text and checksum from the key records (Base58Check of the normalised xpub, sorting, layout, 40-bit polymod), checks the parse round trip, the address at (branch, offset) as P2WSH of the m-of-n script over the lexicographically sorted child keys (certified sha256, bech32), every permutation of supply order, receive/change disjointness, and decides single-character substitutions over the charset at every position of sampled descriptors.",
   design="3/C16",
   note="Trusted: TLC, Desc.tla (Core's descriptor checksum, BIP67-style sorting, BIP173), hashlib; child public keys come from HDPublicKey.child (C08). The '#' separator itself is outside 'body or checksum'. Wallets and substitution characters are sampled in the quick tier.",
   technique="TLA+ descriptor specification: TLC model checking of checksum error detection + TLC re-derivation of recorded descriptor/address calls"),
 "C15": dict(
   text="TLC model-checks the threshold scheme over GF(256) (field arithmetic by definition) with one-byte secrets for every (k, n) up to a bound, dealt exactly as split_secret deals it: every set of at least k shares recovers the secret and the digest share, fewer refuse, the result does not depend on the subset; GF(256) axioms and the generator table. With randbits rebound to a recorded stream TLC re-derives every share mnemonic of generate_shares byte for byte (4-round Feistel from certified PBKDF2-HMAC-SHA256 rows, digest share from a certified HMAC row, Lagrange interpolation, header bit packing, RS1024 checksum); subsets (>= k, < k, mixed splits, wrong passphrase then right) are run through recover_mnemonic and decided; 1..3-word corruptions must be rejected; tables, interpolation, share codec and encryption are decided on random inputs.",
   design="3/C15",
   note="Trusted: TLC, Slip39.tla, hashlib (PBKDF2-HMAC-SHA256, HMAC-SHA256), the SLIP39 word list file. RS1024 distance for 2-3 word errors is sampled; (k, n) pairs beyond the quick list only in the thorough tier.",
   technique="TLA+ GF(256)/Shamir specification: TLC model checking of the threshold machine + TLC byte-exact re-derivation of recorded share generation"),
 "C14": dict(
   text="TLC model-checks the vendored PBKDF2 object's read() as a stream state machine (any sequence of read sizes yields a prefix of T_1||T_2||...), and decides recorded calls: bytes_to_mnemonic / mnemonic_to_bytes for all five entropy sizes against the bit-level BIP39 specification with certified sha256 rows, acceptance of word sequences of every length 11..25 (valid, bad checksum, swapped, unknown word, full words vs unique four-letter prefixes), seeds and master keys for passphrases incl. empty and non-ASCII bytes and for mnemonic sentences of exactly / around the 128-byte HMAC block size, and the RFC 8018 structure of PBKDF2 at small round counts from the HMAC-SHA512 rows the object really computed; model read sequences are replayed on the real object.",
   design="3/C14",
   note="Trusted: TLC, BIP39.tla, hashlib (sha256, HMAC-SHA512, pbkdf2_hmac for the 2048-round value), the word list file. Entropy, word sequences and passphrases sampled.",
   technique="TLA+ bit-level mnemonic spec and PBKDF2 stream machine: TLC model checking + TLC evaluation of recorded calls with certified hash rows"),
 "C13": dict(
   text="TLC evaluates the MuSig aggregation algebra exactly as MuSigTapScript implements it (key coefficients, two-nonce binding factor, parity-dependent negation of nonce and secret, taproot tweak with its parity branch) over a toy curve for all secrets and for coefficient / nonce / binding / challenge / tweak values from small sets: the summed partial signatures always form a valid BIP340 signature and all eight parity branches are exercised. On secp256k1, sessions with 2..5 keys of mixed parities, with and without merkle root (incl. several roots on one object), are decided in the discrete-log representation from certified tagged-hash rows whose inputs TLC builds itself; sessions with a dropped, altered or duplicated partial must raise; aggregate keys are order independent; k-of-n trees own exactly the k-subsets (TLC set computation) and sampled leaf spends verify through Tx.verify_input.",
   design="3/C13",
   note="Trusted: TLC, MuSigToy.tla / C13Cases.tla, hashlib tagged hashes, library point arithmetic and parities (C03). Key sets, nonces and messages sampled; n = 1 is outside TapRootMultiSig's domain (MuSig of one key is undefined).",
   technique="TLA+ MuSig algebra checked by TLC on a toy group + TLC scalar-model validation of recorded secp256k1 sessions and k-of-n trees"),
 "C12": dict(
   text="TLC grows every labelled binary tree shape up to a bound (Split action) with free-constructor hashes and checks for every leaf that the merkle path recomputes the tree hash, control blocks round-trip, mirroring subtrees keeps the root and any alteration of leaf script, leaf version, a path hash or the path length changes it. For real trees of 1..8 leaves (mixed leaf versions, duplicate scripts, internal keys of both parities) TLC recomputes the tree hash and every leaf's control block from the certified tagged-hash rows the library actually computed, checks the tweak algebra in the discrete-log representation (tweaked private key = dlog of the output key, parity) with certificates, and decides single-byte alterations of control blocks and leaf scripts.",
   design="3/C12",
   note="Trusted: TLC, TapTree.tla (BIP341), hashlib tagged hashes, the library's scalar multiplication for q*G (C03). Shapes above the exhaustive bound, keys and scripts are sampled.",
   technique="TLA+ tree/commitment specification: TLC model checking over all shapes + TLC validation of recorded real trees from certified hash rows"),
 "C08": dict(
   text="On a toy prime-order group with a toy HMAC defined in the specification, TLC explores the BIP32 wallet tree as a state machine deriving the private and the public chain in lockstep (public/private consistency in every state, paths to depth 3 over the boundary indexes 0, 1, 2^31-1 and their hardened versions) and exports the complete CKDpriv/CKDpub tables, replayed through HDPrivateKey.child / HDPublicKey.child running on the toy group. On secp256k1 master keys, child steps (HMAC input layout via certified rows, k' = I_L + k mod n with certificates, chain code, fingerprint, depth, child number), all 20 version prefixes through serialise/parse (78-byte layout + Base58Check), path traversals in both notations and cases against step-by-step derivation and the reference path grammar, refusal of hardened public derivation, and xpub blinding are decided by TLC.",
   design="3/C08",
   note="Trusted: TLC, BIP32Toy.tla/BIP32Cases.tla (the independent BIP32 implementation is the specification evaluated by TLC), hmac/hashlib rows, the library's scalar multiplication for child public points (C03). Seeds, indexes and paths sampled with the quantifier's boundaries.",
   technique="TLA+ BIP32 state machine model-checked on a toy group and replayed into rebound code + TLC validation of recorded secp256k1 derivations"),
 "C18": dict(
   text="TLC model-checks the compact-filter object (build, serialise, parse, query) over a toy universe whose hash has collisions: deriving F from the number of distinct hash values is refuted, deriving it from the element count satisfies NoFalseNegative; Golomb-Rice and bit-packing laws are checked over ranges. SipHash-2-4 and MurmurHash3 are transcribed into TLA+ and TLC evaluates them on every message length 0..70 and long elements with random keys / boundary seeds against the library; TLC rebuilds GCS encodings (range mapping, sort, deltas, Golomb-Rice P=19, packing) from the validated hashes, and decides membership (incl. sets constructed to contain a range collision), bloom bit positions, bit field bytes and the filterload payload.",
   design="3/C18",
   note="Trusted: TLC, Filters.tla (transcriptions of SipHash-2-4, MurmurHash3, BIP158 GCS, BIP37). Element sets, keys and seeds are sampled; filter header chaining is decided in C19's cfheaders cases.",
   technique="TLA+ transcription of the hash/encoding algorithms evaluated by TLC on recorded calls + TLC model checking of the filter object"),
 "C17": dict(
   text="With free-constructor hashes TLC checks, for every block size up to a bound and every subset of matched transactions, that the BIP37 proof built by the specification's prover validates in the verifier walk (written like MerkleTree.populate_tree) and yields exactly the matched ids in order, and explores an adversary submitting arbitrary flags/hashes from the tree's node hashes plus a foreign value: whenever the proof validates against the true root only leaves are proved. Every exported proof is concretised with hashlib and replayed through MerkleBlock.parse/is_valid/proved_txs; merkle roots, every single-bit alteration of hashes/flags/count/root and dropped/extra hashes of sampled proofs (trees up to 5000 leaves), compact bits <-> target, proof-of-work, retargeting across the clamps and header chains are decided by TLC.",
   design="3/C17",
   note="Trusted: TLC, Merkle.tla (BIP37 prover/verifier, consensus PoW arithmetic), hashlib for hash256; the harness prover used for trees above the exhaustive bound is checked against every TLC-exported proof. Lying about the transaction count (inherent BIP37 weakness) is only examined for single-bit alterations.",
   technique="TLA+ prover/verifier specification: TLC exhaustive proofs + adversary model checking, exported proofs replayed into code, TLC validation of recorded calls"),
 "C09": dict(
   text="TLC proves by linearity of the BCH checksum that every one- and two-character substitution within 90 symbols is detected under both the Bech32 and Bech32m constants (including corruptions that flip the witness version between 0 and non-zero); recorded Base58/Base58Check calls (payloads 0..82 bytes with leading-zero runs, altered candidate strings), segwit address encode/decode for every witness version x program length x network, every single and sampled double substitution of sampled addresses, the five scriptPubKey templates x four networks through address()/address_to_script_pubkey/TxOut.to_address, and WIF are decided by TLC evaluating Addr.tla.",
   design="3/C09",
   note="Trusted: TLC, Addr.tla/Bech32.tla as transcription of Base58Check, BIP173/BIP350; hashlib for hash256 rows. Payload bytes sampled; code-distance claim exhaustive for weight <= 2.",
   technique="TLA+ codec specification: TLC model checking of the checksum's error detection + TLC evaluation of recorded encode/decode calls"),
 "C20": dict(
   text="TLC explores BCURMulti.parse as the code's loop against an adversary that feeds parts of two payloads, corrupted fragments and lying part counts in any order and multiplicity (accepted => exactly the honest in-order part list of the returned payload) and checks the chunking law for all lengths/chunk sizes in a range; recorded bc32, CBOR and BCUR calls (every CBOR length-prefix boundary, many payload-length x chunk-size pairs, all permutations/omissions for small part counts, foreign parts, single-character corruptions of parts and digests) are decided by TLC evaluating the bc32 polymod, bit regrouping, CBOR and chunk slicing.",
   design="3/C20",
   note="Trusted: TLC, BCUR.tla / Bech32.tla, hashlib for sha256 rows; payload contents sampled, 70000-byte payloads in the thorough tier only.",
   technique="TLA+ reassembly state machine model-checked by TLC + TLC evaluation of recorded codec/chunking calls"),
 "C19": dict(
   text="TLC explores the envelope parser as a state machine over every stream an adversary derives from honest envelopes of a small universe (each truncation, each single-byte corruption, trailing bytes, inflated length) and checks round trip and rejection; recorded serialize/parse calls of envelopes (all networks, commands of 0..12 bytes, every truncation point and single-byte corruption of sampled envelopes), compact-size and fixed-width integers across every width boundary, block headers and each fixed-layout message are decided by TLC evaluating the protocol layouts in P2P.tla.",
   design="3/C19",
   note="Trusted: TLC, P2P.tla as transcription of the protocol layouts, hashlib for hash256 rows. Payload contents and field values are sampled at the quantifier's boundaries.",
   technique="TLA+ parser state machine model-checked by TLC + TLC evaluation of recorded codec calls"),
 "C01": dict(
   text="On toy prime-order curves TLC enumerates every secret, nonce, digest and (r, s) pair, checks completeness, low-S and exact soundness (curve arithmetic = discrete-log formulation) and exports the complete sign/verify tables, which are replayed through the unmodified PrivateKey.sign / S256Point.verify running on the same toy group (module constants rebound). On secp256k1 recorded sign calls (boundary and random secrets/digests) are decided by TLC in the scalar model with big-number certificates, RFC 6979 is re-derived by TLC from certified HMAC rows, DER is checked at byte level, and every tuple of the mutation catalogue gets the verdict the equation and range rule define.",
   design="3/C01",
   note="Trusted: TLC, Sigs.tla/SigCases.tla, hmac/hashlib for HMAC-SHA256 rows, the library's scalar multiplication for kG/dG on the real curve (validated by C03), discrete-log assumption for tuples with unknown nonce. 2^256 keys/digests are sampled with the quantifier's boundary values; toy groups are exhaustive.",
   technique="TLA+ ECDSA spec: TLC-exhaustive toy-group tables replayed into rebound code + TLC scalar-model validation of recorded secp256k1 calls"),
 "C02": dict(
   text="On toy curves with the tagged hashes rebound to a toy hash family defined in the specification, TLC derives the BIP340 signature for every secret of both parities, message and aux value, checks that it verifies, and evaluates verification for every x-only key candidate, R and s including non-points, R >= p and s >= n; both tables are replayed through the unmodified sign_schnorr / verify_schnorr / parse code. On secp256k1 recorded signatures are re-derived by TLC (xor, tagged-hash rows, nonce and challenge reductions, s = k + e d) with big-number certificates and every single-bit flip and boundary mutation of sampled signatures is decided in the scalar model.",
   design="3/C02",
   note="Trusted: TLC, Sigs.tla/SigCases.tla, hashlib for tagged SHA256 rows, the library's scalar multiplication for points on the real curve (C03), discrete-log assumption for altered R / foreign keys. Keys, messages and aux are sampled on the real curve; toy groups are exhaustive.",
   technique="TLA+ BIP340 spec: TLC-exhaustive toy-group tables replayed into rebound code + TLC scalar-model validation of recorded secp256k1 calls"),
 "C03": dict(
   text="For a family of small curves TLC checks the field axioms, all group axioms (associativity over all triples) and the double-and-add loop as a state machine with its loop invariant, and exports the complete addition, scalar multiplication and lift tables, replayed through FieldElement / Point and through S256Point with toy parameters (incl. negative, zero and > n scalars, every compressed/uncompressed/x-only encoding and every non-point). On secp256k1 every Point.__add__ executed during sampled scalar multiplications is validated by TLC against the affine group-law relations with big-number certificates and the addition sequence against the double-and-add machine; identities and encodings/rejections are decided likewise.",
   design="3/C03",
   note="Trusted: TLC, Curve.tla, certificates are checked not trusted. Real-curve law is validated per executed addition for sampled scalars (boundary list + random), not for all pairs.",
   technique="TLA+ curve spec: TLC model checking + exhaustive small-curve tables replayed into code + TLC certificate validation of recorded secp256k1 additions"),
 "C06": dict(
   text="TLC explores a bounded adversary that assembles spends of every standard output kind item by item (all scriptSig/witness sequences up to a bound over valid, foreign and junk items) against the byte-level reference verifier SpendRef (P2SH/BIP141/BIP143/BIP341/BIP342 with ideal-signature oracles) and checks that only authorised spends are accepted and the honest spend is accepted; the whole explored universe is exported and replayed through Tx.verify_input with real keys, signatures and scripts. In addition every honest spend built with the library's signing helpers and every mutation of the property's catalogue is run through verify_input and decided by TLC (honest => accepted, accepted => authorised).",
   design="3/C06, Appendix A.3",
   note="Trusted: TLC, SpendRef.tla as transcription of the consensus spend rules, ideal signatures (forgery is C01/C02), by-construction oracles of the harness (who signed what, which control block commits to which key), hashlib for hash160/sha256 rows. Key material, amounts and m-of-n beyond the enumerated quorums are sampled.",
   technique="TLA+ reference spend verifier + TLC bounded-adversary model checking, exported universe replayed into verify_input, TLC validation of mutated real spends"),
 "C04": dict(
   text="TLC model-checks the wire-codec laws (round trip, witness stripping, txid independent of witness data / bound to every non-witness field) over every transaction reachable by a bounded number of API edits in a boundary-rich universe, and the fetcher/cache machine against every server answer; it then evaluates the TxWire specification on the logged fields and bytes of serialize/parse/id calls on random and boundary transactions (every push length, varint boundaries at 253/300 inputs and outputs, amounts to 2^64-1, large witness items) built through the real API; fetcher behaviours are replayed through TxFetcher.fetch with a stubbed server.",
   design="3/C04",
   note="Trusted: TLC, TxWire.tla as transcription of the Bitcoin wire format/BIP144, hashlib for hash256 rows, int.to_bytes in the harness for fixed-width fields. Legacy serialisations with zero inputs (BIP144 marker ambiguity) are out of scope. Inputs beyond the exhaustive bounds are sampled.",
   technique="TLA+ wire-format specification: TLC model checking of codec laws + TLC evaluation of recorded serialize/parse/id calls + replay of fetcher model behaviours"),
 "C05": dict(
   text="TLC model-checks the Tx midstate memo as a state machine (all interleavings of edits and digest queries to depth 7: the never-invalidated policy is refuted, the repaired one satisfies freshness) and, for every digest query recorded inside random histories of queries and edits on real Tx objects (all standard input kinds, 7 hash types, key/script path, annex, out-of-range SINGLE), evaluates the Satoshi/BIP143/BIP341 preimage specification on the current snapshot as a hash term that the harness evaluates with hashlib and compares with the library's digest.",
   design="3/C05, Appendix A.2",
   note="Trusted: TLC, SigHash.tla as transcription of the three algorithms (Appendix A.2), hashlib (SHA-256, tagged hashes) for evaluating the exported terms. Standard script codes only (no OP_CODESEPARATOR). Histories and transactions are sampled beyond the model's bounds.",
   technique="TLA+ preimage specification evaluated by TLC per recorded query (hash terms) + TLC model checking of the memo state machine"),
 "C07": dict(
   text="TLC model-checks the consensus reference machine (specs/script/Consensus.tla) against an implementation-shaped evaluator for every program up to a bound, evaluates the reference over complete finite opcode x stack / timelock / number-codec domains whose rows are each replayed through buidl.op (one implementation test per specification transition), and decides every opcode event and program verdict recorded from Script.evaluate on random structured programs of up to 40 operations. Exhaustive inside the stated bounds, sampled beyond.",
   design="3/C07, Appendix A.1",
   note="Trusted: TLC, the transcription of Bitcoin Core's EvalScript semantics in Consensus.tla (Appendix A.1), hashlib for the five hash opcodes, the harness wrapper that records opcode calls. 40-operation programs are sampled.",
   technique="TLA+ reference interpreter + TLC exhaustive tables replayed into code + TLC validation of recorded opcode traces"),
}
PENDING_REASON = "not claimed"

def main():
    props = [json.loads(l) for l in open(os.path.join(ROOT, "properties.jsonl"))]
    checks, na = [], []
    for p in props:
        pid = p["id"]
        if pid in CLAIMED:
            c = CLAIMED[pid]
            checks.append({
              "property_id": pid,
              "quick_cmd": "./check %s --tier quick" % pid,
              "thorough_cmd": "./check %s --tier thorough" % pid,
              "evidence_file": "/verif/evidence/%s.json" % pid,
              "replay_cmd_template": "./check %s --replay {path}" % pid,
              "engine": "tlc",
              "level_claimed": {"category": "model_checking", "text": c["text"], "design_ref": c["design"]},
              "level_note": c["note"],
              "technique": c["technique"],
            })
        else:
            na.append({"property_id": pid, "reason": PENDING_REASON})
    m = {
      "version": 1,
      "setup_cmd": "cd /verif && ./tools/setup.sh",
      "hooks": {
        "guard": "BUIDL_VERIF_TRACE",
        "enable": "no source hooks are needed so far: the harness observes buidl from outside (wrapping module attributes inside the harness process only); the variable is exported by ./check and reserved for hooks",
        "baseline_off_cmd": BASE_OFF,
        "source_commits": [],
        "add_only": True
      },
      "engines": [{"name": "tlc", "path": "/opt/veriftools/tla/tla2tools.jar", "serves_properties": sorted(CLAIMED),
                   "kind_free_text": "TLC 1.8.0 explicit-state model checker / evaluator for the TLA+ specifications under /verif/specs; python harness under /verif/harness drives buidl and moves data"}],
      "checks": checks,
      "not_applicable": na,
      "notes": "Model-based verification with explicit TLA+ specifications (DESIGN.md). ./check <id> --tier quick|thorough; exit 0 = held on everything explored (KNOWN-FINDING lines for defects listed in known_findings.json), exit 1 + VIOLATION line otherwise, exit 2 = machinery failure."
    }
    json.dump(m, open(os.path.join(ROOT, "MANIFEST.json"), "w"), indent=1)
    print("claimed:", sorted(CLAIMED), "pending:", len(na))

if __name__ == "__main__":
    main()
