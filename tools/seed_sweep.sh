#!/bin/sh
# usage: seed_sweep.sh "<seeds>" [props...]   -- run the quick checks under several seeds; any non-PASS line is printed
# (the harness exports VERIF_SEED; a check that passes under one seed and alarms under another is a false alarm
#  or a real defect the default seed misses: either way it must be looked at before committing)
seeds=$1; shift
props=${*:-C01 C02 C03 C04 C05 C06 C07 C08 C09 C10 C11 C12 C13 C14 C15 C16 C17 C18 C19 C20}
cd "$(dirname "$0")/.." || exit 2
rc=0
for s in $seeds; do for p in $props; do
  out=$(./check $p --tier quick --seed $s 2>&1); r=$?
  echo "$out" | grep -e '^PASS' -e '^FAIL' -e '^MACH' -e '^VIOLATION' -e '^KNOWN' -e 'clause:' | sed "s/^/seed=$s /"
  [ $r = 0 ] || rc=1
done; done
exit $rc
