#!/usr/bin/env python3
"""Run the registered checks against every seeded change under /verif/seeded and record what caught it.

usage: seed_matrix.py [--tier quick] [--tree <scratch worktree of /repo>] [--missing] [names...]

For each /verif/seeded/<id>/: `git -C /repo apply patch.diff`, run ./check <property> --tier <tier>,
`git -C /repo reset --hard HEAD`.  Records exit code, the VIOLATION keys and wall time in
/verif/seeded/<id>/meta.json ("detected_by") and rewrites /verif/seeded/MATRIX.md.
/repo must be clean on entry and is clean on exit; nothing is ever committed there."""
import glob, json, os, re, subprocess, sys, time

V = "/verif"

def sh(*cmd, **kw):
    return subprocess.run(cmd, stdout=subprocess.PIPE, stderr=subprocess.STDOUT, text=True, **kw)

def main():
    args = sys.argv[1:]
    tier = "quick"
    if "--tier" in args:
        i = args.index("--tier"); tier = args[i + 1]; del args[i:i + 2]
    tree = "/repo"
    if "--tree" in args:
        i = args.index("--tree"); tree = args[i + 1]; del args[i:i + 2]
    only_missing = "--missing" in args
    if only_missing:
        args.remove("--missing")
    names = args or sorted(os.path.basename(os.path.dirname(p)) for p in glob.glob(V + "/seeded/*/meta.json"))
    if sh("git", "-C", tree, "status", "--porcelain", "--untracked-files=no").stdout.strip():
        print("tree dirty"); sys.exit(2)
    env = dict(os.environ, VERIF_REPO=tree)
    for n in names:
        d = os.path.join(V, "seeded", n)
        meta = json.load(open(d + "/meta.json"))
        prop = meta["property"]
        if only_missing and tier in meta.get("detected_by", {}):
            continue
        r = sh("git", "-C", tree, "apply", d + "/patch.diff")
        if r.returncode:
            print(n, "PATCH-DOES-NOT-APPLY", r.stdout); continue
        t0 = time.time()
        try:
            r = sh(V + "/check", prop, "--tier", tier, timeout=7200, env=env)
            out, rc = r.stdout, r.returncode
        except subprocess.TimeoutExpired as e:
            out, rc = (e.stdout or ""), 124
        finally:
            sh("git", "-C", tree, "reset", "-q", "--hard", "HEAD")
        keys = re.findall(r"^\s*clause: (\S+)", out, re.M)
        nviol = len(re.findall(r"^VIOLATION ", out, re.M))
        meta.setdefault("detected_by", {})[tier] = {
            "cmd": "./check %s --tier %s" % (prop, tier), "exit": rc, "violations": nviol,
            "clauses": sorted(set(keys))[:12], "wall_s": int(time.time() - t0)}
        json.dump(meta, open(d + "/meta.json", "w"), indent=1)
        print(n, "exit=%d" % rc, "violations=%d" % nviol, sorted(set(keys))[:3], flush=True)
    # the evidence files were rewritten by runs against a modified tree: the caller re-runs the
    # checks on the clean tree before committing evidence (see DESIGN.md)
    rows = []
    for p in sorted(glob.glob(V + "/seeded/*/meta.json")):
        m = json.load(open(p))
        det = m.get("detected_by", {})
        def cell(t):
            x = det.get(t)
            if not x: return "not run"
            return ("caught (%d violations, %ds)" % (x["violations"], x["wall_s"])) if x["exit"] == 1 else "MISSED (exit %d)" % x["exit"]
        cl = (det.get("quick") or det.get("thorough") or {}).get("clauses", [])
        rows.append("| %s | %s | %s | %s | %s |" % (m["id"], m["title"].split("—")[-1].split("--")[-1].strip()[:90], cell("quick"), cell("thorough"), ", ".join("`%s`" % c for c in cl[:3])))
    open(V + "/seeded/MATRIX.md", "w").write(
        "# Seeded changes vs checks\n\nEach row is a change written by a sub-agent that saw only the property text; it compiles, passes the repository's pinned suite, and breaks the property (see meta.json / notes.md / demo.py in each directory).  Regenerate with `tools/seed_matrix.py`.\n\n"
        "| seeded change | what it does | quick check | thorough check | first deciding clauses |\n|---|---|---|---|---|\n" + "\n".join(rows) + "\n")

main()
