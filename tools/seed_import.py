#!/usr/bin/env python3
"""Import a confirmed seeded change into /verif/seeded/<id>/.

usage: seed_import.py <name> <srcdir> [--patch ported.diff] [--confirm confirm.json] [--note text]

<srcdir> holds what the (property-text-only) sub-agent produced: patch.diff, demo.py, notes.md.
The confirmation record (written by tools/confirm_seeds.py from a scratch worktree) is folded into
meta.json.  Nothing here touches /repo."""
import json, os, re, shutil, sys

def section(notes, pat):
    m = re.search(r"^##[^\n]*(" + pat + r")[^\n]*\n(.*?)(?=^## |\Z)", notes, re.S | re.M | re.I)
    return m.group(2).strip() if m else ""

def main():
    a = sys.argv[1:]
    name, src = a[0], a[1]
    opt = dict(zip(a[2::2], a[3::2]))
    dst = os.path.join("/verif/seeded", name)
    os.makedirs(dst, exist_ok=True)
    notes = open(os.path.join(src, "notes.md")).read()
    shutil.copy(os.path.join(src, "notes.md"), os.path.join(dst, "notes.md"))
    shutil.copy(os.path.join(src, "demo.py"), os.path.join(dst, "demo.py"))
    ported = "--patch" in opt
    if ported:
        shutil.copy(os.path.join(src, "patch.diff"), os.path.join(dst, "patch.orig.diff"))
        shutil.copy(opt["--patch"], os.path.join(dst, "patch.diff"))
    else:
        shutil.copy(os.path.join(src, "patch.diff"), os.path.join(dst, "patch.diff"))
    conf = json.load(open(opt["--confirm"])) if "--confirm" in opt else {}
    title = notes.splitlines()[0].lstrip("# ").strip()
    files = sorted(set(re.findall(r"^\+\+\+ b/(\S+)", open(os.path.join(dst, "patch.diff")).read(), re.M)))
    meta = {
        "id": name,
        "property": name.split("_")[0][:3],
        "title": title,
        "origin": "fresh sub-agent given only the property text and a scratch git worktree of /repo (nothing from /verif)",
        "files_changed": files,
        "breaks": section(notes, "clause|breaks")[:1500],
        "needs_to_manifest": section(notes, "needed")[:1500],
        "ported_to_repaired_tree": ported,
        "demo": "cd <tree with patch.diff applied> && /venv/bin/python /verif/seeded/%s/demo.py  (exit 1 with the change, 0 without)" % name,
        "confirmed_by_me": {
            "where": "scratch worktree of /repo HEAD under /tmp (removed afterwards); never committed to /repo",
            "patch_applies": conf.get("applies"),
            "demo_rc_with_change": (conf.get("demo_with_change") or {}).get("rc"),
            "demo_rc_without_change": (conf.get("demo_clean") or {}).get("rc"),
            "repo_suite_with_change": ((conf.get("tests") or {}).get("tail") or "").strip().splitlines()[-2:],
            "cli_tests_rerun_serially": conf.get("cli_retry"),
        },
    }
    if "--note" in opt:
        meta["note"] = opt["--note"]
    old = os.path.join(dst, "meta.json")
    if os.path.exists(old):
        prev = json.load(open(old))
        for k in ("detected_by",):
            if k in prev:
                meta[k] = prev[k]
    json.dump(meta, open(old, "w"), indent=1)
    print("imported", name, "->", dst)

main()
