#!/bin/sh
# usage: try_seed.sh <prop> <patch> [extra check args]  -- applies a seeded change to /repo, runs the quick check, restores /repo
prop=$1; patch=$2; shift 2
cd /repo || exit 2
git diff --quiet || { echo "repo dirty"; exit 2; }
git apply --3way "$patch" 2>/dev/null || git apply "$patch" || { echo "PATCH-DOES-NOT-APPLY"; git reset -q --hard HEAD; exit 3; }
cd /verif && ./check "$prop" "$@" > /tmp/try_seed_$prop.log 2>&1
rc=$?
git -C /repo reset -q --hard HEAD
grep -v conda /tmp/try_seed_$prop.log | grep -e "^VIOLATION" -e "^KNOWN" -e "^PASS" -e "^FAIL" -e "^MACH" -e "clause:" | head -8
echo "exit=$rc"
exit $rc
