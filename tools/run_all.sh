#!/bin/sh
# usage: run_all.sh [quick|thorough] [props...]  -- every registered check (and the extras) against /repo, one summary line each
tier=${1:-quick}; [ $# -gt 0 ] && shift
props=${*:-C01 C02 C03 C04 C05 C06 C07 C08 C09 C10 C11 C12 C13 C14 C15 C16 C17 C18 C19 C20 X01 X02 X03 X04 X05 X06}
cd "$(dirname "$0")/.." || exit 2
rc=0
for p in $props; do
  out=$(./check $p --tier $tier 2>&1); r=$?
  echo "$out" | grep -e '^PASS' -e '^FAIL' -e '^MACH' -e '^VIOLATION' -e '^KNOWN' | cut -c1-220
  [ $r = 0 ] || rc=1
done
exit $rc
